(* Proofs/PolicyImports.v — lemmas for C17 (import and builtin restrictions).
   Everything is for ALL strings / alias lists / worlds; the regenerated literal sets of Gen/ImportConsts.v
   are only inspected in the lemmas of the section "facts about the regenerated sets". *)
From Coq Require Import String Ascii.
From PV Require Import Common.Util Gen.ImportConsts Policy.Imports Policy.ImportsCheck.
Local Open Scope string_scope.
Local Open Scope list_scope.

(* ---------- membership ---------- *)
Lemma str_mem_In s l : str_mem s l = true <-> In s l.
Proof.
  unfold str_mem. rewrite existsb_exists. split.
  - intros (x & Hx & E). apply String.eqb_eq in E. subst. exact Hx.
  - intros H. exists s. split; [exact H|apply String.eqb_refl].
Qed.

Lemma str_mem_false s l : str_mem s l = false <-> ~ In s l.
Proof. rewrite <- str_mem_In. destruct (str_mem s l); split; congruence. Qed.

(* ---------- the policy kernel ---------- *)
Lemma decide_denied m : ~ In m allowed_imports -> decide false false m = VDenied.
Proof. intros H. unfold decide. apply str_mem_false in H. rewrite H. reflexivity. Qed.

Lemma decide_allowed m : In m allowed_imports -> decide false false m = VSystem.
Proof. intros H. unfold decide. apply str_mem_In in H. rewrite H. reflexivity. Qed.

Lemma decide_allow_all m : decide true false m = VSystem.
Proof. reflexivity. Qed.

Lemma decide_pyscript aa m : decide aa true m = VPyscript.
Proof. reflexivity. Qed.

(* the check is exactly set membership: no weaker predicate (prefix, substring, ...) has this property *)
Lemma decide_system_iff m : decide false false m = VSystem <-> In m allowed_imports.
Proof.
  split; [|apply decide_allowed].
  intros H. destruct (str_mem m allowed_imports) eqn:E; [apply str_mem_In; exact E|].
  apply str_mem_false in E. rewrite (decide_denied m E) in H. discriminate.
Qed.

(* ---------- resolve ---------- *)
Lemma resolve_none_denied w m lvl :
  w_allow_all w = false -> ~ In m allowed_imports -> ps_lookup w m lvl = PsNone ->
  resolve w m lvl = (RFail SDenied, w).
Proof. intros Ha Hn Hp. unfold resolve. rewrite Hp, Ha, (decide_denied m Hn). reflexivity. Qed.

Lemma resolve_none_system w m lvl si :
  (w_allow_all w = true \/ In m allowed_imports) -> ps_lookup w m lvl = PsNone ->
  assoc m (w_sys w) = Some si -> si_importable si = true ->
  resolve w m lvl = (RMod (OSys m) (si_has si) (si_public si), w).
Proof.
  intros Ha Hp Hs Hi. unfold resolve. rewrite Hp, Hs, Hi.
  destruct Ha as [Ha|Ha].
  - rewrite Ha. reflexivity.
  - unfold decide. apply str_mem_In in Ha. rewrite Ha. destruct (w_allow_all w); reflexivity.
Qed.

Lemma resolve_hit w m lvl cn f fresh :
  ps_lookup w m lvl = PsHit cn f fresh ->
  exists has pub w', resolve w m lvl = (RMod (OPs f) has pub, w').
Proof. intros Hp. unfold resolve. rewrite Hp. eauto. Qed.

Lemma resolve_allow_all w m lvl : w_allow_all (snd (resolve w m lvl)) = w_allow_all w.
Proof.
  unfold resolve. destruct (ps_lookup w m lvl) as [cn f fresh| | |]; cbn [snd]; try reflexivity.
  - destruct fresh; reflexivity.
  - destruct (decide (w_allow_all w) false m); try reflexivity;
      destruct (assoc m (w_sys w)) as [si|]; try reflexivity; destruct (si_importable si); reflexivity.
Qed.

Lemma resolve_origin w m lvl o h p w' :
  w_allow_all w = false -> resolve w m lvl = (RMod o h p, w') ->
  (exists f, o = OPs f) \/ (o = OSys m /\ In m allowed_imports).
Proof.
  intros Ha. unfold resolve. destruct (ps_lookup w m lvl) as [cn f fresh| | |]; try discriminate.
  - intros H. inversion H. left. eauto.
  - rewrite Ha. unfold decide. cbn [negb andb].
    destruct (str_mem m allowed_imports) eqn:E; cbn [negb]; [|discriminate].
    apply str_mem_In in E.
    destruct (assoc m (w_sys w)) as [si|]; [|discriminate].
    destruct (si_importable si); [|discriminate].
    intros H. inversion H. right. split; [reflexivity|exact E].
Qed.

Lemma resolve_not_other w m lvl o h p w' : resolve w m lvl = (RMod o h p, w') -> o <> OOther.
Proof.
  unfold resolve. destruct (ps_lookup w m lvl) as [cn f fresh| | |]; try discriminate.
  - intros H. inversion H. discriminate.
  - destruct (decide (w_allow_all w) false m); try discriminate;
      (destruct (assoc m (w_sys w)) as [si|]; [|discriminate]; destruct (si_importable si); [|discriminate];
       intros H; inversion H; discriminate).
Qed.

(* ---------- what "not a pyscript module/app package" means ---------- *)
Lemma find_all_false {A} (f : A -> bool) l : (forall x, In x l -> f x = false) -> find f l = None.
Proof.
  induction l as [|x r IH]; intros H; cbn [find]; [reflexivity|].
  rewrite (H x (or_introl eq_refl)). apply IH. intros y Hy. apply H. right. exact Hy.
Qed.

(* level 0: the name denotes no pyscript module iff none of the candidate contexts is loaded and none of the
   candidate files (apps/<p>/__init__.py, apps/<p>.py for app packages; modules/<p>/__init__.py, modules/<p>.py) exists *)
Lemma ps_lookup_none_iff w m :
  ps_lookup w m 0 = PsNone <->
  forall c, In c (cands0 (w_rel w) m) -> assoc (fst c) (w_loaded w) = None /\ str_mem (snd c) (w_present w) = false.
Proof.
  unfold ps_lookup, candidates. cbn [N.eqb].
  set (l := cands0 (w_rel w) m).
  set (f1 := fun c : string * string => match assoc (fst c) (w_loaded w) with Some _ => true | None => false end).
  set (f2 := fun c : string * string => str_mem (snd c) (w_present w)).
  split.
  - destruct (find f1 l) as [[cn f]|] eqn:E1; [discriminate|].
    destruct (find f2 l) as [[cn f]|] eqn:E2; [discriminate|].
    intros _ c Hc. pose proof (find_none _ _ E1 c Hc) as H1. pose proof (find_none _ _ E2 c Hc) as H2.
    subst f1 f2. cbn beta in H1, H2. split; [|exact H2]. destruct (assoc (fst c) (w_loaded w)); [discriminate|reflexivity].
  - intros H.
    rewrite (find_all_false f1 l) by (intros c Hc; subst f1; cbn beta; rewrite (proj1 (H c Hc)); reflexivity).
    rewrite (find_all_false f2 l) by (intros c Hc; exact (proj2 (H c Hc))). reflexivity.
Qed.

Lemma ps_lookup_no_files w m : w_present w = [] -> w_loaded w = [] -> ps_lookup w m 0 = PsNone.
Proof. intros Hp Hl. apply ps_lookup_none_iff. intros c _. rewrite Hp, Hl. split; reflexivity. Qed.

(* ---------- bound lists ---------- *)
Lemma r_bound_cons b r : r_bound (res_cons b r) = b ++ r_bound r.
Proof. reflexivity. Qed.
Lemma r_status_cons b r : r_status (res_cons b r) = r_status r.
Proof. reflexivity. Qed.

Lemma bind_names_origin o has pub l n o' : In (n, o') (r_bound (bind_names o has pub l)) -> o' = o.
Proof.
  induction l as [|a r IH]; cbn [bind_names]; [intros []|].
  destruct (al_name a =? "*").
  - rewrite r_bound_cons, in_app_iff, in_map_iff. intros [(x & E & _)|H]; [inversion E; reflexivity|exact (IH H)].
  - destruct (str_mem (al_name a) has); [|intros []].
    rewrite r_bound_cons. cbn [app In]. intros [E|H]; [inversion E; reflexivity|exact (IH H)].
Qed.

Lemma from_dot_origin w lvl l n o : In (n, o) (r_bound (from_dot_aliases w lvl l)) -> exists f, o = OPs f.
Proof.
  revert w. induction l as [|a r IH]; intros w; cbn [from_dot_aliases]; [intros []|].
  destruct (ps_lookup w (al_name a) lvl) as [cn f fresh| | |]; [|intros []|intros []|intros []].
  rewrite r_bound_cons. cbn [app In]. intros [E|H]; [inversion E; eauto|exact (IH _ H)].
Qed.

(* a property of origins that holds of everything [resolve] can return holds of everything an import binds *)
Lemma import_aliases_origin (P : world -> Prop) (Q : origin -> Prop) :
  (forall w m, P w -> P (snd (resolve w m 0))) ->
  (forall w m o h p w', P w -> resolve w m 0 = (RMod o h p, w') -> Q o) ->
  forall l w n o, P w -> In (n, o) (r_bound (import_aliases w l)) -> Q o.
Proof.
  intros Hpres Hq. induction l as [|a r IH]; intros w n o Hw; cbn [import_aliases]; [intros []|].
  destruct (resolve w (al_name a) 0) as [rs w'] eqn:E. destruct rs as [o1 h p|s]; [|intros []].
  rewrite r_bound_cons. cbn [app In]. intros [H|H].
  - inversion H; subst. exact (Hq _ _ _ _ _ _ Hw E).
  - apply (IH w' n o); [|exact H]. specialize (Hpres w (al_name a) Hw). rewrite E in Hpres. exact Hpres.
Qed.

(* ---------- C17: safety — nothing outside the allow-list is ever bound, whatever the statement ---------- *)
Theorem safety : forall w s n m,
  w_allow_all w = false -> In (n, OSys m) (r_bound (run_stmt w s)) -> In m allowed_imports.
Proof.
  intros w s n m Ha. destruct s as [l|[mo|] lvl l]; cbn [run_stmt].
  - intros H.
    refine (import_aliases_origin (fun w => w_allow_all w = false)
              (fun o => forall m, o = OSys m -> In m allowed_imports) _ _ l w n (OSys m) Ha H m eq_refl).
    + intros w0 m0 H0. rewrite resolve_allow_all. exact H0.
    + intros w0 m0 o h p w' H0 E m1 ->. destruct (resolve_origin _ _ _ _ _ _ _ H0 E) as [(f & Hf)|(Ho & Hin)]; [discriminate|].
      inversion Ho; subst. exact Hin.
  - destruct (is_stubs mo); [destruct (existsb has_as l); intros []|].
    destruct (resolve w mo lvl) as [rs w'] eqn:E. destruct rs as [o h p|s]; [|intros []].
    intros H. apply bind_names_origin in H. subst o.
    destruct (resolve_origin _ _ _ _ _ _ _ Ha E) as [(f & Hf)|(Ho & Hin)]; [discriminate|].
    inversion Ho; subst. exact Hin.
  - intros H. apply from_dot_origin in H. destruct H as (f & Hf). discriminate.
Qed.

Theorem never_other : forall w s n, ~ In (n, OOther) (r_bound (run_stmt w s)).
Proof.
  intros w s n. destruct s as [l|[mo|] lvl l]; cbn [run_stmt].
  - intros H.
    exact (import_aliases_origin (fun _ => True) (fun o => o <> OOther) (fun _ _ _ => I)
             (fun w0 m0 o h p w' _ E => resolve_not_other _ _ _ _ _ _ _ E) l w n OOther I H eq_refl).
  - destruct (is_stubs mo); [destruct (existsb has_as l); intros []|].
    destruct (resolve w mo lvl) as [rs w'] eqn:E. destruct rs as [o h p|s]; [|intros []].
    intros H. apply bind_names_origin in H. subst o. exact (resolve_not_other _ _ _ _ _ _ _ E eq_refl).
  - intros H. apply from_dot_origin in H. destruct H as (f & Hf). discriminate.
Qed.

(* ---------- C17: denied ---------- *)
(* import a [as x] *)
Theorem import_denied : forall w a,
  w_allow_all w = false -> ~ In (al_name a) allowed_imports -> ps_lookup w (al_name a) 0 = PsNone ->
  run_stmt w (SImport [a]) = res SDenied [].
Proof.
  intros w a Ha Hn Hp. cbn [run_stmt import_aliases]. rewrite (resolve_none_denied _ _ _ Ha Hn Hp). reflexivity.
Qed.

(* in a configuration without pyscript modules every non-allow-listed name is denied: no side condition left *)
Theorem import_denied_no_files : forall w a,
  w_allow_all w = false -> w_present w = [] -> w_loaded w = [] -> ~ In (al_name a) allowed_imports ->
  run_stmt w (SImport [a]) = res SDenied [].
Proof. intros w a Ha Hp Hl Hn. apply import_denied; [exact Ha|exact Hn|apply ps_lookup_no_files; assumption]. Qed.

(* import ok1, ok2 as y, a, ...: the aliases before the denied one are bound, then it stops *)
Definition sys_importable (w : world) (m : string) : Prop :=
  exists si, assoc m (w_sys w) = Some si /\ si_importable si = true.

Theorem import_denied_at : forall w pre a post,
  w_allow_all w = false ->
  (forall x, In x pre -> In (al_name x) allowed_imports /\ ps_lookup w (al_name x) 0 = PsNone /\ sys_importable w (al_name x)) ->
  ~ In (al_name a) allowed_imports -> ps_lookup w (al_name a) 0 = PsNone ->
  run_stmt w (SImport (pre ++ a :: post)) = res SDenied (map (fun x => (bind_name x, OSys (al_name x))) pre).
Proof.
  intros w pre a post Ha Hpre Hn Hp. cbn [run_stmt].
  induction pre as [|x r IH]; cbn [app import_aliases map].
  - rewrite (resolve_none_denied _ _ _ Ha Hn Hp). reflexivity.
  - destruct (Hpre x (or_introl eq_refl)) as (Hin & Hps & si & Hs & Hi).
    rewrite (resolve_none_system w (al_name x) 0 si (or_intror Hin) Hps Hs Hi).
    rewrite IH; [reflexivity|]. intros y Hy. apply Hpre. right. exact Hy.
Qed.

(* from [..]a[.b] import <anything> — any names (also `*`), any level *)
Theorem from_denied : forall w m lvl names,
  w_allow_all w = false -> ~ In m allowed_imports -> is_stubs m = false -> ps_lookup w m lvl = PsNone ->
  run_stmt w (SFrom (Some m) lvl names) = res SDenied [].
Proof.
  intros w m lvl names Ha Hn Hst Hp. cbn [run_stmt]. rewrite Hst, (resolve_none_denied _ _ _ Ha Hn Hp). reflexivity.
Qed.

(* from . import x: only pyscript modules, otherwise ModuleNotFoundError; nothing bound *)
Theorem from_dot_notfound : forall w lvl a rest,
  ps_lookup w (al_name a) lvl = PsNone -> run_stmt w (SFrom None lvl (a :: rest)) = res SRelNotFound [].
Proof. intros w lvl a rest Hp. cbn [run_stmt from_dot_aliases]. rewrite Hp. reflexivity. Qed.

(* without the allow-list nothing of a from-import is bound, stubs or not *)
Theorem from_not_allowed_binds_nothing : forall w m lvl names,
  w_allow_all w = false -> ~ In m allowed_imports -> ps_lookup w m lvl = PsNone ->
  r_bound (run_stmt w (SFrom (Some m) lvl names)) = [].
Proof.
  intros w m lvl names Ha Hn Hp. cbn [run_stmt]. destruct (is_stubs m).
  - destruct (existsb has_as names); reflexivity.
  - rewrite (resolve_none_denied _ _ _ Ha Hn Hp). reflexivity.
Qed.

(* ---------- C17: allowed / allow_all ---------- *)
Definition permitted (w : world) (m : string) : Prop := w_allow_all w = true \/ In m allowed_imports.

Theorem import_permitted : forall w a,
  permitted w (al_name a) -> ps_lookup w (al_name a) 0 = PsNone -> sys_importable w (al_name a) ->
  run_stmt w (SImport [a]) = res SOk [(bind_name a, OSys (al_name a))].
Proof.
  intros w a Hperm Hp (si & Hs & Hi). cbn [run_stmt import_aliases].
  rewrite (resolve_none_system w (al_name a) 0 si Hperm Hp Hs Hi). reflexivity.
Qed.

Lemma bind_names_plain o has pub l :
  (forall a, In a l -> al_name a <> "*" /\ In (al_name a) has) ->
  bind_names o has pub l = res SOk (map (fun a => (bind_name a, o)) l).
Proof.
  induction l as [|a r IH]; intros H; cbn [bind_names map]; [reflexivity|].
  destruct (H a (or_introl eq_refl)) as (Hs & Hh).
  apply String.eqb_neq in Hs. rewrite Hs. apply str_mem_In in Hh. rewrite Hh.
  rewrite IH; [reflexivity|]. intros b Hb. apply H. right. exact Hb.
Qed.

Lemma bind_names_star o has pub : bind_names o has pub [{| al_name := "*"; al_as := None |}] = res SOk (map (fun n => (n, o)) pub).
Proof.
  change (bind_names o has pub [{| al_name := "*"; al_as := None |}])
    with (res_cons (map (fun n => (n, o)) pub) (res SOk [])).
  unfold res_cons, res. cbn [r_status r_bound]. rewrite app_nil_r. reflexivity.
Qed.

Theorem from_permitted : forall w m lvl si names,
  permitted w m -> is_stubs m = false -> ps_lookup w m lvl = PsNone ->
  assoc m (w_sys w) = Some si -> si_importable si = true ->
  (forall a, In a names -> al_name a <> "*" /\ In (al_name a) (si_has si)) ->
  run_stmt w (SFrom (Some m) lvl names) = res SOk (map (fun a => (bind_name a, OSys m)) names).
Proof.
  intros w m lvl si names Hperm Hst Hp Hs Hi Hn. cbn [run_stmt]. rewrite Hst.
  rewrite (resolve_none_system w m lvl si Hperm Hp Hs Hi). apply bind_names_plain. exact Hn.
Qed.

Theorem from_permitted_star : forall w m lvl si,
  permitted w m -> is_stubs m = false -> ps_lookup w m lvl = PsNone ->
  assoc m (w_sys w) = Some si -> si_importable si = true ->
  run_stmt w (SFrom (Some m) lvl [{| al_name := "*"; al_as := None |}]) = res SOk (map (fun n => (n, OSys m)) (si_public si)).
Proof.
  intros w m lvl si Hperm Hst Hp Hs Hi. cbn [run_stmt]. rewrite Hst.
  rewrite (resolve_none_system w m lvl si Hperm Hp Hs Hi). apply bind_names_star.
Qed.

(* ---------- C17: the pyscript module lookup precedes the check ---------- *)
Theorem import_pyscript_first : forall w a cn f fresh,
  ps_lookup w (al_name a) 0 = PsHit cn f fresh ->
  run_stmt w (SImport [a]) = res SOk [(bind_name a, OPs f)].
Proof.
  intros w a cn f fresh Hp. cbn [run_stmt import_aliases].
  destruct (resolve_hit _ _ _ _ _ _ Hp) as (h & p & w' & E). rewrite E. reflexivity.
Qed.

Theorem from_pyscript_first : forall w m lvl names cn f fresh n o,
  is_stubs m = false -> ps_lookup w m lvl = PsHit cn f fresh ->
  In (n, o) (r_bound (run_stmt w (SFrom (Some m) lvl names))) -> o = OPs f.
Proof.
  intros w m lvl names cn f fresh n o Hst Hp. cbn [run_stmt]. rewrite Hst.
  destruct (resolve_hit _ _ _ _ _ _ Hp) as (h & p & w' & E). rewrite E. apply bind_names_origin.
Qed.

(* ---------- C17: stubs ---------- *)
Theorem stubs_ignored : forall w m lvl names,
  is_stubs m = true -> (forall a, In a names -> al_as a = None) ->
  run_stmt w (SFrom (Some m) lvl names) = res SIgnored [].
Proof.
  intros w m lvl names Hst Hn. cbn [run_stmt]. rewrite Hst.
  assert (E : existsb has_as names = false).
  { induction names as [|a r IH]; [reflexivity|]. cbn [existsb]. unfold has_as at 1. rewrite (Hn a (or_introl eq_refl)).
    apply IH. intros b Hb. apply Hn. right. exact Hb. }
  rewrite E. reflexivity.
Qed.

Theorem stubs_bind_nothing : forall w m lvl names, is_stubs m = true -> r_bound (run_stmt w (SFrom (Some m) lvl names)) = [].
Proof. intros w m lvl names Hst. cbn [run_stmt]. rewrite Hst. destruct (existsb has_as names); reflexivity. Qed.

Lemma prefix_append p : forall s, String.prefix p s = true <-> exists r, s = String.append p r.
Proof.
  induction p as [|c p IH]; intros s; destruct s as [|d s]; cbn [String.prefix String.append].
  - split; [intros _; exists ""; reflexivity|reflexivity].
  - split; [intros _; eexists; reflexivity|reflexivity].
  - split; [discriminate|intros (r & Hr); discriminate Hr].
  - destruct (ascii_dec c d) as [->|Hne].
    + rewrite IH. split; intros (r & Hr); exists r; [rewrite Hr; reflexivity|inversion Hr; reflexivity].
    + split; [discriminate|intros (r & Hr); inversion Hr; congruence].
Qed.

Lemma is_stubs_spec m : is_stubs m = true <-> m = "stubs" \/ exists r, m = String.append "stubs." r.
Proof. unfold is_stubs. rewrite orb_true_iff, String.eqb_eq, prefix_append. reflexivity. Qed.

(* ---------- eval / exec ---------- *)
Theorem via_same : forall v w s, v <> VEvalRaw -> run_via v w s = run_stmt w s.
Proof. intros v w s H. destruct v; try reflexivity. congruence. Qed.

Theorem via_eval_statement : forall w s, run_via VEvalRaw w s = res SSyntax [].
Proof. reflexivity. Qed.

(* ---------- builtins ---------- *)
Lemma native_off e : ne_native e && d_native_builtins dev_off = false.
Proof. apply andb_false_r. Qed.

(* conformant code (all switches off): excluded and underscore names never denote the real builtin nor the builtins
   namespace, whatever the scope declares, binds or deletes *)
Theorem builtins_excluded : forall e n,
  In n builtin_exclude \/ starts_underscore n = true ->
  name_lookup dev_off e n <> KBuiltin /\ name_lookup dev_off e n <> KBuiltinsNs.
Proof.
  intros e n H. unfold name_lookup. rewrite native_off. unfold interp_lookup. cbn [d_builtins_leak dev_off andb].
  destruct (ne_gdecl e); [destruct (ne_global e); split; discriminate|].
  destruct (ne_unbound e); [split; discriminate|].
  destruct (ne_sym e); [split; discriminate|].
  destruct (if ne_local e then assoc n logger_funcs else None); [split; discriminate|].
  destruct (ne_local e && str_mem n other_ast_funcs); [split; discriminate|].
  destruct (ne_global e); [destruct (ne_localname e); split; discriminate|].
  destruct (str_mem n ast_factory_funcs); [split; discriminate|].
  destruct H as [H|H].
  - apply str_mem_In in H. rewrite H. rewrite andb_false_r. split; discriminate.
  - rewrite H. rewrite andb_false_r. split; discriminate.
Qed.

Theorem builtin_only_if : forall e n,
  name_lookup dev_off e n = KBuiltin ->
  ne_pybuiltin e = true /\ ~ In n builtin_exclude /\ starts_underscore n = false /\ ~ In n ast_factory_funcs.
Proof.
  intros e n. unfold name_lookup. rewrite native_off. unfold interp_lookup. cbn [d_builtins_leak dev_off andb].
  destruct (ne_gdecl e); [destruct (ne_global e); discriminate|].
  destruct (ne_unbound e); [discriminate|].
  destruct (ne_sym e); [discriminate|].
  destruct (if ne_local e then assoc n logger_funcs else None); [discriminate|].
  destruct (ne_local e && str_mem n other_ast_funcs); [discriminate|].
  destruct (ne_global e); [destruct (ne_localname e); discriminate|].
  destruct (str_mem n ast_factory_funcs) eqn:Ef; [discriminate|].
  destruct (ne_pybuiltin e); [|discriminate].
  destruct (str_mem n builtin_exclude) eqn:Ex; [discriminate|].
  destruct (starts_underscore n); [discriminate|].
  intros _. repeat split; try (apply str_mem_false; assumption).
Qed.

(* ---------- facts about the regenerated sets (a changed set re-runs these) ---------- *)
Lemma six_excluded : forall n, In n six_names -> In n builtin_exclude.
Proof. intros n H. apply str_mem_In. cbn in H. repeat (destruct H as [<-|H]; [reflexivity|]). destruct H. Qed.

Theorem six_never_builtin : forall e n, In n six_names -> name_lookup dev_off e n <> KBuiltin.
Proof. intros e n H. apply builtins_excluded. left. apply six_excluded. exact H. Qed.

Lemma factory_wrapped : forall n, In n ["eval"; "exec"; "globals"; "locals"] -> In n ast_factory_funcs.
Proof. intros n H. apply str_mem_In. cbn in H. repeat (destruct H as [<-|H]; [reflexivity|]). destruct H. Qed.

Theorem eval_exec_never_builtin : forall e n, In n ["eval"; "exec"; "globals"; "locals"] -> name_lookup dev_off e n <> KBuiltin.
Proof.
  intros e n H Hk. apply builtin_only_if in Hk. destruct Hk as (_ & _ & _ & Hf). apply Hf. apply factory_wrapped. exact H.
Qed.

(* print and the log functions denote methods of the script's logger unless the script declares, rebinds or deletes them in
   the current table, wherever the evaluator's local table is the installed one *)
Definition plain_env (e : nenv) : Prop :=
  ne_gdecl e = false /\ ne_unbound e = false /\ ne_sym e = false /\ ne_local e = true.

Theorem print_is_logger : forall cfg e, ne_native e = false -> plain_env e -> exists lvl, name_lookup cfg e "print" = KLogger lvl.
Proof.
  intros cfg e Hn (H1 & H2 & H3 & H4). unfold name_lookup, interp_lookup. rewrite Hn, H1, H2, H3, H4. cbn. eauto.
Qed.

Theorem log_funcs_are_loggers : forall cfg e n lvl,
  ne_native e = false -> plain_env e -> In (n, lvl) log_names -> name_lookup cfg e n = KLogger lvl.
Proof.
  intros cfg e n lvl Hn (H1 & H2 & H3 & H4) Hin. unfold name_lookup, interp_lookup. rewrite Hn, H1, H2, H3, H4. cbn in Hin.
  repeat (destruct Hin as [E|Hin]; [inversion E; reflexivity|]). destruct Hin.
Qed.

(* ---------- the deviations of the current code refute the claim (witnesses replayed on the real code by the check) ---------- *)
Definition env_lambda : nenv :=
  {| ne_sym := false; ne_global := false; ne_local := true; ne_pybuiltin := true; ne_gdecl := false; ne_unbound := false;
     ne_localname := false; ne_native := true; ne_leaked := false |}.
Definition env_after_lambda : nenv :=
  {| ne_sym := false; ne_global := false; ne_local := true; ne_pybuiltin := false; ne_gdecl := false; ne_unbound := false;
     ne_localname := false; ne_native := false; ne_leaked := true |}.

Theorem builtins_refuted_D170 :
  exists e n, In n six_names /\ name_lookup {| d_native_builtins := true; d_builtins_leak := false |} e n = KBuiltin.
Proof. exists env_lambda, "open". split; [left; reflexivity|vm_compute; reflexivity]. Qed.

Theorem builtins_refuted_D170_import :
  exists e, name_lookup {| d_native_builtins := true; d_builtins_leak := false |} e "__import__" = KBuiltin.
Proof. exists env_lambda. vm_compute. reflexivity. Qed.

Theorem builtins_refuted_D171 :
  exists e n, starts_underscore n = true /\ ne_native e = false
              /\ name_lookup {| d_native_builtins := false; d_builtins_leak := true |} e n = KBuiltinsNs.
Proof. exists env_after_lambda, "__builtins__". repeat split; vm_compute; reflexivity. Qed.

(* names a weakened test would let through are denied by the regenerated list *)
Example near_misses_denied :
  forallb (fun m => match decide false false m with VDenied => true | _ => false end)
    ["jso"; "jsonx"; "xjson"; "JSON"; "json.decoder"; "json.json"; "homeassistant"; "homeassistant.core";
     "homeassistant.const.x"; "homeassistant_const"; "mat"; "maths"; "r"; "ree"; "datetime.datetime"; "os"; "os.path";
     "sys"; "subprocess"; "importlib"; "builtins"; ""] = true.
Proof. vm_compute. reflexivity. Qed.

Example allow_list_accepted :
  forallb (fun m => match decide false false m with VSystem => true | _ => false end)
    ["json"; "math"; "re"; "datetime"; "homeassistant.const"] = true.
Proof. vm_compute. reflexivity. Qed.

(* ---------- the hypotheses above are inhabited: concrete worlds ---------- *)
Definition ex_world (aa : bool) : world :=
  {| w_allow_all := aa; w_ctx := "apps.pvapp"; w_rel := Some "apps/pvapp/__init__";
     w_defs := [{| pf_path := "modules/os.py"; pf_names := ["pv_marker"; "_pv_hidden"] |};
                {| pf_path := "apps/pvapp/helper.py"; pf_names := ["pv_marker"] |}];
     w_present := ["modules/os.py"; "apps/pvapp/helper.py"]; w_loaded := [];
     w_sys := [("json", {| si_importable := true; si_has := ["dumps"]; si_public := ["dumps"; "loads"] |});
               ("subprocess", {| si_importable := true; si_has := ["run"]; si_public := [] |})] |}.

Example ex_denied :
  let w := ex_world false in let a := {| al_name := "subprocess"; al_as := Some "sp" |} in
  w_allow_all w = false /\ ~ In (al_name a) allowed_imports /\ ps_lookup w (al_name a) 0 = PsNone
  /\ run_stmt w (SImport [a]) = res SDenied []
  /\ run_stmt w (SFrom (Some "subprocess") 0 [{| al_name := "*"; al_as := None |}]) = res SDenied []
  /\ run_stmt w (SFrom (Some "subprocess") 1 [{| al_name := "run"; al_as := None |}]) = res SDenied [].
Proof.
  cbv zeta. repeat split; try (vm_compute; reflexivity).
  apply str_mem_false. vm_compute. reflexivity.
Qed.

Example ex_denied_at :
  let w := ex_world false in
  run_stmt w (SImport [{| al_name := "json"; al_as := Some "j" |}; {| al_name := "subprocess"; al_as := None |};
                       {| al_name := "json"; al_as := None |}]) = res SDenied [("j", OSys "json")].
Proof. vm_compute. reflexivity. Qed.

Example ex_permitted :
  let w := ex_world false in
  permitted w "json" /\ ps_lookup w "json" 0 = PsNone /\ sys_importable w "json"
  /\ run_stmt w (SFrom (Some "json") 0 [{| al_name := "dumps"; al_as := Some "d" |}]) = res SOk [("d", OSys "json")]
  /\ run_stmt (ex_world true) (SImport [{| al_name := "subprocess"; al_as := None |}]) = res SOk [("subprocess", OSys "subprocess")].
Proof.
  cbv zeta. repeat split; try (vm_compute; reflexivity).
  - right. apply str_mem_In. vm_compute. reflexivity.
  - eexists. split; vm_compute; reflexivity.
Qed.

Example ex_pyscript_first :
  let w := ex_world false in
  ps_lookup w "os" 0 = PsHit "modules.os" "modules/os.py" true
  /\ run_stmt w (SImport [{| al_name := "os"; al_as := None |}]) = res SOk [("os", OPs "modules/os.py")]
  /\ run_stmt w (SFrom None 1 [{| al_name := "helper"; al_as := None |}]) = res SOk [("helper", OPs "apps/pvapp/helper.py")]
  /\ run_stmt w (SFrom None 2 [{| al_name := "helper"; al_as := None |}]) = res SImportErr []
  /\ run_stmt w (SFrom (Some "os") 0 [{| al_name := "*"; al_as := None |}]) = res SOk [("pv_marker", OPs "modules/os.py")].
Proof. cbv zeta. repeat split; vm_compute; reflexivity. Qed.

Example ex_stubs :
  is_stubs "stubs.pyscript_builtins" = true /\ is_stubs "stubsx" = false
  /\ run_stmt (ex_world false) (SFrom (Some "stubs.pyscript_builtins") 0 [{| al_name := "x"; al_as := None |}]) = res SIgnored [].
Proof. repeat split; vm_compute; reflexivity. Qed.

Definition env_plain : nenv :=
  {| ne_sym := false; ne_global := false; ne_local := true; ne_pybuiltin := true; ne_gdecl := false; ne_unbound := false;
     ne_localname := false; ne_native := false; ne_leaked := false |}.
Example ex_names :
  name_lookup dev_off env_plain "open" = KUndefined
  /\ name_lookup dev_off env_plain "__import__" = KUndefined
  /\ name_lookup dev_off env_plain "len" = KBuiltin
  /\ name_lookup dev_off env_plain "print" = KLogger "debug"
  /\ name_lookup dev_off env_plain "eval" = KFactory
  /\ plain_env env_plain /\ ne_native env_plain = false
  (* a lambda body under conformant code is an ordinary function body *)
  /\ name_lookup dev_off env_lambda "open" = KUndefined.
Proof. repeat split; vm_compute; reflexivity. Qed.

(* ---------- Model |= Spec on the functions the correspondence evaluates ---------- *)
Lemma origin_eqb_eq a b : origin_eqb a b = true -> a = b.
Proof.
  destruct a, b; cbn; try discriminate; try reflexivity; intros H; apply String.eqb_eq in H; subst; reflexivity.
Qed.

Lemma binding_eqb_eq a b : binding_eqb a b = true -> a = b.
Proof.
  destruct a as [n o], b as [n' o']. unfold binding_eqb. cbn [fst snd]. rewrite andb_true_iff.
  intros [H1 H2]. apply String.eqb_eq in H1. apply origin_eqb_eq in H2. subst. reflexivity.
Qed.

Lemma bmem_In x l : bmem x l = true -> In x l.
Proof. unfold bmem. rewrite existsb_exists. intros (y & Hy & E). apply binding_eqb_eq in E. subst. exact Hy. Qed.

Lemma final_bindings_incl l x : In x (final_bindings l) -> In x l.
Proof.
  induction l as [|[n o] r IH]; cbn [final_bindings]; [intros []|].
  destruct (existsb (fun p => fst p =? n) r).
  - intros H. right. exact (IH H).
  - cbn [In]. intros [H|H]; [left; exact H|right; exact (IH H)].
Qed.

Lemma nkind_eqb_eq a b : nkind_eqb a b = true -> a = b.
Proof.
  destruct a, b; cbn; try discriminate; try reflexivity. intros H. apply String.eqb_eq in H. subst. reflexivity.
Qed.

Lemma assoc_In {A} k (l : list (string * A)) v : assoc k l = Some v -> In (k, v) l.
Proof.
  induction l as [|[k' v'] r IH]; cbn [assoc]; [discriminate|].
  destruct (String.eqb_spec k k') as [->|Hne].
  - intros H. inversion H. left. reflexivity.
  - intros H. right. exact (IH H).
Qed.

(* whatever the Model reproduces of the implementation never binds an installed module outside the
   allow-list, never a value of unknown provenance, and touches no other table (Spec clause S1) *)
Theorem icase_model_safety : forall c, icase_model_ok c = true -> spec_safety c = true.
Proof.
  intros c Hm. unfold icase_model_ok in Hm. rewrite !andb_true_iff in Hm. destruct Hm as (((_ & _) & Hb) & Hs).
  unfold spec_safety. rewrite Hs, andb_true_r. apply forallb_forall. intros [n o] Hin.
  unfold same_bindings in Hb. rewrite andb_true_iff in Hb. destruct Hb as [_ Hb].
  rewrite forallb_forall in Hb. specialize (Hb _ Hin). apply bmem_In, final_bindings_incl in Hb.
  unfold icase_model, run_via in Hb. cbn [snd].
  destruct o as [f|m|].
  - reflexivity.
  - destruct (ic_allow_all c) eqn:Ha; [reflexivity|]. cbn [orb]. apply str_mem_In.
    destruct (ic_via c); try (apply (safety (world_of c) (ic_stmt c) n m Ha Hb)). destruct Hb.
  - exfalso. destruct (ic_via c); try (exact (never_other _ _ _ Hb)). destruct Hb.
Qed.

(* the same for plain names: every lookup the conformant Model reproduces satisfies the property's clauses *)
Theorem ncase_model_implies_spec : forall c, ncase_model_ok dev_off c = true -> ncase_spec_ok c = true.
Proof.
  intros c Hm. unfold ncase_model_ok in Hm. rewrite andb_true_iff in Hm. destruct Hm as [Hk Hl].
  apply nkind_eqb_eq in Hk. unfold ncase_spec_ok. apply andb_true_iff. split.
  - destruct (str_mem (nc_name c) six_names || starts_underscore (nc_name c)) eqn:E; [|reflexivity].
    assert (Hex : In (nc_name c) builtin_exclude \/ starts_underscore (nc_name c) = true).
    { apply orb_true_iff in E. destruct E as [E|E]; [left; apply six_excluded, str_mem_In; exact E|right; exact E]. }
    destruct (builtins_excluded (nenv_of c) (nc_name c) Hex) as [Hb Hns].
    assert (Hkb : nc_kind c <> KBuiltin /\ nc_kind c <> KBuiltinsNs).
    { rewrite <- Hk. unfold ncase_model. destruct (nc_scope c); try (split; assumption).
      destruct (nkind_eqb (name_lookup dev_off (nenv_of c) (nc_name c)) KUndefined); [split; discriminate|split; assumption]. }
    destruct Hkb as [H1 H2]. apply andb_true_iff. split; apply negb_true_iff.
    + destruct (nkind_eqb (nc_kind c) KBuiltin) eqn:Ek; [apply nkind_eqb_eq in Ek; contradiction|reflexivity].
    + destruct (nkind_eqb (nc_kind c) KBuiltinsNs) eqn:Ek; [apply nkind_eqb_eq in Ek; contradiction|reflexivity].
  - destruct (nc_shadow c) eqn:Es; [reflexivity|]. cbn [orb].
    destruct (scope_is_trig (nc_scope c)) eqn:Et; [reflexivity|]. cbn [orb].
    destruct (scope_script_binds (nc_scope c)) eqn:Eb; [reflexivity|].
    assert (Hplain : plain_env (nenv_of c) /\ ncase_model dev_off c = name_lookup dev_off (nenv_of c) (nc_name c)).
    { unfold plain_env, ncase_model, nenv_of. cbn [ne_gdecl ne_unbound ne_sym ne_local]. rewrite Es, Et.
      destruct (nc_scope c); try discriminate Eb; repeat split; reflexivity. }
    destruct Hplain as [Hplain Hmod]. rewrite Hmod in Hk.
    (* with all switches off a native scope is looked up like an interpreted one *)
    assert (Hlk : forall n, name_lookup dev_off (nenv_of c) n = interp_lookup dev_off (nenv_of c) n).
    { intros n. unfold name_lookup. rewrite native_off. reflexivity. }
    destruct Hplain as (H1 & H2 & H3 & H4).
    destruct (String.eqb_spec (nc_name c) "print") as [Ep|Ep].
    + rewrite Hlk, Ep in Hk. unfold interp_lookup in Hk. rewrite H1, H2, H3, H4 in Hk. cbn in Hk.
      rewrite <- Hk in Hl |- *. exact Hl.
    + destruct (assoc (nc_name c) log_names) as [lvl|] eqn:Ea; [|reflexivity].
      apply assoc_In in Ea. rewrite Hlk in Hk. unfold interp_lookup in Hk. rewrite H1, H2, H3, H4 in Hk.
      cbn in Ea. repeat (destruct Ea as [E|Ea]; [inversion E as [[En El]]; rewrite <- En in Hk; cbn in Hk;
        rewrite <- Hk in Hl |- *; cbn [nkind_eqb]; rewrite String.eqb_refl; exact Hl|]). destruct Ea.
Qed.
