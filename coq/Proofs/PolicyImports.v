(* Proofs/PolicyImports.v — lemmas for C17 (import and builtin restrictions). *)
From Coq Require Import String Ascii.
From PV Require Import Common.Util Gen.ImportConsts Policy.Imports Policy.ImportsCheck.
Local Open Scope string_scope.
Local Open Scope list_scope.

Lemma str_mem_In s l : str_mem s l = true <-> In s l.
Proof.
  unfold str_mem. rewrite existsb_exists. split.
  - intros (x & Hx & E). apply String.eqb_eq in E. subst. exact Hx.
  - intros H. exists s. split; [exact H|apply String.eqb_refl].
Qed.
