(* Proofs/Civil.v — lemmas about Common/Civil.v: year lengths, the year/month search, both round trips
   days <-> (y, m, d), instants <-> datetime records, weekday periodicity, round-half-even division. *)
From Coq Require Import ZArith List Bool Lia.
From PV Require Import Common.Civil.
Import ListNotations.
Local Open Scope Z_scope.

(* let [lia] reason about floor division / modulo by introducing the Euclidean equations *)
Ltac Zify.zify_post_hook ::= Z.to_euclidean_division_equations.

Lemma is_leap_cases y :
  is_leap y = true /\ y mod 4 = 0 /\ (y mod 100 <> 0 \/ y mod 400 = 0) \/
  is_leap y = false /\ (y mod 4 <> 0 \/ (y mod 100 = 0 /\ y mod 400 <> 0)).
Proof.
  unfold is_leap.
  destruct (y mod 4 =? 0) eqn:E4; destruct (y mod 100 =? 0) eqn:E100; destruct (y mod 400 =? 0) eqn:E400;
    cbn [andb orb negb]; rewrite ?Z.eqb_eq, ?Z.eqb_neq in *; tauto.
Qed.

Lemma dby_succ y : days_before_year (y + 1) = days_before_year y + 365 + (if is_leap y then 1 else 0).
Proof.
  destruct (is_leap_cases y) as [(-> & H4 & H)|(-> & H)]; unfold days_before_year;
    replace (y + 1 - 1) with y by lia; lia.
Qed.

Definition jan1 (y : Z) : Z := days_before_year y + 1 - EPOCH_ORD.

Lemma dfc_jan1 y : days_from_civil y 1 1 = jan1 y.
Proof. unfold days_from_civil, days_before_month, jan1. cbn. lia. Qed.

Lemma jan1_succ y : jan1 (y + 1) = jan1 y + 365 + (if is_leap y then 1 else 0).
Proof. unfold jan1. rewrite dby_succ. lia. Qed.

Lemma jan1_lt_succ y : jan1 y < jan1 (y + 1).
Proof. rewrite jan1_succ. destruct (is_leap y); lia. Qed.

Lemma jan1_mono_le a b : a <= b -> jan1 a <= jan1 b.
Proof.
  intros H. replace b with (a + Z.of_nat (Z.to_nat (b - a))) by lia.
  induction (Z.to_nat (b - a)) as [|k IH].
  - replace (a + Z.of_nat 0) with a by lia. lia.
  - replace (a + Z.of_nat (S k)) with (a + Z.of_nat k + 1) by lia.
    pose proof (jan1_lt_succ (a + Z.of_nat k)). lia.
Qed.

Lemma jan1_mono_lt a b : a < b -> jan1 a < jan1 b.
Proof.
  intros H. pose proof (jan1_mono_le (a + 1) b ltac:(lia)). pose proof (jan1_lt_succ a). lia.
Qed.

Lemma est_bounds n : let y0 := (n + EPOCH_ORD - 1) * 400 / 146097 + 1 in
  jan1 (y0 - 1) <= n < jan1 (y0 + 2).
Proof. cbv zeta. unfold jan1, days_before_year, EPOCH_ORD. lia. Qed.

(* the year search is correct for every day number *)
Lemma year_of_day_spec n : jan1 (year_of_day n) <= n < jan1 (year_of_day n + 1).
Proof.
  unfold year_of_day. set (y0 := (n + EPOCH_ORD - 1) * 400 / 146097 + 1).
  pose proof (est_bounds n) as B. cbv zeta in B. fold y0 in B.
  rewrite !dfc_jan1.
  destruct (jan1 (y0 + 1) <=? n) eqn:E1.
  - apply Z.leb_le in E1. replace (y0 + 1 + 1) with (y0 + 2) by lia. lia.
  - apply Z.leb_gt in E1. destruct (n <? jan1 y0) eqn:E2.
    + apply Z.ltb_lt in E2. replace (y0 - 1 + 1) with y0 by lia. lia.
    + apply Z.ltb_ge in E2. lia.
Qed.

Lemma year_of_day_unique n y : jan1 y <= n < jan1 (y + 1) -> year_of_day n = y.
Proof.
  intros H. pose proof (year_of_day_spec n) as S.
  destruct (Z.lt_trichotomy (year_of_day n) y) as [L|[E|G]]; [|exact E|].
  - pose proof (jan1_mono_le (year_of_day n + 1) y ltac:(lia)). lia.
  - pose proof (jan1_mono_le (y + 1) (year_of_day n) ltac:(lia)). lia.
Qed.

Lemma dbm_1 y : days_before_month y 1 = 0.
Proof. reflexivity. Qed.

Lemma dbm_13 y : days_before_month y 13 = 365 + (if is_leap y then 1 else 0).
Proof. unfold days_before_month. cbn. destruct (is_leap y); reflexivity. Qed.

Lemma dfc_via_jan1 y m d : days_from_civil y m d = jan1 y + days_before_month y m + d - 1.
Proof. unfold days_from_civil, jan1. lia. Qed.

(* round trip 1: every day number is the day number of its civil date *)
Lemma days_from_civil_from_days n :
  let '(y, m, d) := civil_from_days n in days_from_civil y m d = n.
Proof.
  unfold civil_from_days. rewrite dfc_via_jan1, dfc_jan1. lia.
Qed.

Ltac month_cases m :=
  assert (m = 1 \/ m = 2 \/ m = 3 \/ m = 4 \/ m = 5 \/ m = 6 \/ m = 7 \/ m = 8 \/ m = 9 \/ m = 10 \/ m = 11 \/ m = 12) as Hm_cases by lia;
  destruct Hm_cases as [->|[->|[->|[->|[->|[->|[->|[->|[->|[->|[->| ->]]]]]]]]]]].

Lemma month_of_doy_spec y doy : 0 <= doy < days_before_month y 13 ->
  let m := month_of_doy y doy in
  1 <= m <= 12 /\ days_before_month y m <= doy < days_before_month y (m + 1).
Proof.
  intros H. unfold month_of_doy, days_before_month in *. cbn in H |- *.
  destruct (is_leap y); cbn in H |- *;
  repeat match goal with |- context [if ?a <? ?b then _ else _] => destruct (Z.ltb_spec a b) end; cbn; lia.
Qed.

Lemma civil_from_days_valid n : let '(y, m, d) := civil_from_days n in valid_date y m d = true.
Proof.
  unfold civil_from_days. set (y := year_of_day n). set (doy := n - days_from_civil y 1 1).
  pose proof (year_of_day_spec n) as S. fold y in S.
  assert (0 <= doy < days_before_month y 13) as Hd.
  { subst doy. rewrite dfc_jan1, dbm_13. rewrite jan1_succ in S. lia. }
  pose proof (month_of_doy_spec y doy Hd) as M. cbv zeta in M.
  unfold valid_date, days_in_month. rewrite !andb_true_iff, !Z.leb_le. lia.
Qed.

Lemma valid_date_bounds y m d : valid_date y m d = true ->
  1 <= m <= 12 /\ 1 <= d /\ days_before_month y m + d <= days_before_month y (m + 1).
Proof.
  unfold valid_date, days_in_month. rewrite !andb_true_iff, !Z.leb_le. lia.
Qed.

Lemma dbm_mono_13 y m : 1 <= m <= 12 -> days_before_month y (m + 1) <= days_before_month y 13.
Proof.
  intros H. month_cases m; unfold days_before_month; cbn; destruct (is_leap y); cbn; lia.
Qed.

Lemma month_of_doy_unique y doy m : 1 <= m <= 12 ->
  days_before_month y m <= doy < days_before_month y (m + 1) -> month_of_doy y doy = m.
Proof.
  intros Hm H. unfold month_of_doy.
  month_cases m; unfold days_before_month in *; cbn in H |- *; destruct (is_leap y); cbn in H |- *;
  repeat match goal with |- context [if ?a <? ?b then _ else _] => destruct (Z.ltb_spec a b) end; lia.
Qed.


Lemma civil_from_days_spec n : let '(y, m, d) := civil_from_days n in days_from_civil y m d = n /\ valid_date y m d = true.
Proof.
  pose proof (days_from_civil_from_days n) as A. pose proof (civil_from_days_valid n) as B.
  destruct (civil_from_days n) as [[y m] d]. split; assumption.
Qed.

(* round trip 2: every valid civil date is the civil date of its day number *)
Lemma civil_from_days_from_civil y m d : valid_date y m d = true ->
  civil_from_days (days_from_civil y m d) = (y, m, d).
Proof.
  intros V. apply valid_date_bounds in V. destruct V as (Hm & Hd & Hle).
  pose proof (dbm_mono_13 y m Hm) as H13. rewrite dbm_13 in H13.
  assert (0 <= days_before_month y m) as H0.
  { month_cases m; unfold days_before_month; cbn; destruct (is_leap y); cbn; lia. }
  assert (year_of_day (days_from_civil y m d) = y) as Ey.
  { apply year_of_day_unique. rewrite dfc_via_jan1, jan1_succ. lia. }
  unfold civil_from_days. rewrite Ey, dfc_jan1.
  replace (days_from_civil y m d - jan1 y) with (days_before_month y m + d - 1) by (rewrite dfc_via_jan1; lia).
  rewrite (month_of_doy_unique y _ m Hm) by lia.
  f_equal. lia.
Qed.

(* the same month and day one year later is 365 or 366 days later *)
Lemma dfc_next_year y m d : 1 <= m <= 12 ->
  365 <= days_from_civil (y + 1) m d - days_from_civil y m d <= 366.
Proof.
  intros Hm. rewrite !dfc_via_jan1, jan1_succ. unfold days_before_month.
  destruct (is_leap_cases y) as [(-> & H4 & H)|(-> & H)];
  destruct (is_leap_cases (y + 1)) as [(-> & H4' & H')|(-> & H')];
  destruct (2 <? m); cbn [andb]; lia.
Qed.

Lemma dfc_year_mono_le y y' m d : 1 <= m <= 12 -> y <= y' ->
  days_from_civil y m d + 365 * (y' - y) <= days_from_civil y' m d.
Proof.
  intros Hm H. replace y' with (y + Z.of_nat (Z.to_nat (y' - y))) by lia.
  induction (Z.to_nat (y' - y)) as [|k IH].
  - replace (y + Z.of_nat 0) with y by lia. lia.
  - replace (y + Z.of_nat (S k)) with (y + Z.of_nat k + 1) by lia.
    pose proof (dfc_next_year (y + Z.of_nat k) m d Hm). lia.
Qed.

Lemma dfc_year_mono_upper y y' m d : 1 <= m <= 12 -> y <= y' ->
  days_from_civil y' m d <= days_from_civil y m d + 366 * (y' - y).
Proof.
  intros Hm H. replace y' with (y + Z.of_nat (Z.to_nat (y' - y))) by lia.
  induction (Z.to_nat (y' - y)) as [|k IH].
  - replace (y + Z.of_nat 0) with y by lia. lia.
  - replace (y + Z.of_nat (S k)) with (y + Z.of_nat k + 1) by lia.
    pose proof (dfc_next_year (y + Z.of_nat k) m d Hm). lia.
Qed.

(* ---------- weekdays ---------- *)
Lemma weekday_range n : 0 <= weekday_sun0 n <= 6.
Proof. unfold weekday_sun0. lia. Qed.

Lemma weekday_shift n k : weekday_sun0 (n + k) = (weekday_sun0 n + k) mod 7.
Proof. unfold weekday_sun0. lia. Qed.

Example weekday_epoch : weekday_sun0 (days_from_civil 1970 1 1) = 4 /\ weekday_sun0 (days_from_civil 2024 3 10) = 0.
Proof. vm_compute. split; reflexivity. Qed.

(* ---------- instants ---------- *)
Lemma day_tod t : t = midnight (day_of t) + tod_of t /\ 0 <= tod_of t < DAY.
Proof. unfold midnight, day_of, tod_of, DAY. lia. Qed.

Lemma day_of_midnight n r : 0 <= r < DAY -> day_of (midnight n + r) = n.
Proof. unfold midnight, day_of, DAY. lia. Qed.

Lemma tod_of_midnight n r : 0 <= r < DAY -> tod_of (midnight n + r) = r.
Proof. unfold midnight, tod_of, DAY. lia. Qed.

Lemma datetime_to_us_of_us t : datetime_to_us (us_datetime t) = t.
Proof.
  unfold datetime_to_us, us_datetime, datetime_us.
  pose proof (days_from_civil_from_days (day_of t)) as R.
  destruct (civil_from_days (day_of t)) as [[y m] d]. cbn [dt_y dt_m dt_d dt_h dt_mi dt_s dt_us].
  rewrite R. unfold hms_us, midnight, day_of, tod_of, HOUR, MINUTE, USEC, DAY. lia.
Qed.

Lemma us_datetime_of_datetime x : valid_datetime x = true -> us_datetime (datetime_to_us x) = x.
Proof.
  destruct x as [y m d h mi s us]. unfold valid_datetime. cbn [dt_y dt_m dt_d dt_h dt_mi dt_s dt_us].
  rewrite !andb_true_iff, !Z.leb_le, !Z.ltb_lt. intros ((((((((V & H1) & H2) & H3) & H4) & H5) & H6) & H7) & H8).
  unfold datetime_to_us, datetime_us. cbn [dt_y dt_m dt_d dt_h dt_mi dt_s dt_us].
  assert (0 <= hms_us h mi s us < DAY) as Hr by (unfold hms_us, USEC, DAY in *; lia).
  unfold us_datetime. rewrite day_of_midnight, tod_of_midnight by exact Hr.
  rewrite (civil_from_days_from_civil _ _ _ V).
  unfold hms_us, HOUR, MINUTE, USEC in *. f_equal; lia.
Qed.

(* ---------- rounding ---------- *)
Lemma div_rhe_spec a b : 0 < b -> let q := div_rhe a b in -b <= 2 * (a - b * q) <= b.
Proof.
  intros Hb. cbv zeta. unfold div_rhe.
  destruct (2 * (a mod b) <? b) eqn:E1; [apply Z.ltb_lt in E1; lia|apply Z.ltb_ge in E1].
  destruct (b <? 2 * (a mod b)) eqn:E2; [apply Z.ltb_lt in E2; lia|apply Z.ltb_ge in E2].
  destruct (Z.even (a / b)); lia.
Qed.

Lemma div_rhe_exact a b : 0 < b -> a mod b = 0 -> div_rhe a b = a / b.
Proof.
  intros Hb H. unfold div_rhe. rewrite H. destruct (2 * 0 <? b) eqn:E; [reflexivity|apply Z.ltb_ge in E; lia].
Qed.
