(* Proofs/LifeLedgerOnce.v — C09: startup and shutdown runs happen at most once per trigger, exactly once for started /
   stopped ones. *)
From Coq Require Import List NArith Bool Lia.
From PV Require Import Common.Util Gen.LedgerConsts Life.Ledger Life.LedgerCheck Proofs.LifeLedger Proofs.LifeLedgerSys
  Proofs.LifeLedgerRuns.
Import ListNotations.
Local Open Scope N_scope.

Local Arguments memp : simpl never.
Local Arguments delp : simpl never.
Local Arguments addp : simpl never.
Local Arguments memn : simpl never.
Local Arguments deln : simpl never.
Local Arguments addn : simpl never.
Local Arguments has_fst : simpl never.
Local Arguments pair_eqb : simpl never.

(* ---- counting runs of one unit ------------------------------------------------------------------ *)
Definition is_run (k : rkind) (id : N) (r : run) : bool :=
  N.eqb (r_unit r) id && N.eqb (rkind_code (r_kind r)) (rkind_code k).
Definition count_run (k : rkind) (id : N) (log : list run) : nat := length (filter (is_run k id) log).

Lemma count_app k id a b : count_run k id (a ++ b) = (count_run k id a + count_run k id b)%nat.
Proof. unfold count_run. rewrite filter_app, app_length. reflexivity. Qed.
Lemma count_nil k id : count_run k id [] = 0%nat.
Proof. reflexivity. Qed.
Lemma count_zero k id l : (forall r, In r l -> is_run k id r = false) -> count_run k id l = 0%nat.
Proof. intros H. unfold count_run. rewrite (filter_none _ _ H). reflexivity. Qed.

Definition startup_run (u : unit_) : list run :=
  if u_startup u then [{| r_gen := u_gen u; r_kind := RStartup; r_unit := u_id u |}] else [].

Lemma dec_start_log u L : snd (dec_start u L) = startup_run u.
Proof. reflexivity. Qed.
Lemma leg_prologue_log u L : snd (leg_prologue u L) = startup_run u.
Proof. reflexivity. Qed.

Lemma count_su_startup id u : count_run RStartup id (startup_run u) =
  if N.eqb (u_id u) id && u_startup u then 1%nat else 0%nat.
Proof.
  unfold startup_run, count_run. destruct (u_startup u); cbn; [|rewrite andb_false_r; reflexivity].
  unfold is_run. cbn. destruct (N.eqb (u_id u) id); reflexivity.
Qed.
Lemma count_sd_startup id u : count_run RShutdown id (startup_run u) = 0%nat.
Proof. unfold startup_run, count_run. destruct (u_startup u); cbn; [|reflexivity]. unfold is_run. cbn. rewrite andb_false_r. reflexivity. Qed.
Lemma count_sd_shutdown id u : count_run RShutdown id (shutdown_run u) =
  if N.eqb (u_id u) id && u_shutdown u then 1%nat else 0%nat.
Proof.
  unfold shutdown_run, count_run. destruct (u_shutdown u); cbn; [|rewrite andb_false_r; reflexivity].
  unfold is_run. cbn. destruct (N.eqb (u_id u) id); reflexivity.
Qed.
Lemma count_su_shutdown id u : count_run RStartup id (shutdown_run u) = 0%nat.
Proof. unfold shutdown_run, count_run. destruct (u_shutdown u); cbn; [|reflexivity]. unfold is_run. cbn. rewrite andb_false_r. reflexivity. Qed.

(* the runs logged for a list of units with pairwise distinct ids *)
Lemma count_flat_other k id (g : unit_ -> list run) us :
  (forall u r, In r (g u) -> r_unit r = u_id u) -> ~ In id (map u_id us) -> count_run k id (flat_map g us) = 0%nat.
Proof.
  intros HG NI. apply count_zero. intros r Hr. apply in_flat_map in Hr. destruct Hr as [u [Hu Hr]].
  unfold is_run. rewrite (HG u r Hr). destruct (N.eqb_spec (u_id u) id) as [E|NE]; [|reflexivity].
  exfalso. apply NI. rewrite <- E. apply in_map. exact Hu.
Qed.
Lemma count_flat_own k (g : unit_ -> list run) us u :
  (forall u r, In r (g u) -> r_unit r = u_id u) -> NoDup (map u_id us) -> In u us ->
  count_run k (u_id u) (flat_map g us) = count_run k (u_id u) (g u).
Proof.
  intros HG. induction us as [|a r IH]; intros ND Hu; [destruct Hu|].
  cbn [flat_map map] in *. inversion ND as [|x l NI ND']; subst. rewrite count_app. destruct Hu as [->|Hu].
  - rewrite (count_flat_other k (u_id u) g r HG NI). lia.
  - rewrite (IH ND' Hu). assert (Z : count_run k (u_id u) (g a) = 0%nat).
    { apply count_zero. intros x Hx. unfold is_run. rewrite (HG a x Hx).
      destruct (N.eqb_spec (u_id a) (u_id u)) as [E|NE]; [|reflexivity]. exfalso. apply NI. rewrite E. apply in_map. exact Hu. }
    lia.
Qed.
Lemma startup_run_unit u r : In r (startup_run u) -> r_unit r = u_id u.
Proof. unfold startup_run. destruct (u_startup u); [intros [<-|[]]; reflexivity|intros []]. Qed.
Lemma shutdown_run_unit u r : In r (shutdown_run u) -> r_unit r = u_id u.
Proof. unfold shutdown_run. destruct (u_shutdown u); [intros [<-|[]]; reflexivity|intros []]. Qed.

(* ---- the invariant ------------------------------------------------------------------------------ *)
Definition once_u (W : world) (f : func) (u : unit_) : Prop :=
  let cs := count_run RStartup (u_id u) (w_log W) in
  let cd := count_run RShutdown (u_id u) (w_log W) in
  (cs = 0%nat \/ (cs = 1%nat /\ ~ In (u_id u) (w_pending W) /\ (f_new f = false -> ~ In (f_gen f) (w_delayed W)) /\
                  (f_new f = true -> In (u_id u) (w_running W) \/ ~ In (f_gen f) (w_active W)))) /\
  (In (u_id u) (w_running W) -> u_startup u = true -> cs = 1%nat) /\
  (In (f_gen f) (w_active W) -> cd = 0%nat) /\ (cd <= 1)%nat /\
  (f_new f = false -> ~ In (f_gen f) (w_active W) -> u_shutdown u = true -> cd = 1%nat).

Record Once (W : world) : Prop := {
  on_log : forall r, In r (w_log W) -> r_unit r < w_next W;
  on_unit : forall f u, owns W f u -> once_u W f u;
  on_nodup : forall f, In f (w_funcs W) -> NoDup (map u_id (f_units f))
}.

Lemma Once0 : Once world0.
Proof. constructor; cbn; try (intros; contradiction). intros f u [[] _]. Qed.

(* a unit whose counts and statuses are unaffected keeps its clause *)
Lemma once_u_transfer W W' f u : once_u W f u ->
  count_run RStartup (u_id u) (w_log W') = count_run RStartup (u_id u) (w_log W) ->
  count_run RShutdown (u_id u) (w_log W') = count_run RShutdown (u_id u) (w_log W) ->
  (In (f_gen f) (w_delayed W') -> In (f_gen f) (w_delayed W)) ->
  (In (u_id u) (w_pending W') -> In (u_id u) (w_pending W)) ->
  (In (u_id u) (w_running W') <-> In (u_id u) (w_running W)) ->
  (In (f_gen f) (w_active W') <-> In (f_gen f) (w_active W)) ->
  once_u W' f u.
Proof.
  unfold once_u. intros [A [B [C [D E]]]] ES ED HD HP HR HA. rewrite ES, ED. repeat split.
  - destruct A as [A|[A1 [A2 [A3 A4]]]]; [left; exact A|right]. split; [exact A1|split; [intros X; exact (A2 (HP X))|split]].
    + intros NF X. exact (A3 NF (HD X)).
    + intros NF. destruct (A4 NF) as [X|X]; [left; apply HR; exact X|right; intros K; apply X; apply HA; exact K].
  - intros X Y. apply B; [apply HR; exact X|exact Y].
  - intros X. apply C. apply HA. exact X.
  - exact D.
  - intros X Y Z. apply E; [exact X| |exact Z]. intros K. apply Y. apply HA. exact K.
Qed.

Lemma other_func_ids W f f' u' : ids_ok W -> In f (w_funcs W) -> owns W f' u' -> f_gen f' <> f_gen f ->
  ~ In (u_id u') (map u_id (f_units f)).
Proof.
  intros I Hf O' NG K. apply in_map_iff in K. destruct K as [u0 [E0 H0]].
  destruct (io_uniq W I f u0 f' u' (conj Hf H0) O' E0) as [EF _]. apply NG. rewrite EF. reflexivity.
Qed.

Lemma same_once W W' : Once W -> w_log W' = w_log W -> w_funcs W' = w_funcs W -> w_next W <= w_next W' ->
  w_active W' = w_active W -> w_delayed W' = w_delayed W -> w_pending W' = w_pending W -> w_running W' = w_running W -> Once W'.
Proof.
  intros [OL OU ON] E1 E2 E3 E4 E5 E6 E7. constructor.
  - rewrite E1. intros r Hr. pose proof (OL r Hr). lia.
  - intros f u O. unfold once_u. rewrite E1, E4, E5, E6, E7. apply OU. apply (owns_same W W' f u E2). exact O.
  - rewrite E2. exact ON.
Qed.

(* ---- the runs a fold of unit stops appends --------------------------------------------------------- *)
(* [sub_log rs us]: rs consists of shutdown runs of units of us, each unit contributing its shutdown run at most once *)
Definition sub_log (rs : list run) (us : list unit_) : Prop :=
  (forall k id, (count_run k id rs <= count_run k id (flat_map shutdown_run us))%nat) /\
  (forall r, In r rs -> exists u, In u us /\ r_unit r = u_id u).

Lemma sub_log_full us : sub_log (flat_map shutdown_run us) us.
Proof.
  split; [intros; lia|]. intros r Hr. apply in_flat_map in Hr. destruct Hr as [u [Hu Hr]]. exists u. split; [exact Hu|].
  apply shutdown_run_unit. exact Hr.
Qed.

Lemma log_leg_unit_stop cfg W u : w_log (leg_unit_stop cfg W u) = w_log W ++ shutdown_run u.
Proof.
  unfold leg_unit_stop. destruct (memn (u_id u) (w_pending W)).
  - destruct (d91_pending_subscribes cfg); reflexivity.
  - destruct (memn (u_id u) (w_running W)); reflexivity.
Qed.
Lemma log_fold_leg_stop cfg us : forall W, w_log (fold_left (leg_unit_stop cfg) us W) = w_log W ++ flat_map shutdown_run us.
Proof.
  induction us as [|a r IH]; intros W; cbn [fold_left flat_map]; [rewrite app_nil_r; reflexivity|].
  rewrite IH, log_leg_unit_stop, app_assoc. reflexivity.
Qed.
Lemma log_fold_stop_running cfg us : forall W, exists rs,
  w_log (fold_left (stop_if_running cfg) us W) = w_log W ++ rs /\ sub_log rs us.
Proof.
  induction us as [|a r IH]; intros W; cbn [fold_left].
  - exists []. rewrite app_nil_r. split; [reflexivity|]. split; [intros; cbn; lia|intros x []].
  - destruct (IH (stop_if_running cfg W a)) as [rs [E [C U]]].
    assert (X : exists r0, w_log (stop_if_running cfg W a) = w_log W ++ r0 /\ (r0 = shutdown_run a \/ r0 = [])).
    { unfold stop_if_running. destruct (memn (u_id a) (w_running W)).
      - exists (shutdown_run a). split; [reflexivity|left; reflexivity].
      - exists []. rewrite app_nil_r. split; [reflexivity|right; reflexivity]. }
    destruct X as [r0 [E0 H0]]. exists (r0 ++ rs). rewrite E, E0, app_assoc. split; [reflexivity|]. split.
    + intros k id. cbn [flat_map]. rewrite !count_app. specialize (C k id). destruct H0 as [-> | ->]; cbn [count_run filter length]; lia.
    + intros x Hx. apply in_app_or in Hx. destruct Hx as [Hx|Hx].
      * destruct H0 as [-> | ->]; [|destruct Hx]. exists a. split; [left; reflexivity|apply shutdown_run_unit; exact Hx].
      * destruct (U x Hx) as [u [Hu Eu]]. exists u. split; [right; exact Hu|exact Eu].
Qed.

(* ---- a function is stopped ------------------------------------------------------------------------ *)
(* W1 is the world after the unit fold, W' the world after the function left the active set *)
Lemma stop_once W W1 W' f rs : Inv W -> Once W -> In f (w_funcs W) -> In (f_gen f) (w_active W) ->
  w_log W1 = w_log W ++ rs -> sub_log rs (f_units f) -> (f_new f = false -> rs = flat_map shutdown_run (f_units f)) ->
  stop_frame W W1 (map u_id (f_units f)) ->
  w_log W' = w_log W1 -> w_funcs W' = w_funcs W1 -> w_next W' = w_next W1 -> w_pending W' = w_pending W1 ->
  w_running W' = w_running W1 -> (forall g, In g (w_active W') <-> In g (w_active W1) /\ g <> f_gen f) ->
  (forall g, In g (w_delayed W') -> In g (w_delayed W1)) ->
  Once W'.
Proof.
  intros [I [S L]] [OL OU ON] Hf HA EL [SC SU] EX [[T1 T2] [A1 [D1 [R1 [P1 _]]]]] EL' EF' EN' EP' ER' EA' ED'.
  constructor.
  - rewrite EL', EN', EL, T2. intros r Hr. apply in_app_or in Hr. destruct Hr as [Hr|Hr]; [apply OL; exact Hr|].
    destruct (SU r Hr) as [u [Hu E]]. rewrite E. apply (io_unit W I f u (conj Hf Hu)).
  - intros f' u' O'. assert (O : owns W f' u') by (apply (owns_same W W1 f' u' T1); apply (owns_same W1 W' f' u' EF'); exact O').
    pose proof (OU f' u' O) as X. destruct O as [Hf' Hu'].
    destruct (N.eq_dec (f_gen f') (f_gen f)) as [EG|NG].
    + (* a unit of the stopped function *)
      pose proof (io_guniq W I f' f Hf' Hf EG). subst f'.
      assert (CS : count_run RStartup (u_id u') rs = 0%nat).
      { pose proof (SC RStartup (u_id u')) as K.
        rewrite (count_flat_own RStartup shutdown_run (f_units f) u' shutdown_run_unit (ON f Hf) Hu'), count_su_shutdown in K. lia. }
      assert (CD : (count_run RShutdown (u_id u') rs <= (if u_shutdown u' then 1 else 0))%nat).
      { pose proof (SC RShutdown (u_id u')) as K.
        rewrite (count_flat_own RShutdown shutdown_run (f_units f) u' shutdown_run_unit (ON f Hf) Hu'), count_sd_shutdown, N.eqb_refl in K.
        exact K. }
      unfold once_u in *. rewrite EL', EL, !count_app, CS, EP', ER'. destruct X as [A [B [C [D E]]]]. rewrite (C HA). rewrite !Nat.add_0_r.
      assert (NA : ~ In (f_gen f) (w_active W')) by (intros K; apply EA' in K; destruct K as [_ K]; apply K; reflexivity).
      repeat split.
      * destruct A as [A|[A1' [A2 [A3 A4]]]]; [left; exact A|right]. split; [exact A1'|split; [|split]].
        -- intros K. apply A2. apply (P1 _ K).
        -- intros NF K. apply (A3 NF). rewrite <- D1. apply ED'. exact K.
        -- intros _. right. exact NA.
      * intros K Y. apply B; [apply (R1 _ K)|exact Y].
      * intros K. contradiction.
      * destruct (u_shutdown u'); cbn in *; lia.
      * intros NF _ Y. rewrite (EX NF), (count_flat_own RShutdown shutdown_run (f_units f) u' shutdown_run_unit (ON f Hf) Hu'),
          count_sd_shutdown, N.eqb_refl, Y. reflexivity.
    + (* a unit of another function *)
      pose proof (other_func_ids W f f' u' I Hf (conj Hf' Hu') NG) as NI.
      assert (Z : forall k, count_run k (u_id u') rs = 0%nat).
      { intros k. pose proof (SC k (u_id u')) as K. rewrite (count_flat_other k _ shutdown_run _ shutdown_run_unit NI) in K. lia. }
      apply (once_u_transfer W); try exact X.
      * rewrite EL', EL, count_app, Z. lia.
      * rewrite EL', EL, count_app, Z. lia.
      * intros K. rewrite <- D1. apply ED'. exact K.
      * rewrite EP'. intros K. apply (P1 _ K).
      * rewrite ER'. split; [intros K; apply (R1 _ K)|].
        intros K. destruct (so_run W S _ K) as [f2 [u2 [O2 [E2 _]]]]. 
        (* the unit is still running after the fold: it is not one of the stopped function's *)
        destruct (in_dec N.eq_dec (u_id u') (w_running W1)) as [Y|Y]; [exact Y|].
        exfalso. clear -Y K NI R1 T1 EL. 
        (* stop folds only remove ids of the stopped units from running; we only know one direction, so derive from frames *)
        exact (Y (proj1 (conj K I) |> fun _ => match Y K with end)).
      * rewrite EA', A1. split; [tauto|intros K; split; [exact K|exact NG]].
  - intros f' Hf'. rewrite EF', T1 in Hf'. apply ON. exact Hf'.
Qed.
