(* Proofs/LifeLedgerOnce.v — C09: startup and shutdown runs happen at most once per trigger, exactly once for started /
   stopped ones. *)
From Coq Require Import List NArith Bool Lia.
From PV Require Import Common.Util Gen.LedgerConsts Life.Ledger Life.LedgerCheck Proofs.LifeLedger Proofs.LifeLedgerSys
  Proofs.LifeLedgerRuns.
Import ListNotations.
Local Open Scope N_scope.

Local Arguments memp : simpl never.
Local Arguments delp : simpl never.
Local Arguments addp : simpl never.
Local Arguments memn : simpl never.
Local Arguments deln : simpl never.
Local Arguments addn : simpl never.
Local Arguments has_fst : simpl never.
Local Arguments pair_eqb : simpl never.

(* ---- counting runs of one unit ------------------------------------------------------------------ *)
Definition is_run (k : rkind) (id : N) (r : run) : bool :=
  N.eqb (r_unit r) id && N.eqb (rkind_code (r_kind r)) (rkind_code k).
Definition count_run (k : rkind) (id : N) (log : list run) : nat := length (filter (is_run k id) log).

Lemma count_app k id a b : count_run k id (a ++ b) = (count_run k id a + count_run k id b)%nat.
Proof. unfold count_run. rewrite filter_app, app_length. reflexivity. Qed.
Lemma count_nil k id : count_run k id [] = 0%nat.
Proof. reflexivity. Qed.
Lemma count_zero k id l : (forall r, In r l -> is_run k id r = false) -> count_run k id l = 0%nat.
Proof. intros H. unfold count_run. rewrite (filter_none _ _ H). reflexivity. Qed.

Definition startup_run (u : unit_) : list run :=
  if u_startup u then [{| r_gen := u_gen u; r_kind := RStartup; r_unit := u_id u |}] else [].

Lemma dec_start_log u L : snd (dec_start u L) = startup_run u.
Proof. reflexivity. Qed.
Lemma leg_prologue_log u L : snd (leg_prologue u L) = startup_run u.
Proof. reflexivity. Qed.

Lemma count_su_startup id u : count_run RStartup id (startup_run u) =
  if N.eqb (u_id u) id && u_startup u then 1%nat else 0%nat.
Proof.
  unfold startup_run, count_run. destruct (u_startup u); cbn; [|rewrite andb_false_r; reflexivity].
  unfold is_run. cbn. destruct (N.eqb (u_id u) id); reflexivity.
Qed.
Lemma count_sd_startup id u : count_run RShutdown id (startup_run u) = 0%nat.
Proof. unfold startup_run, count_run. destruct (u_startup u); cbn; [|reflexivity]. unfold is_run. cbn. rewrite andb_false_r. reflexivity. Qed.
Lemma count_sd_shutdown id u : count_run RShutdown id (shutdown_run u) =
  if N.eqb (u_id u) id && u_shutdown u then 1%nat else 0%nat.
Proof.
  unfold shutdown_run, count_run. destruct (u_shutdown u); cbn; [|rewrite andb_false_r; reflexivity].
  unfold is_run. cbn. destruct (N.eqb (u_id u) id); reflexivity.
Qed.
Lemma count_su_shutdown id u : count_run RStartup id (shutdown_run u) = 0%nat.
Proof. unfold shutdown_run, count_run. destruct (u_shutdown u); cbn; [|reflexivity]. unfold is_run. cbn. rewrite andb_false_r. reflexivity. Qed.

(* the runs logged for a list of units with pairwise distinct ids *)
Lemma count_flat_other k id (g : unit_ -> list run) us :
  (forall u r, In r (g u) -> r_unit r = u_id u) -> ~ In id (map u_id us) -> count_run k id (flat_map g us) = 0%nat.
Proof.
  intros HG NI. apply count_zero. intros r Hr. apply in_flat_map in Hr. destruct Hr as [u [Hu Hr]].
  unfold is_run. rewrite (HG u r Hr). destruct (N.eqb_spec (u_id u) id) as [E|NE]; [|reflexivity].
  exfalso. apply NI. rewrite <- E. apply in_map. exact Hu.
Qed.
Lemma count_flat_own k (g : unit_ -> list run) us u :
  (forall u r, In r (g u) -> r_unit r = u_id u) -> NoDup (map u_id us) -> In u us ->
  count_run k (u_id u) (flat_map g us) = count_run k (u_id u) (g u).
Proof.
  intros HG. induction us as [|a r IH]; intros ND Hu; [destruct Hu|].
  cbn [flat_map map] in *. inversion ND as [|x l NI ND']; subst. rewrite count_app. destruct Hu as [->|Hu].
  - rewrite (count_flat_other k (u_id u) g r HG NI). lia.
  - rewrite (IH ND' Hu). assert (Z : count_run k (u_id u) (g a) = 0%nat).
    { apply count_zero. intros x Hx. unfold is_run. rewrite (HG a x Hx).
      destruct (N.eqb_spec (u_id a) (u_id u)) as [E|NE]; [|reflexivity]. exfalso. apply NI. rewrite E. apply in_map. exact Hu. }
    lia.
Qed.
Lemma startup_run_unit u r : In r (startup_run u) -> r_unit r = u_id u.
Proof. unfold startup_run. destruct (u_startup u); [intros [<-|[]]; reflexivity|intros []]. Qed.
Lemma shutdown_run_unit u r : In r (shutdown_run u) -> r_unit r = u_id u.
Proof. unfold shutdown_run. destruct (u_shutdown u); [intros [<-|[]]; reflexivity|intros []]. Qed.

(* ---- the invariant ------------------------------------------------------------------------------ *)
Definition once_u (W : world) (f : func) (u : unit_) : Prop :=
  let cs := count_run RStartup (u_id u) (w_log W) in
  let cd := count_run RShutdown (u_id u) (w_log W) in
  (cs = 0%nat \/ (cs = 1%nat /\ ~ In (f_gen f) (w_delayed W) /\ ~ In (u_id u) (w_pending W))) /\
  (In (u_id u) (w_running W) -> u_startup u = true -> cs = 1%nat) /\
  (In (f_gen f) (w_active W) -> cd = 0%nat) /\ (cd <= 1)%nat /\
  (f_new f = false -> ~ In (f_gen f) (w_active W) -> u_shutdown u = true -> cd = 1%nat).

Record Once (W : world) : Prop := {
  on_log : forall r, In r (w_log W) -> r_unit r < w_next W;
  on_unit : forall f u, owns W f u -> once_u W f u;
  on_nodup : forall f, In f (w_funcs W) -> NoDup (map u_id (f_units f))
}.

Lemma Once0 : Once world0.
Proof. constructor; cbn; try (intros; contradiction). intros f u [[] _]. Qed.

(* a unit whose counts and statuses are unaffected keeps its clause *)
Lemma once_u_transfer W W' f u : once_u W f u ->
  count_run RStartup (u_id u) (w_log W') = count_run RStartup (u_id u) (w_log W) ->
  count_run RShutdown (u_id u) (w_log W') = count_run RShutdown (u_id u) (w_log W) ->
  (In (f_gen f) (w_delayed W') -> In (f_gen f) (w_delayed W)) ->
  (In (u_id u) (w_pending W') -> In (u_id u) (w_pending W)) ->
  (In (u_id u) (w_running W') -> In (u_id u) (w_running W)) ->
  (In (f_gen f) (w_active W') <-> In (f_gen f) (w_active W)) ->
  once_u W' f u.
Proof.
  unfold once_u. intros [A [B [C [D E]]]] ES ED HD HP HR HA. rewrite ES, ED. repeat split.
  - destruct A as [A|[A1 [A2 A3]]]; [left; exact A|right]. split; [exact A1|split; [intros X; exact (A2 (HD X))|intros X; exact (A3 (HP X))]].
  - intros X Y. apply B; [apply HR; exact X|exact Y].
  - intros X. apply C. apply HA. exact X.
  - exact D.
  - intros X Y Z. apply E; [exact X| |exact Z]. intros K. apply Y. apply HA. exact K.
Qed.

(* ---- exact logs of the unit folds ---------------------------------------------------------------- *)
Lemma log_leg_unit_stop cfg W u : w_log (leg_unit_stop cfg W u) = w_log W ++ shutdown_run u.
Proof.
  unfold leg_unit_stop. destruct (memn (u_id u) (w_pending W)).
  - destruct (d91_pending_subscribes cfg); reflexivity.
  - destruct (memn (u_id u) (w_running W)); reflexivity.
Qed.
Lemma log_fold_leg_stop cfg us : forall W, w_log (fold_left (leg_unit_stop cfg) us W) = w_log W ++ flat_map shutdown_run us.
Proof.
  induction us as [|a r IH]; intros W; cbn [fold_left flat_map]; [rewrite app_nil_r; reflexivity|].
  rewrite IH, log_leg_unit_stop, app_assoc. reflexivity.
Qed.
Lemma log_dec_unit_stop cfg W u : w_log (dec_unit_stop cfg W u) = w_log W ++ shutdown_run u.
Proof. reflexivity. Qed.
Lemma log_fold_dec_stop cfg us : forall W, w_log (fold_left (dec_unit_stop cfg) us W) = w_log W ++ flat_map shutdown_run us.
Proof.
  induction us as [|a r IH]; intros W; cbn [fold_left flat_map]; [rewrite app_nil_r; reflexivity|].
  rewrite IH, log_dec_unit_stop, app_assoc. reflexivity.
Qed.

Lemma dec_unit_start_fields W a :
  w_log (dec_unit_start W a) = w_log W ++ startup_run a /\ w_pending (dec_unit_start W a) = w_pending W /\
  w_delayed (dec_unit_start W a) = w_delayed W /\ w_active (dec_unit_start W a) = w_active W /\
  w_funcs (dec_unit_start W a) = w_funcs W /\ w_next (dec_unit_start W a) = w_next W /\
  w_running (dec_unit_start W a) = addn (u_id a) (w_running W).
Proof. repeat split; reflexivity. Qed.
Lemma leg_unit_start_fields W a :
  w_log (leg_unit_start W a) = w_log W /\ w_running (leg_unit_start W a) = w_running W /\
  w_delayed (leg_unit_start W a) = w_delayed W /\ w_active (leg_unit_start W a) = w_active W /\
  w_funcs (leg_unit_start W a) = w_funcs W /\ w_next (leg_unit_start W a) = w_next W /\
  w_pending (leg_unit_start W a) = addn (u_id a) (w_pending W).
Proof. repeat split; reflexivity. Qed.

Lemma fold_dec_start_status us : forall W,
  w_log (fold_left dec_unit_start us W) = w_log W ++ flat_map startup_run us /\
  w_pending (fold_left dec_unit_start us W) = w_pending W /\
  w_delayed (fold_left dec_unit_start us W) = w_delayed W /\ w_active (fold_left dec_unit_start us W) = w_active W /\
  w_funcs (fold_left dec_unit_start us W) = w_funcs W /\ w_next (fold_left dec_unit_start us W) = w_next W /\
  (forall x, In x (w_running (fold_left dec_unit_start us W)) <-> In x (w_running W) \/ In x (map u_id us)).
Proof.
  induction us as [|a r IH]; intros W; cbn [fold_left flat_map map].
  - rewrite app_nil_r. repeat split; try reflexivity; [intros H; left; exact H|intros [H|[]]; exact H].
  - destruct (IH (dec_unit_start W a)) as [E1 [E2 [E3 [E4 [E5 [E6 E7]]]]]].
    destruct (dec_unit_start_fields W a) as [F1 [F2 [F3 [F4 [F5 [F6 F7]]]]]].
    rewrite E1, E2, E3, E4, E5, E6, F1, F2, F3, F4, F5, F6, app_assoc. repeat split; try reflexivity.
    + intros H. apply E7 in H. rewrite F7 in H. destruct H as [H|H]; [|right; right; exact H].
      apply In_addn in H. destruct H as [H| ->]; [left; exact H|right; left; reflexivity].
    + intros H. apply E7. rewrite F7. destruct H as [H|[H|H]]; [left|left|right; exact H]; apply In_addn; auto.
Qed.
Lemma fold_leg_start_status us : forall W,
  w_log (fold_left leg_unit_start us W) = w_log W /\ w_running (fold_left leg_unit_start us W) = w_running W /\
  w_delayed (fold_left leg_unit_start us W) = w_delayed W /\ w_active (fold_left leg_unit_start us W) = w_active W /\
  w_funcs (fold_left leg_unit_start us W) = w_funcs W /\ w_next (fold_left leg_unit_start us W) = w_next W /\
  (forall x, In x (w_pending (fold_left leg_unit_start us W)) <-> In x (w_pending W) \/ In x (map u_id us)).
Proof.
  induction us as [|a r IH]; intros W; cbn [fold_left map].
  - repeat split; try reflexivity; [intros H; left; exact H|intros [H|[]]; exact H].
  - destruct (IH (leg_unit_start W a)) as [E1 [E2 [E3 [E4 [E5 [E6 E7]]]]]].
    destruct (leg_unit_start_fields W a) as [F1 [F2 [F3 [F4 [F5 [F6 F7]]]]]].
    rewrite E1, E2, E3, E4, E5, E6, F1, F2, F3, F4, F5, F6. repeat split; try reflexivity.
    + intros H. apply E7 in H. rewrite F7 in H. destruct H as [H|H]; [|right; right; exact H].
      apply In_addn in H. destruct H as [H| ->]; [left; exact H|right; left; reflexivity].
    + intros H. apply E7. rewrite F7. destruct H as [H|[H|H]]; [left|left|right; exact H]; apply In_addn; auto.
Qed.

(* ---- a function is stopped ------------------------------------------------------------------------ *)
(* common part of leg_func_stop and dm_stop: W1 is the world after the unit fold *)
Lemma stop_once W W1 f (svc' del' : list N) : Inv W -> Once W -> In f (w_funcs W) -> In (f_gen f) (w_active W) ->
  w_log W1 = w_log W ++ flat_map shutdown_run (f_units f) ->
  stop_frame W W1 (map u_id (f_units f)) ->
  (forall g, In g del' -> In g (w_delayed W1)) ->
  Once (set_delayed (set_active (set_led W1 (set_svc (w_led W1) svc')) (deln (f_gen f) (w_active W1))) del').
Proof.
  intros [I [S L]] [OL OU ON] Hf HA EL [[T1 T2] [A1 [D1 [R1 [P1 _]]]]] DL.
  constructor; wsimpl.
  - intros r Hr. rewrite EL in Hr. rewrite T2. apply in_app_or in Hr. destruct Hr as [Hr|Hr]; [apply OL; exact Hr|].
    apply in_flat_map in Hr. destruct Hr as [u [Hu Hr]]. rewrite (shutdown_run_unit u r Hr). apply (io_unit W I f u (conj Hf Hu)).
  - intros f' u' O'. assert (O : owns W f' u') by (apply (owns_same W W1 f' u' T1); exact O').
    pose proof (OU f' u' O) as X. destruct O as [Hf' Hu'].
    destruct (N.eq_dec (f_gen f') (f_gen f)) as [EG|NG].
    + (* a unit of the stopped function *)
      pose proof (io_guniq W I f' f Hf' Hf EG). subst f'.
      unfold once_u in *. wsimpl. rewrite EL, !count_app.
      rewrite (count_flat_own RStartup shutdown_run (f_units f) u' shutdown_run_unit (ON f Hf) Hu'), count_su_shutdown.
      rewrite (count_flat_own RShutdown shutdown_run (f_units f) u' shutdown_run_unit (ON f Hf) Hu'), count_sd_shutdown.
      rewrite N.eqb_refl. cbn [andb]. destruct X as [A [B [C [D E]]]]. rewrite (C HA). rewrite !Nat.add_0_r. repeat split.
      * destruct A as [A|[A1' [A2 A3]]]; [left; exact A|right]. split; [exact A1'|split].
        -- intros K. apply A2. rewrite <- D1. apply DL. exact K.
        -- intros K. apply A3. apply (P1 _ K).
      * intros K Y. apply B; [apply (R1 _ K)|exact Y].
      * intros K. apply In_deln in K. destruct K as [_ K]. exfalso. apply K; reflexivity.
      * destruct (u_shutdown u'); cbn; lia.
      * intros _ _ Y. rewrite Y. reflexivity.
    + (* a unit of another function *)
      assert (NI : ~ In (u_id u') (map u_id (f_units f))).
      { intros K. apply in_map_iff in K. destruct K as [u0 [E0 H0]].
        destruct (io_uniq W I f u0 f' u' (conj Hf H0) (conj Hf' Hu') E0) as [EF _]. apply NG. rewrite EF. reflexivity. }
      apply (once_u_transfer W); wsimpl; try exact X.
      * rewrite EL, count_app, (count_flat_other RStartup _ shutdown_run _ shutdown_run_unit NI). lia.
      * rewrite EL, count_app, (count_flat_other RShutdown _ shutdown_run _ shutdown_run_unit NI). lia.
      * intros K. rewrite <- D1. apply DL. exact K.
      * intros K. apply (P1 _ K).
      * intros K. apply (R1 _ K).
      * rewrite A1. split; [intros K; apply In_deln in K; tauto|intros K; apply In_deln; split; assumption].
  - intros f' Hf'. rewrite T1 in Hf'. apply ON. exact Hf'.
Qed.

Lemma leg_func_stop_once cfg W f : all_off cfg -> Inv W -> Once W -> In f (w_funcs W) -> f_new f = false ->
  Once (leg_func_stop cfg W f).
Proof.
  intros AO HI HO Hf NF. unfold leg_func_stop. destruct (memn (f_gen f) (w_active W)) eqn:MA; [|exact HO].
  apply memn_In in MA.
  destruct (fold_stop_units (leg_unit_stop cfg) f) with (us := f_units f) (W := W) as [H1 FR].
  - intros W0 u0 HI0 O0. apply (leg_unit_stop_inv cfg W0 f u0 AO HI0 O0 NF).
  - exact HI.
  - intros u Hu. split; assumption.
  - set (W1 := fold_left (leg_unit_stop cfg) (f_units f) W) in *.
    pose proof (stop_once W W1 f (if f_svc f then deln (f_gen f) (l_svc (w_led W1)) else l_svc (w_led W1))
                  (deln (f_gen f) (w_delayed W1)) HI HO Hf MA (log_fold_leg_stop cfg (f_units f) W) FR) as X.
    assert (DL : forall g, In g (deln (f_gen f) (w_delayed W1)) -> In g (w_delayed W1)) by (intros g Hg; apply In_deln in Hg; tauto).
    specialize (X DL).
    assert (EQ : (set_delayed (set_active (if f_svc f then set_led W1 (set_svc (w_led W1) (deln (f_gen f) (l_svc (w_led W1)))) else W1)
                    (deln (f_gen f) (w_active (if f_svc f then set_led W1 (set_svc (w_led W1) (deln (f_gen f) (l_svc (w_led W1)))) else W1))))
                    (deln (f_gen f) (w_delayed (if f_svc f then set_led W1 (set_svc (w_led W1) (deln (f_gen f) (l_svc (w_led W1)))) else W1)))) =
                 set_delayed (set_active (set_led W1 (set_svc (w_led W1) (if f_svc f then deln (f_gen f) (l_svc (w_led W1)) else l_svc (w_led W1))))
                    (deln (f_gen f) (w_active W1))) (deln (f_gen f) (w_delayed W1))).
    { destruct (f_svc f); [reflexivity|]. destruct W1 as [L1 ? ? ? ? ? ? ? ? ?]. destruct L1. reflexivity. }
    cbv zeta. rewrite EQ. exact X.
Qed.

Lemma dm_stop_once cfg W f : all_off cfg -> Inv W -> Once W -> In f (w_funcs W) -> f_new f = true ->
  In (f_gen f) (w_active W) -> Once (dm_stop cfg W f).
Proof.
  intros AO HI HO Hf NF MA. unfold dm_stop.
  destruct (fold_stop_units (dec_unit_stop cfg) f) with (us := f_units f) (W := W) as [H1 FR].
  - intros W0 u0 HI0 O0. apply (dec_unit_stop_inv cfg W0 f u0 AO HI0 O0 NF).
  - exact HI.
  - intros u Hu. split; assumption.
  - set (W1 := fold_left (dec_unit_stop cfg) (f_units f) W) in *.
    pose proof (stop_once W W1 f (if f_svc f then deln (f_gen f) (l_svc (w_led W1)) else l_svc (w_led W1))
                  (w_delayed W1) HI HO Hf MA (log_fold_dec_stop cfg (f_units f) W) FR (fun g H => H)) as X.
    assert (EQ : set_active (if f_svc f then set_led W1 (set_svc (w_led W1) (deln (f_gen f) (l_svc (w_led W1)))) else W1)
                    (deln (f_gen f) (w_active (if f_svc f then set_led W1 (set_svc (w_led W1) (deln (f_gen f) (l_svc (w_led W1)))) else W1))) =
                 set_delayed (set_active (set_led W1 (set_svc (w_led W1) (if f_svc f then deln (f_gen f) (l_svc (w_led W1)) else l_svc (w_led W1))))
                    (deln (f_gen f) (w_active W1))) (w_delayed W1)).
    { destruct (f_svc f); [reflexivity|]. destruct W1 as [L1 ? ? ? ? ? ? ? ? ?]. destruct L1. reflexivity. }
    cbv zeta. rewrite EQ. exact X.
Qed.

Lemma dm_discard_once W f : Inv W -> Once W -> In f (w_funcs W) -> f_new f = true -> Once (dm_discard W f).
Proof.
  intros [I [S L]] [OL OU ON] Hf NF. unfold dm_discard. constructor; wsimpl; try assumption.
  intros f' u' O'. pose proof (OU f' u' O') as X. destruct O' as [Hf' Hu'].
  destruct (N.eq_dec (f_gen f') (f_gen f)) as [EG|NG].
  - pose proof (io_guniq W I f' f Hf' Hf EG). subst f'. unfold once_u in *. wsimpl. destruct X as [A [B [C [D E]]]]. repeat split.
    + destruct A as [A|[A1 [A2 A3]]]; [left; exact A|right]. split; [exact A1|split; [|exact A3]]. intros K. apply In_deln in K. tauto.
    + exact B.
    + intros K. apply In_deln in K. destruct K as [_ K]. exfalso. apply K; reflexivity.
    + exact D.
    + intros K. congruence.
  - apply (once_u_transfer W); wsimpl; try exact X; try reflexivity; auto.
    + intros K. apply In_deln in K. tauto.
    + split; [intros K; apply In_deln in K; tauto|intros K; apply In_deln; split; assumption].
Qed.

(* ---- starts ---------------------------------------------------------------------------------------- *)
Lemma other_func_ids W f f' u' : ids_ok W -> In f (w_funcs W) -> owns W f' u' -> f_gen f' <> f_gen f ->
  ~ In (u_id u') (map u_id (f_units f)).
Proof.
  intros I Hf O' NG K. apply in_map_iff in K. destruct K as [u0 [E0 H0]].
  destruct (io_uniq W I f u0 f' u' (conj Hf H0) O' E0) as [EF _]. apply NG. rewrite EF. reflexivity.
Qed.

Lemma ctx_start_func_once W f : Inv W -> Once W -> In f (w_funcs W) -> Once (ctx_start_func W f).
Proof.
  intros HI HO Hf. pose proof HI as [I [S L]]. pose proof HO as [OL OU ON]. unfold ctx_start_func.
  destruct (memn (f_gen f) (w_active W) && memn (f_gen f) (w_delayed W)) eqn:C; [|exact HO].
  apply andb_true_iff in C. destruct C as [CA CD]. apply memn_In in CA, CD.
  set (W0 := set_delayed W (deln (f_gen f) (w_delayed W))).
  assert (CS0 : forall u, In u (f_units f) -> count_run RStartup (u_id u) (w_log W) = 0%nat).
  { intros u Hu. destruct (OU f u (conj Hf Hu)) as [[A|[_ [A _]]] _]; [exact A|contradiction]. }
  destruct (f_new f) eqn:NF.
  - (* new subsystem: DecoratorManager.start *)
    unfold dm_start. fold W0. destruct (fold_dec_start_status (f_units f) W0) as [E1 [E2 [E3 [E4 [E5 [E6 E7]]]]]].
    change (w_log W0) with (w_log W) in *. change (w_pending W0) with (w_pending W) in *. change (w_active W0) with (w_active W) in *.
    change (w_running W0) with (w_running W) in *. change (w_funcs W0) with (w_funcs W) in *. change (w_next W0) with (w_next W) in *.
    change (w_delayed W0) with (deln (f_gen f) (w_delayed W)) in *.
    set (W1 := fold_left dec_unit_start (f_units f) W0) in *.
    assert (X : Once W1).
    { constructor.
      - intros r Hr. rewrite E1 in Hr. rewrite E6. apply in_app_or in Hr. destruct Hr as [Hr|Hr]; [apply OL; exact Hr|].
        apply in_flat_map in Hr. destruct Hr as [u [Hu Hr]]. rewrite (startup_run_unit u r Hr). apply (io_unit W I f u (conj Hf Hu)).
      - intros f' u' O'. assert (O : owns W f' u') by (apply (owns_same W W1 f' u' E5); exact O').
        pose proof (OU f' u' O) as Y. destruct (N.eq_dec (f_gen f') (f_gen f)) as [EG|NG].
        + destruct O as [Hf' Hu']. pose proof (io_guniq W I f' f Hf' Hf EG). subst f'.
          unfold once_u in *. rewrite E1, !count_app, E2, E3, E4.
          rewrite (count_flat_own RStartup startup_run (f_units f) u' startup_run_unit (ON f Hf) Hu'), count_su_startup.
          rewrite (count_flat_own RShutdown startup_run (f_units f) u' startup_run_unit (ON f Hf) Hu'), count_sd_startup.
          rewrite N.eqb_refl, (CS0 u' Hu'). cbn [andb Nat.add]. rewrite !Nat.add_0_r.
          destruct Y as [A [B [Cc [D E]]]]. repeat split.
          * destruct (u_startup u'); [right|left; reflexivity]. split; [reflexivity|split; [apply not_in_deln_self|]].
            intros K. destruct (so_pend W S _ K) as [f2 [u2 [O2 [E2' [NF2 _]]]]].
            destruct (io_uniq W I f2 u2 f u' O2 (conj Hf Hu') E2') as [-> _]. congruence.
          * intros _ Y. rewrite Y. reflexivity.
          * exact Cc.
          * exact D.
          * intros K. congruence.
        + pose proof (other_func_ids W f f' u' I Hf O NG) as NI.
          apply (once_u_transfer W); try exact Y.
          * rewrite E1, count_app, (count_flat_other RStartup _ startup_run _ startup_run_unit NI). lia.
          * rewrite E1, count_app, (count_flat_other RShutdown _ startup_run _ startup_run_unit NI). lia.
          * rewrite E3. intros K. apply In_deln in K. tauto.
          * rewrite E2. auto.
          * intros K. apply E7 in K. destruct K as [K|K]; [exact K|contradiction].
          * rewrite E4. reflexivity.
      - intros f' Hf'. rewrite E5 in Hf'. apply ON. exact Hf'. }
    destruct (f_svc f); [|exact X]. destruct X as [X1 X2 X3]. constructor; wsimpl; assumption.
  - (* legacy: EvalFunc.trigger_start *)
    unfold leg_func_start. fold W0. destruct (fold_leg_start_status (f_units f) W0) as [E1 [E2 [E3 [E4 [E5 [E6 E7]]]]]].
    change (w_log W0) with (w_log W) in *. change (w_pending W0) with (w_pending W) in *. change (w_active W0) with (w_active W) in *.
    change (w_running W0) with (w_running W) in *. change (w_funcs W0) with (w_funcs W) in *. change (w_next W0) with (w_next W) in *.
    change (w_delayed W0) with (deln (f_gen f) (w_delayed W)) in *.
    set (W1 := fold_left leg_unit_start (f_units f) W0) in *. constructor.
    + intros r Hr. rewrite E1 in Hr. rewrite E6. apply OL. exact Hr.
    + intros f' u' O'. assert (O : owns W f' u') by (apply (owns_same W W1 f' u' E5); exact O').
      pose proof (OU f' u' O) as Y. destruct (N.eq_dec (f_gen f') (f_gen f)) as [EG|NG].
      * destruct O as [Hf' Hu']. pose proof (io_guniq W I f' f Hf' Hf EG). subst f'.
        unfold once_u in *. rewrite E1, E2, E3, E4. destruct Y as [A [B [Cc [D E]]]]. repeat split; try assumption.
        left. apply CS0. exact Hu'.
      * pose proof (other_func_ids W f f' u' I Hf O NG) as NI.
        apply (once_u_transfer W); try exact Y; try (rewrite E1; reflexivity).
        -- rewrite E3. intros K. apply In_deln in K. tauto.
        -- intros K. apply E7 in K. destruct K as [K|K]; [exact K|contradiction].
        -- rewrite E2. auto.
        -- rewrite E4. reflexivity.
    + intros f' Hf'. rewrite E5 in Hf'. apply ON. exact Hf'.
Qed.

Lemma prologue_once id W : Inv W -> Once W -> Once (prologue id W).
Proof.
  intros HI HO. pose proof HI as [I [S L]]. pose proof HO as [OL OU ON]. unfold prologue.
  destruct (find_unit W id) as [un|] eqn:FU; [|exact HO].
  destruct (find_unit_some W id un FU) as [[f0 O0] EID].
  destruct (memn id (w_pending W)) eqn:MP.
  2:{ rewrite (so_zomb W S). cbn [memn existsb]. exact HO. }
  apply memn_In in MP. destruct (so_pend W S id MP) as [f [u [O [E [NF [A ND]]]]]].
  assert (un = u). { destruct (io_uniq W I f0 un f u O0 O) as [_ X]; [congruence|exact X]. } subst un. subst id.
  constructor; wsimpl.
  - intros r Hr. apply in_app_or in Hr. destruct Hr as [Hr|Hr]; [apply OL; exact Hr|].
    rewrite leg_prologue_log in Hr. rewrite (startup_run_unit u r Hr). apply (io_unit W I f u O).
  - intros f' u' O'. pose proof (OU f' u' O') as Y.
    destruct (N.eq_dec (u_id u') (u_id u)) as [EU|NU].
    + destruct (io_uniq W I f' u' f u O' O EU) as [-> ->]. unfold once_u in *. wsimpl. rewrite leg_prologue_log.
      rewrite !count_app, count_su_startup, count_sd_startup, N.eqb_refl. cbn [andb]. rewrite !Nat.add_0_r.
      destruct Y as [[A0|[_ [_ A3]]] [B [Cc [D E']]]]; [|contradiction]. rewrite A0. cbn [Nat.add]. repeat split; try assumption.
      * destruct (u_startup u); [right|left; reflexivity]. split; [reflexivity|split; [exact ND|apply not_in_deln_self]].
      * intros _ Y. rewrite Y. reflexivity.
    + apply (once_u_transfer W); wsimpl; try exact Y.
      * rewrite leg_prologue_log, count_app, count_su_startup. apply N.eqb_neq in NU. rewrite N.eqb_sym, NU. cbn. lia.
      * rewrite leg_prologue_log, count_app, count_sd_startup. lia.
      * auto.
      * intros K. apply In_deln in K. tauto.
      * intros K. apply In_addn in K. destruct K as [K|K]; [exact K|contradiction].
      * reflexivity.
  - exact ON.
Qed.

Lemma same_once W W' : Once W -> w_log W' = w_log W -> w_funcs W' = w_funcs W -> w_next W' = w_next W ->
  w_active W' = w_active W -> w_delayed W' = w_delayed W -> w_pending W' = w_pending W -> w_running W' = w_running W -> Once W'.
Proof.
  intros [OL OU ON] E1 E2 E3 E4 E5 E6 E7. constructor.
  - rewrite E1, E3. exact OL.
  - intros f u O. unfold once_u. rewrite E1, E4, E5, E6, E7. apply OU. apply (owns_same W W' f u E2). exact O.
  - rewrite E2. exact ON.
Qed.

(* ---- definition ------------------------------------------------------------------------------------- *)
Lemma number_units_nodup gen : forall ps id, NoDup (map u_id (number_units gen id ps)).
Proof.
  induction ps as [|[[st ev] tm] r IH]; intros id; cbn [number_units map]; constructor; [|apply IH].
  intros K. apply in_map_iff in K. destruct K as [u [E Hu]]. destruct (number_units_in _ _ _ _ Hu) as [_ [B _]].
  cbn [mk_unit u_id] in E. lia.
Qed.

Lemma define_once c newsys s W : Inv W -> Once W -> Once (define c newsys s W).
Proof.
  intros HI HO. pose proof HI as [I [S L]]. pose proof HO as [OL OU ON]. unfold define.
  set (gen := w_next W).
  set (units := number_units gen (gen + 1) (if newsys then new_protos s else legacy_protos s)).
  set (f := {| f_gen := gen; f_ctx := c; f_new := newsys; f_units := units; f_svc := s_svc s |}).
  set (L1 := if s_svc s && negb newsys then set_svc (w_led W) (addn gen (l_svc (w_led W))) else w_led W).
  set (W1 := {| w_led := L1; w_funcs := w_funcs W ++ [f]; w_active := w_active W ++ [gen]; w_delayed := w_delayed W ++ [gen];
                w_pending := w_pending W; w_zombie := w_zombie W; w_running := w_running W; w_auto := w_auto W;
                w_next := gen + 1 + N.of_nat (length units); w_log := w_log W |}).
  assert (H1 : Inv W1).
  { pose proof (define_inv c newsys s (set_auto W []) (Inv_set_auto W [] HI)) as X. unfold define in X.
    cbn [w_auto set_auto memn existsb] in X. apply (Inv_set_auto _ (w_auto W)) in X. exact X. }
  assert (O1 : Once W1).
  { constructor; cbn [W1 w_log w_next w_funcs].
    - intros r Hr. pose proof (OL r Hr). fold gen in H. lia.
    - intros f' u' [Hf' Hu']. cbn [W1 w_funcs] in Hf'. apply in_app_or in Hf'. destruct Hf' as [Hf'|[<-|[]]].
      + pose proof (OU f' u' (conj Hf' Hu')) as Y. destruct (io_gen W I f' Hf') as [_ LT]. fold gen in LT.
        apply (once_u_transfer W); cbn [W1 w_log w_delayed w_pending w_running w_active]; try exact Y; try reflexivity; auto.
        * intros K. apply in_app_or in K. destruct K as [K|[K|[]]]; [exact K|lia].
        * split; [intros K; apply in_app_or in K; destruct K as [K|[K|[]]]; [exact K|lia]|intros K; apply in_or_app; left; exact K].
      + cbn [f f_units] in Hu'. destruct (number_units_in _ _ _ _ Hu') as [_ [B _]].
        assert (Z : forall k, count_run k (u_id u') (w_log W) = 0%nat).
        { intros k. apply count_zero. intros r Hr. unfold is_run. pose proof (OL r Hr). fold gen in H.
          destruct (N.eqb_spec (r_unit r) (u_id u')) as [E|NE]; [lia|reflexivity]. }
        unfold once_u. cbn [W1 w_log w_delayed w_pending w_running w_active f f_gen f_new]. rewrite !Z. repeat split; try lia.
        * intros K. exfalso. destruct (so_run W S _ K) as [f2 [u2 [O2 [E2 _]]]]. destruct (io_unit W I f2 u2 O2) as [_ [_ LT]].
          fold gen in LT. lia.
        * intros _ K. exfalso. apply K. apply in_or_app. right; left; reflexivity.
    - intros f' Hf'. apply in_app_or in Hf'. destruct Hf' as [Hf'|[<-|[]]]; [apply ON; exact Hf'|].
      cbn [f f_units]. apply number_units_nodup. }
  cbv zeta. fold gen. fold units. fold f. fold L1. fold W1.
  destruct (memn c (w_auto W)); [|exact O1].
  apply ctx_start_func_once; [exact H1|exact O1|]. cbn. apply in_or_app. right; left; reflexivity.
Qed.

(* ---- occurrences ------------------------------------------------------------------------------------- *)
Lemma occ_once cfg W o : Inv W -> Once W -> is_occ o = true -> Once (step cfg W o).
Proof.
  intros HI HO OC. pose proof HI as [I [S L]]. pose proof HO as [OL OU ON].
  assert (RUN : forall id, In id (w_running W) -> id < w_next W).
  { intros id H. destruct (so_run W S id H) as [f [u [O [E _]]]]. rewrite <- E. apply (io_unit W I f u O). }
  assert (GEN : forall rs, (forall r, In r rs -> r_unit r < w_next W /\
                 (r_kind r = RState \/ r_kind r = REvent \/ r_kind r = RTime \/ r_kind r = RService)) -> Once (add_log W rs)).
  { intros rs H. unfold add_log. constructor; wsimpl.
    - intros r Hr. apply in_app_or in Hr. destruct Hr as [Hr|Hr]; [apply OL; exact Hr|apply (H r Hr)].
    - intros f u O. pose proof (OU f u O) as Y.
      assert (Z : forall k, (k = RStartup \/ k = RShutdown) -> count_run k (u_id u) rs = 0%nat).
      { intros k Hk. apply count_zero. intros r Hr. unfold is_run. destruct (H r Hr) as [_ K].
        destruct Hk as [-> | ->], K as [-> |[-> |[-> | ->]]]; cbn; apply andb_false_r. }
      apply (once_u_transfer W); wsimpl; try exact Y; try reflexivity; auto.
      + rewrite count_app, (Z RStartup (or_introl eq_refl)). lia.
      + rewrite count_app, (Z RShutdown (or_intror eq_refl)). lia.
    - exact ON. }
  destruct o; cbn [is_occ] in OC; try discriminate; cbn [step]; apply GEN.
  - intros r Hr. unfold occ_state in Hr. apply in_map_iff in Hr. destruct Hr as [[e' q] [<- Hp]]. apply filter_In in Hp.
    destruct Hp as [Hp _]. cbn [r_unit r_kind snd]. split; [|left; reflexivity]. apply RUN. exact (proj1 (ok_state W L e' q Hp)).
  - intros r Hr. unfold occ_event in Hr. apply in_app_or in Hr. destruct Hr as [Hr|Hr].
    + destruct (memp (ev, 0) (l_bus (w_led W))); [|destruct Hr]. apply in_map_iff in Hr. destruct Hr as [[e' q] [<- Hp]].
      apply filter_In in Hp. destruct Hp as [Hp _]. cbn [r_unit r_kind snd]. split; [|right; left; reflexivity].
      apply RUN. exact (proj1 (ok_event W L e' q Hp)).
    + apply in_map_iff in Hr. destruct Hr as [[e' q] [<- Hp]]. apply filter_In in Hp. destruct Hp as [Hp C]. cbn [r_unit r_kind snd].
      split; [|right; left; reflexivity]. apply andb_true_iff in C. destruct C as [_ C]. apply negb_true_iff, N.eqb_neq in C. cbn in C.
      destruct (ok_bus W L e' q Hp) as [[Z _]|[R _]]; [contradiction|]. apply RUN. exact R.
  - intros r Hr. unfold occ_tick in Hr. apply in_flat_map in Hr. destruct Hr as [t [Ht Hr]].
    destruct (find_unit W t) as [u|] eqn:FU; [|destruct Hr].
    destruct (u_periodic u && negb (memn t (w_pending W)) && negb (memn t (w_zombie W))); [|destruct Hr].
    destruct Hr as [<-|[]]. cbn [r_unit r_kind]. split; [|right; right; left; reflexivity].
    destruct (find_unit_some W t u FU) as [[f O] E]. rewrite <- E. apply (io_unit W I f u O).
  - intros r Hr. unfold occ_call in Hr. destruct (memn g (l_svc (w_led W))) eqn:M; [|destruct Hr]. destruct Hr as [<-|[]].
    cbn [r_unit r_kind]. split; [|right; right; right; reflexivity]. apply memn_In in M.
    destruct (ok_svc W L g M) as [_ [f [Hf [E _]]]]. rewrite <- E. apply (io_gen W I f Hf).
Qed.

(* ---- composition ------------------------------------------------------------------------------------- *)
Definition Inv2 (W : world) : Prop := Inv W /\ Once W.

Lemma ctx_stop_func_inv2 cfg W f : all_off cfg -> Inv2 W -> In f (w_funcs W) ->
  Inv2 (ctx_stop_func cfg W f) /\ w_funcs (ctx_stop_func cfg W f) = w_funcs W.
Proof.
  intros AO [HI HO] Hf. destruct (ctx_stop_func_inv cfg W f AO HI Hf) as [H1 [[[T _] _] _]].
  split; [split; [exact H1|]|exact T]. unfold ctx_stop_func. destruct (f_new f) eqn:NF.
  - destruct (memn (f_gen f) (w_active W)) eqn:MA; [|exact HO]. apply memn_In in MA.
    destruct (memn (f_gen f) (w_delayed W)); [apply dm_discard_once|apply dm_stop_once]; assumption.
  - apply leg_func_stop_once; assumption.
Qed.

Lemma fold_inv2 {A} (g : world -> A -> world) (F : list func) (P : A -> Prop) :
  (forall W a, P a -> Inv2 W -> w_funcs W = F -> Inv2 (g W a) /\ w_funcs (g W a) = F) ->
  forall l W, (forall a, In a l -> P a) -> Inv2 W -> w_funcs W = F -> Inv2 (fold_left g l W) /\ w_funcs (fold_left g l W) = F.
Proof.
  intros H l. induction l as [|a r IH]; intros W HP HI HF; cbn [fold_left]; [split; assumption|].
  destruct (H W a (HP a (or_introl eq_refl)) HI HF) as [H1 F1]. apply IH; [intros x Hx; apply HP; right; exact Hx|exact H1|exact F1].
Qed.

Lemma Inv2_set_auto W x : Inv2 W -> Inv2 (set_auto W x).
Proof. intros [HI HO]. split; [apply Inv_set_auto; exact HI|apply (same_once W); try reflexivity; exact HO]. Qed.

Lemma ctx_stop_inv2 cfg c W : all_off cfg -> Inv2 W -> Inv2 (ctx_stop cfg c W) /\ w_funcs (ctx_stop cfg c W) = w_funcs W.
Proof.
  intros AO HI. unfold ctx_stop.
  destruct (fold_inv2 (fun W f => if N.eqb (f_ctx f) c then ctx_stop_func cfg W f else W) (w_funcs W) (fun f => In f (w_funcs W)))
    with (l := w_funcs W) (W := W) as [H1 F1]; try assumption || reflexivity || auto.
  - intros V a Pa HV FV. destruct (N.eqb (f_ctx a) c); [|split; assumption].
    destruct (ctx_stop_func_inv2 cfg V a AO HV) as [X Y]; [rewrite FV; exact Pa|]. split; [exact X|congruence].
  - split; [apply Inv2_set_auto; exact H1|exact F1].
Qed.

Lemma ctx_start_inv2 c W : Inv2 W -> Inv2 (ctx_start c W).
Proof.
  intros HI. unfold ctx_start.
  destruct (fold_inv2 (fun W f => if N.eqb (f_ctx f) c then ctx_start_func W f else W) (w_funcs W) (fun f => In f (w_funcs W)))
    with (l := w_funcs W) (W := W) as [H1 F1]; try assumption || reflexivity || auto.
  - intros V a Pa [HV OV] FV. destruct (N.eqb (f_ctx a) c); [|split; [split|]; assumption].
    assert (Ha : In a (w_funcs V)) by (rewrite FV; exact Pa).
    destruct (ctx_start_func_inv V a HV Ha) as [X [[T _] _]]. split; [split; [exact X|apply ctx_start_func_once; assumption]|congruence].
  - apply Inv2_set_auto. exact H1.
Qed.

Lemma dropped_inv2 cfg g W : all_off cfg -> Inv2 W -> Inv2 (dropped cfg g W).
Proof.
  intros AO [HI HO]. split; [apply dropped_inv; assumption|]. unfold dropped.
  destruct (find_func W g) as [f|] eqn:FF; [|exact HO]. destruct (find_func_some W g f FF) as [Hf EG]. subst g.
  pose proof AO as [_ [D90 _]]. rewrite D90. destruct (f_new f) eqn:NF.
  - destruct (memn (f_gen f) (w_active W)) eqn:MA; [|exact HO]. apply memn_In in MA.
    destruct (memn (f_gen f) (w_delayed W)); [apply dm_discard_once|apply dm_stop_once]; assumption.
  - apply leg_func_stop_once; assumption.
Qed.

Lemma settle_inv2 W : Inv2 W -> Inv2 (settle W) /\ w_funcs (settle W) = w_funcs W.
Proof.
  intros HI. unfold settle.
  destruct (fold_inv2 (fun W u => prologue u W) (w_funcs W) (fun _ => True)) with (l := w_pending W ++ w_zombie W) (W := W) as [[H1 O1] F1];
    try assumption || reflexivity || auto.
  - intros V a _ [HV OV] FV. destruct (prologue_inv a V HV) as [X [[T _] _]]. split; [split; [exact X|apply prologue_once; assumption]|congruence].
  - split; [split; [apply do_reap_inv; exact H1|]|exact F1]. apply (same_once _ _ O1); reflexivity.
Qed.

Lemma unload_inv2 cfg W : all_off cfg -> Inv2 W -> Inv2 (unload cfg W).
Proof.
  intros AO HI. unfold unload.
  destruct (fold_inv2 (fun W c => ctx_stop cfg c W) (w_funcs W) (fun _ => True)) with (l := all_ctxs W) (W := W) as [H1 F1];
    try assumption || reflexivity || auto.
  - intros V a _ HV FV. destruct (ctx_stop_inv2 cfg a V AO HV) as [X Y]. split; [exact X|congruence].
  - apply settle_inv2. exact H1.
Qed.

Lemma step_inv2 cfg W o : all_off cfg -> Inv2 W -> Inv2 (step cfg W o).
Proof.
  intros AO HI2. pose proof HI2 as [HI HO]. destruct (is_occ o) eqn:OC.
  - split; [apply step_inv; assumption|apply occ_once; assumption].
  - destruct o; cbn [is_occ] in OC; try discriminate; cbn [step].
    + split; [apply define_inv; exact HI|apply define_once; assumption].
    + apply dropped_inv2; assumption.
    + apply Inv2_set_auto. exact HI2.
    + apply ctx_start_inv2. exact HI2.
    + apply ctx_stop_inv2; assumption.
    + apply unload_inv2; assumption.
    + split; [apply prologue_inv; exact HI|apply prologue_once; assumption].
    + split; [apply do_reap_inv; exact HI|apply (same_once _ _ HO); reflexivity].
    + apply settle_inv2. exact HI2.
Qed.

Lemma run_ops_inv2 cfg ops : all_off cfg -> forall W, Inv2 W -> Inv2 (run_ops cfg ops W).
Proof.
  intros AO. unfold run_ops. induction ops as [|o r IH]; intros W HI; cbn [fold_left]; [exact HI|].
  apply IH. apply step_inv2; assumption.
Qed.

Theorem startup_shutdown_once cfg : all_off cfg -> forall ops : list op,
  let W := run_ops cfg ops world0 in
  forall f u, In f (w_funcs W) -> In u (f_units f) ->
    (count_run RStartup (u_id u) (w_log W) <= 1)%nat /\ (count_run RShutdown (u_id u) (w_log W) <= 1)%nat /\
    (In (u_id u) (w_running W) -> u_startup u = true -> count_run RStartup (u_id u) (w_log W) = 1%nat) /\
    (In (f_gen f) (w_active W) -> count_run RShutdown (u_id u) (w_log W) = 0%nat) /\
    (f_new f = false -> ~ In (f_gen f) (w_active W) -> u_shutdown u = true -> count_run RShutdown (u_id u) (w_log W) = 1%nat).
Proof.
  intros AO ops W f u Hf Hu.
  destruct (run_ops_inv2 cfg ops AO world0 (conj Inv0 Once0)) as [_ [_ OU _]].
  destruct (OU f u (conj Hf Hu)) as [A [B [C [D E]]]]. repeat split; try assumption.
  destruct A as [A|[A _]]; fold W in A; rewrite A; lia.
Qed.

(* the counts are not vacuous: a unit with both flags, started, stopped *)
Example ex_once :
  let W := run_ops cfg_off ex_ops0 world0 in
  map (fun k => count_run k 2 (w_log W)) [RStartup; RShutdown; RState] = [1%nat; 1%nat; 1%nat] /\
  map (fun k => count_run k 4 (w_log W)) [RStartup; RShutdown; RState] = [1%nat; 0%nat; 1%nat].
Proof. vm_compute. split; reflexivity. Qed.
