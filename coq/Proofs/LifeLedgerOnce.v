(* Proofs/LifeLedgerOnce.v — C09: startup and shutdown runs happen at most once per trigger, exactly once for started /
   stopped ones. *)
From Coq Require Import List NArith Bool Lia.
From PV Require Import Common.Util Gen.LedgerConsts Life.Ledger Life.LedgerCheck Proofs.LifeLedger Proofs.LifeLedgerSys
  Proofs.LifeLedgerRuns.
Import ListNotations.
Local Open Scope N_scope.

Local Arguments memp : simpl never.
Local Arguments delp : simpl never.
Local Arguments addp : simpl never.
Local Arguments memn : simpl never.
Local Arguments deln : simpl never.
Local Arguments addn : simpl never.
Local Arguments has_fst : simpl never.
Local Arguments pair_eqb : simpl never.

(* ---- counting runs of one unit ------------------------------------------------------------------ *)
Definition is_run (k : rkind) (id : N) (r : run) : bool :=
  N.eqb (r_unit r) id && N.eqb (rkind_code (r_kind r)) (rkind_code k).
Definition count_run (k : rkind) (id : N) (log : list run) : nat := length (filter (is_run k id) log).

Lemma count_app k id a b : count_run k id (a ++ b) = (count_run k id a + count_run k id b)%nat.
Proof. unfold count_run. rewrite filter_app, app_length. reflexivity. Qed.
Lemma count_nil k id : count_run k id [] = 0%nat.
Proof. reflexivity. Qed.
Lemma count_zero k id l : (forall r, In r l -> is_run k id r = false) -> count_run k id l = 0%nat.
Proof. intros H. unfold count_run. rewrite (filter_none _ _ H). reflexivity. Qed.

Lemma dec_start_log u L : snd (dec_start u L) = startup_run u.
Proof. reflexivity. Qed.
Lemma leg_prologue_log u L : snd (leg_prologue u L) = startup_run u.
Proof. reflexivity. Qed.

Lemma count_su_startup id u : count_run RStartup id (startup_run u) =
  if N.eqb (u_id u) id && (u_startup u && negb (u_crash u)) then 1%nat else 0%nat.
Proof.
  unfold startup_run, count_run. destruct (u_startup u && negb (u_crash u)); cbn; [|rewrite andb_false_r; reflexivity].
  unfold is_run. cbn. destruct (N.eqb (u_id u) id); reflexivity.
Qed.
Lemma count_sd_startup id u : count_run RShutdown id (startup_run u) = 0%nat.
Proof.
  unfold startup_run, count_run. destruct (u_startup u && negb (u_crash u)); cbn; [|reflexivity]. unfold is_run. cbn.
  rewrite andb_false_r. reflexivity.
Qed.
Lemma count_sd_shutdown id u : count_run RShutdown id (shutdown_run u) =
  if N.eqb (u_id u) id && u_shutdown u then 1%nat else 0%nat.
Proof.
  unfold shutdown_run, count_run. destruct (u_shutdown u); cbn; [|rewrite andb_false_r; reflexivity].
  unfold is_run. cbn. destruct (N.eqb (u_id u) id); reflexivity.
Qed.
Lemma count_su_shutdown id u : count_run RStartup id (shutdown_run u) = 0%nat.
Proof. unfold shutdown_run, count_run. destruct (u_shutdown u); cbn; [|reflexivity]. unfold is_run. cbn. rewrite andb_false_r. reflexivity. Qed.

(* the runs logged for a list of units with pairwise distinct ids *)
Lemma count_flat_other k id (g : unit_ -> list run) us :
  (forall u r, In r (g u) -> r_unit r = u_id u) -> ~ In id (map u_id us) -> count_run k id (flat_map g us) = 0%nat.
Proof.
  intros HG NI. apply count_zero. intros r Hr. apply in_flat_map in Hr. destruct Hr as [u [Hu Hr]].
  unfold is_run. rewrite (HG u r Hr). destruct (N.eqb_spec (u_id u) id) as [E|NE]; [|reflexivity].
  exfalso. apply NI. rewrite <- E. apply in_map. exact Hu.
Qed.
Lemma count_flat_own k (g : unit_ -> list run) us u :
  (forall u r, In r (g u) -> r_unit r = u_id u) -> NoDup (map u_id us) -> In u us ->
  count_run k (u_id u) (flat_map g us) = count_run k (u_id u) (g u).
Proof.
  intros HG. induction us as [|a r IH]; intros ND Hu; [destruct Hu|].
  cbn [flat_map map] in *. inversion ND as [|x l NI ND']; subst. rewrite count_app. destruct Hu as [->|Hu].
  - rewrite (count_flat_other k (u_id u) g r HG NI). lia.
  - rewrite (IH ND' Hu). assert (Z : count_run k (u_id u) (g a) = 0%nat).
    { apply count_zero. intros x Hx. unfold is_run. rewrite (HG a x Hx).
      destruct (N.eqb_spec (u_id a) (u_id u)) as [E|NE]; [|reflexivity]. exfalso. apply NI. rewrite E. apply in_map. exact Hu. }
    lia.
Qed.
Lemma startup_run_unit u r : In r (startup_run u) -> r_unit r = u_id u.
Proof. unfold startup_run. destruct (u_startup u && negb (u_crash u)); [intros [<-|[]]; reflexivity|intros []]. Qed.
Lemma shutdown_run_unit u r : In r (shutdown_run u) -> r_unit r = u_id u.
Proof. unfold shutdown_run. destruct (u_shutdown u); [intros [<-|[]]; reflexivity|intros []]. Qed.

(* ---- the invariant ------------------------------------------------------------------------------ *)
Definition once_u (W : world) (f : func) (u : unit_) : Prop :=
  let cs := count_run RStartup (u_id u) (w_log W) in
  let cd := count_run RShutdown (u_id u) (w_log W) in
  (cs = 0%nat \/ (cs = 1%nat /\ ~ In (u_id u) (w_pending W) /\ (f_new f = false -> ~ In (f_gen f) (w_delayed W)) /\
                  (f_new f = true -> In (u_id u) (w_running W) \/ ~ In (f_gen f) (w_active W)))) /\
  (In (u_id u) (w_running W) -> u_startup u = true -> u_crash u = false -> cs = 1%nat) /\
  (In (f_gen f) (w_active W) -> cd = 0%nat) /\ (cd <= 1)%nat /\
  (f_new f = false -> ~ In (f_gen f) (w_active W) -> u_shutdown u = true -> cd = 1%nat).

Record Once (W : world) : Prop := {
  on_log : forall r, In r (w_log W) -> r_unit r < w_next W;
  on_unit : forall f u, owns W f u -> once_u W f u;
  on_nodup : forall f, In f (w_funcs W) -> NoDup (map u_id (f_units f))
}.

Lemma Once0 : Once world0.
Proof. constructor; cbn; try (intros; contradiction). intros f u [[] _]. Qed.

(* a unit whose counts and statuses are unaffected keeps its clause *)
Lemma once_u_transfer W W' f u : once_u W f u ->
  count_run RStartup (u_id u) (w_log W') = count_run RStartup (u_id u) (w_log W) ->
  count_run RShutdown (u_id u) (w_log W') = count_run RShutdown (u_id u) (w_log W) ->
  (In (f_gen f) (w_delayed W') -> In (f_gen f) (w_delayed W)) ->
  (In (u_id u) (w_pending W') -> In (u_id u) (w_pending W)) ->
  (In (u_id u) (w_running W') <-> In (u_id u) (w_running W)) ->
  (In (f_gen f) (w_active W') <-> In (f_gen f) (w_active W)) ->
  once_u W' f u.
Proof.
  unfold once_u. intros [A [B [C [D E]]]] ES ED HD HP HR HA. rewrite ES, ED. repeat split.
  - destruct A as [A|[A1 [A2 [A3 A4]]]]; [left; exact A|right]. split; [exact A1|split; [intros X; exact (A2 (HP X))|split]].
    + intros NF X. exact (A3 NF (HD X)).
    + intros NF. destruct (A4 NF) as [X|X]; [left; apply HR; exact X|right; intros K; apply X; apply HA; exact K].
  - intros X Y Y2. apply B; [apply HR; exact X|exact Y|exact Y2].
  - intros X. apply C. apply HA. exact X.
  - exact D.
  - intros X Y Z. apply E; [exact X| |exact Z]. intros K. apply Y. apply HA. exact K.
Qed.

Lemma other_func_ids W f f' u' : ids_ok W -> In f (w_funcs W) -> owns W f' u' -> f_gen f' <> f_gen f ->
  ~ In (u_id u') (map u_id (f_units f)).
Proof.
  intros I Hf O' NG K. apply in_map_iff in K. destruct K as [u0 [E0 H0]].
  destruct (io_uniq W I f u0 f' u' (conj Hf H0) O' E0) as [EF _]. apply NG. rewrite EF. reflexivity.
Qed.

Lemma same_once W W' : Once W -> w_log W' = w_log W -> w_funcs W' = w_funcs W -> w_next W <= w_next W' ->
  w_active W' = w_active W -> w_delayed W' = w_delayed W -> w_pending W' = w_pending W -> w_running W' = w_running W -> Once W'.
Proof.
  intros [OL OU ON] E1 E2 E3 E4 E5 E6 E7. constructor.
  - rewrite E1. intros r Hr. pose proof (OL r Hr). lia.
  - intros f u O. unfold once_u. rewrite E1, E4, E5, E6, E7. apply OU. apply (owns_same W W' f u E2). exact O.
  - rewrite E2. exact ON.
Qed.

(* ---- the runs a fold of unit stops appends --------------------------------------------------------- *)
(* [sub_log rs us]: rs consists of shutdown runs of units of us, each unit contributing its shutdown run at most once *)
Definition sub_log (rs : list run) (us : list unit_) : Prop :=
  (forall k id, (count_run k id rs <= count_run k id (flat_map shutdown_run us))%nat) /\
  (forall r, In r rs -> exists u, In u us /\ r_unit r = u_id u).

Lemma sub_log_full us : sub_log (flat_map shutdown_run us) us.
Proof.
  split; [intros; lia|]. intros r Hr. apply in_flat_map in Hr. destruct Hr as [u [Hu Hr]]. exists u. split; [exact Hu|].
  apply shutdown_run_unit. exact Hr.
Qed.

Lemma log_leg_unit_stop cfg W u : w_log (leg_unit_stop cfg W u) = w_log W ++ shutdown_run u.
Proof.
  unfold leg_unit_stop. destruct (memn (u_id u) (w_pending W)).
  - destruct (d91_pending_subscribes cfg); reflexivity.
  - destruct (memn (u_id u) (w_running W)); reflexivity.
Qed.
Lemma log_fold_leg_stop cfg us : forall W, w_log (fold_left (leg_unit_stop cfg) us W) = w_log W ++ flat_map shutdown_run us.
Proof.
  induction us as [|a r IH]; intros W; cbn [fold_left flat_map]; [rewrite app_nil_r; reflexivity|].
  rewrite IH, log_leg_unit_stop, app_assoc. reflexivity.
Qed.
Lemma log_fold_stop_running cfg us : forall W, exists rs,
  w_log (fold_left (stop_if_running cfg) us W) = w_log W ++ rs /\ sub_log rs us.
Proof.
  induction us as [|a r IH]; intros W; cbn [fold_left].
  - exists []. rewrite app_nil_r. split; [reflexivity|]. split; [intros; cbn; lia|intros x []].
  - destruct (IH (stop_if_running cfg W a)) as [rs [E [C U]]].
    assert (X : exists r0, w_log (stop_if_running cfg W a) = w_log W ++ r0 /\ (r0 = shutdown_run a \/ r0 = [])).
    { unfold stop_if_running. destruct (memn (u_id a) (w_running W)).
      - unfold dec_unit_stop, dec_stop. wsimpl. destruct (u_crash a).
        + exists []. split; [reflexivity|right; reflexivity].
        + exists (shutdown_run a). split; [reflexivity|left; reflexivity].
      - exists []. rewrite app_nil_r. split; [reflexivity|right; reflexivity]. }
    destruct X as [r0 [E0 H0]]. exists (r0 ++ rs). rewrite E, E0, app_assoc. split; [reflexivity|]. split.
    + intros k id. cbn [flat_map]. rewrite !count_app. specialize (C k id). destruct H0 as [-> | ->]; cbn [count_run filter length]; lia.
    + intros x Hx. apply in_app_or in Hx. destruct Hx as [Hx|Hx].
      * destruct H0 as [-> | ->]; [|destruct Hx]. exists a. split; [left; reflexivity|apply shutdown_run_unit; exact Hx].
      * destruct (U x Hx) as [u [Hu Eu]]. exists u. split; [right; exact Hu|exact Eu].
Qed.

Lemma keep_running_fold (g : world -> unit_ -> world) :
  (forall W u x, In x (w_running W) -> x <> u_id u -> In x (w_running (g W u))) ->
  forall us W x, In x (w_running W) -> ~ In x (map u_id us) -> In x (w_running (fold_left g us W)).
Proof.
  intros H us. induction us as [|a r IH]; intros W x Hx NI; cbn [fold_left]; [exact Hx|].
  apply IH; [apply H; [exact Hx|intros E; apply NI; left; symmetry; exact E]|intros K; apply NI; right; exact K].
Qed.
Lemma leg_unit_stop_keeps cfg W u x : In x (w_running W) -> x <> u_id u -> In x (w_running (leg_unit_stop cfg W u)).
Proof.
  intros Hx NE. unfold leg_unit_stop. destruct (memn (u_id u) (w_pending W)).
  - destruct (d91_pending_subscribes cfg); exact Hx.
  - destruct (memn (u_id u) (w_running W)); [|exact Hx]. wsimpl. apply In_deln. split; assumption.
Qed.
Lemma stop_if_running_keeps cfg W u x : In x (w_running W) -> x <> u_id u -> In x (w_running (stop_if_running cfg W u)).
Proof.
  intros Hx NE. unfold stop_if_running. destruct (memn (u_id u) (w_running W)); [|exact Hx].
  unfold dec_unit_stop. wsimpl. apply In_deln. split; assumption.
Qed.

(* ---- a function is stopped ------------------------------------------------------------------------ *)
(* W1 is the world after the unit fold, W' the world after the function left the active set *)
Lemma stop_once W W1 W' f rs : Inv W -> Once W -> In f (w_funcs W) -> In (f_gen f) (w_active W) ->
  w_log W1 = w_log W ++ rs -> sub_log rs (f_units f) -> (f_new f = false -> rs = flat_map shutdown_run (f_units f)) ->
  stop_frame W W1 (map u_id (f_units f)) ->
  (forall x, In x (w_running W) -> ~ In x (map u_id (f_units f)) -> In x (w_running W1)) ->
  w_log W' = w_log W1 -> w_funcs W' = w_funcs W1 -> w_next W' = w_next W1 -> w_pending W' = w_pending W1 ->
  w_running W' = w_running W1 -> (forall g, In g (w_active W') <-> In g (w_active W1) /\ g <> f_gen f) ->
  (forall g, In g (w_delayed W') -> In g (w_delayed W1)) ->
  Once W'.
Proof.
  intros [I [S L]] [OL OU ON] Hf HA EL [SC SU] EX [[T1 T2] [A1 [D1 [R1 [P1 _]]]]] KR EL' EF' EN' EP' ER' EA' ED'.
  constructor.
  - rewrite EL', EN', EL, T2. intros r Hr. apply in_app_or in Hr. destruct Hr as [Hr|Hr]; [apply OL; exact Hr|].
    destruct (SU r Hr) as [u [Hu E]]. rewrite E. apply (io_unit W I f u (conj Hf Hu)).
  - intros f' u' O'. assert (O : owns W f' u') by (apply (owns_same W W1 f' u' T1); apply (owns_same W1 W' f' u' EF'); exact O').
    pose proof (OU f' u' O) as X. destruct O as [Hf' Hu'].
    destruct (N.eq_dec (f_gen f') (f_gen f)) as [EG|NG].
    + (* a unit of the stopped function *)
      pose proof (io_guniq W I f' f Hf' Hf EG). subst f'.
      assert (CS : count_run RStartup (u_id u') rs = 0%nat).
      { pose proof (SC RStartup (u_id u')) as K.
        rewrite (count_flat_own RStartup shutdown_run (f_units f) u' shutdown_run_unit (ON f Hf) Hu'), count_su_shutdown in K. lia. }
      assert (CD : (count_run RShutdown (u_id u') rs <= (if u_shutdown u' then 1 else 0))%nat).
      { pose proof (SC RShutdown (u_id u')) as K.
        rewrite (count_flat_own RShutdown shutdown_run (f_units f) u' shutdown_run_unit (ON f Hf) Hu'), count_sd_shutdown, N.eqb_refl in K.
        exact K. }
      unfold once_u in *. rewrite EL', EL, !count_app, CS, EP', ER'. destruct X as [A [B [C [D E]]]]. rewrite (C HA). rewrite !Nat.add_0_r.
      assert (NA : ~ In (f_gen f) (w_active W')) by (intros K; apply EA' in K; destruct K as [_ K]; apply K; reflexivity).
      repeat split.
      * destruct A as [A|[A1' [A2 [A3 A4]]]]; [left; exact A|right]. split; [exact A1'|split; [|split]].
        -- intros K. apply A2. apply (P1 _ K).
        -- intros NF K. apply (A3 NF). rewrite <- D1. apply ED'. exact K.
        -- intros _. right. exact NA.
      * intros K Y Y2. apply B; [apply (R1 _ K)|exact Y|exact Y2].
      * intros K. contradiction.
      * destruct (u_shutdown u'); cbn in *; lia.
      * intros NF _ Y. rewrite (EX NF), (count_flat_own RShutdown shutdown_run (f_units f) u' shutdown_run_unit (ON f Hf) Hu'),
          count_sd_shutdown, N.eqb_refl, Y. reflexivity.
    + (* a unit of another function *)
      pose proof (other_func_ids W f f' u' I Hf (conj Hf' Hu') NG) as NI.
      assert (Z : forall k, count_run k (u_id u') rs = 0%nat).
      { intros k. pose proof (SC k (u_id u')) as K. rewrite (count_flat_other k _ shutdown_run _ shutdown_run_unit NI) in K. lia. }
      apply (once_u_transfer W); try exact X.
      * rewrite EL', EL, count_app, Z. lia.
      * rewrite EL', EL, count_app, Z. lia.
      * intros K. rewrite <- D1. apply ED'. exact K.
      * rewrite EP'. intros K. apply (P1 _ K).
      * rewrite ER'. split; [intros K; apply (R1 _ K)|intros K; apply KR; assumption].
      * rewrite EA', A1. split; [tauto|intros K; split; [exact K|exact NG]].
  - intros f' Hf'. rewrite EF', T1 in Hf'. apply ON. exact Hf'.
Qed.

Lemma leg_func_stop_once cfg W f : all_off cfg -> Inv W -> Once W -> In f (w_funcs W) -> f_new f = false ->
  Once (leg_func_stop cfg W f).
Proof.
  intros AO HI HO Hf NF. unfold leg_func_stop. destruct (memn (f_gen f) (w_active W)) eqn:MA; [|exact HO].
  apply memn_In in MA.
  destruct (fold_stop_units (leg_unit_stop cfg) f) with (us := f_units f) (W := W) as [H1 FR].
  - intros W0 u0 HI0 O0. apply (leg_unit_stop_inv cfg W0 f u0 AO HI0 O0 NF).
  - exact HI.
  - intros u Hu. split; assumption.
  - set (W1 := fold_left (leg_unit_stop cfg) (f_units f) W) in *.
    destruct (svc_remove_fields W1 f) as [[F2 [_ [P2 [_ [R2 _]]]]] [SA [SD [LG _]]]].
    pose proof (svc_remove_next W1 f) as N2. cbv zeta. set (W2 := svc_remove W1 f) in *.
    apply (stop_once W W1 _ f (flat_map shutdown_run (f_units f)) HI HO Hf MA (log_fold_leg_stop cfg (f_units f) W)
             (sub_log_full _) (fun _ => eq_refl) FR); wsimpl; try assumption.
    + intros x Hx NI. apply keep_running_fold; [apply leg_unit_stop_keeps|exact Hx|exact NI].
    + intros g. rewrite SA. apply In_deln.
    + intros g Hg. rewrite SD in Hg. apply In_deln in Hg. tauto.
Qed.

(* stop of the running decorators of a manager, then the manager leaves the active set (dm_stop, refused start) *)
Lemma dm_stopped_once cfg W W' f : all_off cfg -> Inv W -> Once W -> In f (w_funcs W) -> f_new f = true -> In (f_gen f) (w_active W) ->
  let W1 := fold_left (stop_if_running cfg) (f_units f) W in
  w_log W' = w_log W1 -> w_funcs W' = w_funcs W1 -> w_next W' = w_next W1 -> w_pending W' = w_pending W1 ->
  w_running W' = w_running W1 -> (forall g, In g (w_active W') <-> In g (w_active W1) /\ g <> f_gen f) ->
  (forall g, In g (w_delayed W') -> In g (w_delayed W1)) -> Once W'.
Proof.
  intros AO HI HO Hf NF MA W1 E1 E2 E3 E4 E5 E6 E7.
  destruct (fold_stop_units (stop_if_running cfg) f) with (us := f_units f) (W := W) as [H1 FR].
  - intros W0 u0 HI0 O0. apply (stop_if_running_inv cfg W0 f u0 AO HI0 O0 NF).
  - exact HI.
  - intros u Hu. split; assumption.
  - destruct (log_fold_stop_running cfg (f_units f) W) as [rs [EL SL]].
    apply (stop_once W W1 W' f rs HI HO Hf MA EL SL); try assumption.
    + intros K. congruence.
    + intros x Hx NI. apply keep_running_fold; [apply stop_if_running_keeps|exact Hx|exact NI].
Qed.

Lemma dm_stop_once cfg W f : all_off cfg -> Inv W -> Once W -> In f (w_funcs W) -> f_new f = true ->
  In (f_gen f) (w_active W) -> Once (dm_stop cfg W f).
Proof.
  intros AO HI HO Hf NF MA. unfold dm_stop. cbv zeta.
  set (W1 := fold_left (stop_if_running cfg) (f_units f) W).
  set (W2 := if memn (f_gen f) (l_svc (w_led W1)) then svc_remove W1 f else W1).
  assert (X : w_log W2 = w_log W1 /\ w_funcs W2 = w_funcs W1 /\ w_next W2 = w_next W1 /\ w_pending W2 = w_pending W1 /\
              w_running W2 = w_running W1 /\ w_active W2 = w_active W1 /\ w_delayed W2 = w_delayed W1).
  { unfold W2. destruct (memn (f_gen f) (l_svc (w_led W1))); [|repeat split; reflexivity].
    destruct (svc_remove_fields W1 f) as [[F2 [_ [P2 [_ [R2 _]]]]] [SA [SD [LG _]]]]. pose proof (svc_remove_next W1 f).
    repeat split; assumption. }
  destruct X as [X1 [X2 [X3 [X4 [X5 [X6 X7]]]]]].
  apply (dm_stopped_once cfg W _ f AO HI HO Hf NF MA); wsimpl; try assumption.
  - intros g. rewrite X6. apply In_deln.
  - intros g Hg. rewrite X7 in Hg. exact Hg.
Qed.

Lemma dm_discard_once W f : Inv W -> Once W -> In f (w_funcs W) -> f_new f = true -> Once (dm_discard W f).
Proof.
  intros [I [S L]] [OL OU ON] Hf NF. unfold dm_discard. constructor; wsimpl; try assumption.
  intros f' u' O'. pose proof (OU f' u' O') as X. destruct O' as [Hf' Hu'].
  destruct (N.eq_dec (f_gen f') (f_gen f)) as [EG|NG].
  - pose proof (io_guniq W I f' f Hf' Hf EG). subst f'. unfold once_u in *. wsimpl. destruct X as [A [B [C [D E]]]].
    assert (NA : ~ In (f_gen f) (deln (f_gen f) (w_active W))) by apply not_in_deln_self. repeat split.
    + destruct A as [A|[A1 [A2 [A3 A4]]]]; [left; exact A|right]. split; [exact A1|split; [exact A2|split]].
      * intros K. congruence.
      * intros _. right. exact NA.
    + exact B.
    + intros K. contradiction.
    + exact D.
    + intros K. congruence.
  - apply (once_u_transfer W); wsimpl; try exact X; try reflexivity; auto.
    + intros K. apply In_deln in K. tauto.
    + split; [intros K; apply In_deln in K; tauto|intros K; apply In_deln; split; assumption].
Qed.

(* ---- unit-level starts ------------------------------------------------------------------------------ *)
Lemma dec_unit_start_once W f u : Inv W -> Once W -> owns W f u -> f_new f = true -> In (f_gen f) (w_active W) ->
  ~ In (u_id u) (w_running W) -> Once (dec_unit_start W u).
Proof.
  intros [I [S L]] [OL OU ON] O NF A NR. unfold dec_unit_start. constructor; wsimpl; try assumption.
  - intros r Hr. apply in_app_or in Hr. destruct Hr as [Hr|Hr]; [apply OL; exact Hr|].
    rewrite dec_start_log in Hr. rewrite (startup_run_unit u r Hr). apply (io_unit W I f u O).
  - intros f' u' O'. pose proof (OU f' u' O') as X. destruct (N.eq_dec (u_id u') (u_id u)) as [EU|NU].
    + destruct (io_uniq W I f' u' f u O' O EU) as [-> ->]. unfold once_u in *. wsimpl. rewrite dec_start_log.
      rewrite !count_app, count_su_startup, count_sd_startup, N.eqb_refl. cbn [andb]. rewrite !Nat.add_0_r.
      destruct X as [[A0|[_ [_ [_ A4]]]] [B [Cc [D E']]]].
      2:{ destruct (A4 NF) as [K|K]; contradiction. }
      rewrite A0. cbn [Nat.add]. repeat split; try assumption.
      * destruct (u_startup u && negb (u_crash u)); [right|left; reflexivity]. split; [reflexivity|split; [|split]].
        -- intros K. destruct (so_pend W S _ K) as [f2 [u2 [O2 [E2 [NF2 _]]]]].
           destruct (io_uniq W I f2 u2 f u O2 O E2) as [-> _]. congruence.
        -- intros K. congruence.
        -- intros _. left. apply In_addn. right; reflexivity.
      * intros _ Y Y2. rewrite Y, Y2. reflexivity.
    + apply (once_u_transfer W); wsimpl; try exact X.
      * rewrite dec_start_log, count_app, count_su_startup. apply N.eqb_neq in NU. rewrite N.eqb_sym, NU. cbn. lia.
      * rewrite dec_start_log, count_app, count_sd_startup. lia.
      * auto.
      * auto.
      * split; [intros K; apply In_addn in K; destruct K as [K|K]; [exact K|contradiction]|intros K; apply In_addn; left; exact K].
      * reflexivity.
Qed.

Lemma leg_unit_start_once W f u : Inv W -> Once W -> owns W f u -> f_new f = false ->
  count_run RStartup (u_id u) (w_log W) = 0%nat -> Once (leg_unit_start W u).
Proof.
  intros [I [S L]] [OL OU ON] O NF CS. unfold leg_unit_start. constructor; wsimpl; try assumption.
  intros f' u' O'. pose proof (OU f' u' O') as X. destruct (N.eq_dec (u_id u') (u_id u)) as [EU|NU].
  - destruct (io_uniq W I f' u' f u O' O EU) as [-> ->]. unfold once_u in *. wsimpl. destruct X as [A [B [Cc [D E']]]].
    repeat split; try assumption. left. exact CS.
  - apply (once_u_transfer W); wsimpl; try exact X; try reflexivity; auto.
    intros K. apply In_addn in K. destruct K as [K|K]; [exact K|contradiction].
Qed.

(* folds of starts: Inv and Once together *)
Definition Inv2 (W : world) : Prop := Inv W /\ Once W.

Lemma fold_dec_start2 f : f_new f = true -> forall us W, Inv2 W -> (forall u, In u us -> owns W f u) ->
  In (f_gen f) (w_active W) -> ~ In (f_gen f) (w_delayed W) -> NoDup (map u_id us) ->
  (forall u, In u us -> ~ In (u_id u) (w_running W)) ->
  Once (fold_left dec_unit_start us W).
Proof.
  intros NF us. induction us as [|a r IH]; intros W [HI HO] HU A ND NDp NR; cbn [fold_left]; [exact HO|].
  cbn [map] in NDp. inversion NDp as [|x l NI ND']; subst.
  destruct (dec_unit_start_inv W f a HI (HU a (or_introl eq_refl)) NF A ND) as [H1 [[[T1 T2] [A1 [D1 _]]] _]].
  apply (IH (dec_unit_start W a)).
  - split; [exact H1|]. apply (dec_unit_start_once W f a HI HO (HU a (or_introl eq_refl)) NF A (NR a (or_introl eq_refl))).
  - intros u Hu. apply (owns_same W); [exact T1|]. apply HU. right; exact Hu.
  - rewrite A1. exact A.
  - rewrite D1. exact ND.
  - exact ND'.
  - intros u Hu K. unfold dec_unit_start in K. wsimpl. apply In_addn in K. destruct K as [K|K].
    + exact (NR u (or_intror Hu) K).
    + apply NI. rewrite <- K. apply in_map. exact Hu.
Qed.

Lemma start_idle_once W f u : Inv W -> Once W -> owns W f u -> f_new f = true -> In (f_gen f) (w_active W) ->
  Once (start_if_idle W u).
Proof.
  intros HI HO O NF A. unfold start_if_idle. destruct (memn (u_id u) (w_running W)) eqn:M; [exact HO|].
  apply memn_false in M. apply (dec_unit_start_once W f u HI HO O NF A M).
Qed.
Lemma fold_start_idle2 f : f_new f = true -> forall us W, Inv2 W -> (forall u, In u us -> owns W f u) ->
  In (f_gen f) (w_active W) -> ~ In (f_gen f) (w_delayed W) -> Once (fold_left start_if_idle us W).
Proof.
  intros NF us. induction us as [|a r IH]; intros W [HI HO] HU A ND; cbn [fold_left]; [exact HO|].
  destruct (start_idle_inv W f a HI (HU a (or_introl eq_refl)) NF A ND) as [H1 [[[T1 T2] [A1 [D1 _]]] _]].
  apply (IH (start_if_idle W a)).
  - split; [exact H1|apply (start_idle_once W f a HI HO (HU a (or_introl eq_refl)) NF A)].
  - intros u Hu. apply (owns_same W); [exact T1|]. apply HU. right; exact Hu.
  - rewrite A1. exact A.
  - rewrite D1. exact ND.
Qed.
Lemma fold_leg_start2 f : f_new f = false -> forall us W, Inv2 W -> (forall u, In u us -> owns W f u) ->
  In (f_gen f) (w_active W) -> ~ In (f_gen f) (w_delayed W) -> (forall u, In u us -> ~ In (u_id u) (w_running W)) ->
  (forall u, In u us -> count_run RStartup (u_id u) (w_log W) = 0%nat) ->
  Once (fold_left leg_unit_start us W).
Proof.
  intros NF us. induction us as [|a r IH]; intros W [HI HO] HU A ND NR CS; cbn [fold_left]; [exact HO|].
  destruct (leg_unit_start_inv W f a HI (HU a (or_introl eq_refl)) NF A ND (NR a (or_introl eq_refl))) as [H1 [[[T1 T2] [A1 [D1 _]]] R1]].
  apply (IH (leg_unit_start W a)).
  - split; [exact H1|apply (leg_unit_start_once W f a HI HO (HU a (or_introl eq_refl)) NF (CS a (or_introl eq_refl)))].
  - intros u Hu. apply (owns_same W); [exact T1|]. apply HU. right; exact Hu.
  - rewrite A1. exact A.
  - rewrite D1. exact ND.
  - intros u Hu. rewrite R1. apply NR. right; exact Hu.
  - intros u Hu. apply CS. right; exact Hu.
Qed.

Lemma firstn_nodup {A} (f : A -> N) n (l : list A) : NoDup (map f l) -> NoDup (map f (firstn n l)).
Proof.
  revert l. induction n as [|n IH]; intros [|a l] H; cbn; try constructor.
  - cbn in H. inversion H as [|x y NI ND]; subst. intros K. apply NI. apply in_map_iff in K. destruct K as [z [E Hz]].
    apply in_map_iff. exists z. split; [exact E|apply (firstn_In _ _ _ Hz)].
  - cbn in H. inversion H; subst. apply IH. assumption.
Qed.

Lemma Once_status W W' : Once W -> w_log W' = w_log W -> w_funcs W' = w_funcs W -> w_next W <= w_next W' ->
  w_active W' = w_active W -> w_pending W' = w_pending W -> w_running W' = w_running W ->
  (forall g, In g (w_delayed W') -> In g (w_delayed W)) -> Once W'.
Proof.
  intros [OL OU ON] E1 E2 E3 E4 E6 E7 HD. constructor.
  - rewrite E1. intros r Hr. pose proof (OL r Hr). lia.
  - intros f u O. apply (once_u_transfer W); rewrite ?E1, ?E4, ?E6, ?E7; try reflexivity; auto.
    apply OU. apply (owns_same W W' f u E2). exact O.
  - rewrite E2. exact ON.
Qed.

Lemma ctx_start_func_once cfg W f : all_off cfg -> Inv W -> Once W -> In f (w_funcs W) -> Once (ctx_start_func cfg W f).
Proof.
  intros AO HI HO Hf. pose proof HI as [I [S L]]. pose proof HO as [OL OU ON]. unfold ctx_start_func.
  destruct (memn (f_gen f) (w_active W) && memn (f_gen f) (w_delayed W)) eqn:C; [|exact HO].
  apply andb_true_iff in C. destruct C as [CA CD]. apply memn_In in CA, CD.
  pose proof (Inv_undelay W (f_gen f) HI) as H0.
  assert (O0 : Once (set_delayed W (deln (f_gen f) (w_delayed W)))).
  { apply (Once_status W); wsimpl; try reflexivity; try exact HO. intros g Hg. apply In_deln in Hg. tauto. }
  set (W0 := set_delayed W (deln (f_gen f) (w_delayed W))) in *.
  assert (ND0 : ~ In (f_gen f) (w_delayed W0)) by apply not_in_deln_self.
  assert (OW : forall u, In u (f_units f) -> owns W0 f u) by (intros u Hu; split; assumption).
  assert (IDLE : forall u, In u (f_units f) -> ~ In (u_id u) (w_running W0)) by (intros u Hu; apply (delayed_units_idle W f HI Hf CD u Hu)).
  destruct (f_new f) eqn:NF.
  - unfold dm_begin. fold W0. destruct (f_svc f) as [n|] eqn:SVN.
    2:{ apply (fold_dec_start2 f NF (f_units f) W0 (conj H0 O0)); try assumption. apply (ON f Hf). }
    set (us := firstn (f_pos f) (f_units f)).
    assert (HU : forall u, In u us -> In u (f_units f)) by (intros u Hu; apply (firstn_In _ _ _ Hu)).
    assert (O1 : Once (fold_left dec_unit_start us W0)).
    { apply (fold_dec_start2 f NF us W0 (conj H0 O0)); try assumption; auto. apply firstn_nodup. apply (ON f Hf). }
    destruct (fold_dec_start f NF us W0 H0) as [H1 [[[T1 T2] [A1 [D1 V1]]] [P1 R1]]]; try assumption; auto.
    set (W1 := fold_left dec_unit_start us W0) in *.
    assert (Hf1 : In f (w_funcs W1)) by (rewrite T1; exact Hf).
    assert (CA1 : In (f_gen f) (w_active W1)) by (rewrite A1; exact CA).
    destruct (svc_refused W1 f).
    + cbv zeta. apply (dm_stopped_once cfg W1 _ f AO H1 O1 Hf1 NF CA1); wsimpl; try reflexivity.
      * intros g. apply In_deln.
      * auto.
    + cbv zeta. destruct (svc_register_fields W1 f) as [[F2 [_ [P2 [_ [R2 _]]]]] [SA [SD [LG _]]]]. pose proof (svc_register_next W1 f) as N2.
      apply (Once_status W1); wsimpl; try assumption; [rewrite N2; reflexivity|rewrite SD; auto].
  - unfold leg_func_start. apply (fold_leg_start2 f NF (f_units f) W0 (conj H0 O0)); try assumption.
    intros u Hu. destruct (OU f u (conj Hf Hu)) as [[A|[_ [_ [A _]]]] _]; [exact A|]. exfalso. exact (A NF CD).
Qed.

Lemma dm_resume_once g W : Inv W -> Once W -> Once (dm_resume g W).
Proof.
  intros HI HO. unfold dm_resume. destruct (find_func W g) as [f|] eqn:FF; [|exact HO].
  destruct (find_func_some W g f FF) as [Hf EG]. subst g.
  destruct (memn (f_gen f) (w_starting W) && f_new f) eqn:C; [|exact HO].
  apply andb_true_iff in C. destruct C as [_ NF]. cbv zeta.
  assert (H0 : Inv (set_starting W (deln (f_gen f) (w_starting W)))).
  { pose proof HI as [I [S L]]. apply (Inv_res W _ HI); wsimpl; [repeat split; reflexivity|auto|apply (so_act W S)|apply (ok_svc W L)]. }
  assert (O0 : Once (set_starting W (deln (f_gen f) (w_starting W)))) by (apply (same_once W); try reflexivity; exact HO).
  destruct (memn (f_gen f) (w_active W) && negb (memn (f_gen f) (w_delayed W))) eqn:C2; [|exact O0].
  apply andb_true_iff in C2. destruct C2 as [CA CD]. apply memn_In in CA. apply negb_true_iff, memn_false in CD.
  apply (fold_start_idle2 f NF (f_units f) _ (conj H0 O0)); try assumption. intros u Hu. split; assumption.
Qed.

Lemma prologue_once id W : Inv W -> Once W -> Once (prologue id W).
Proof.
  intros HI HO. pose proof HI as [I [S L]]. pose proof HO as [OL OU ON]. unfold prologue.
  destruct (find_unit W id) as [un|] eqn:FU; [|exact HO].
  destruct (find_unit_some W id un FU) as [[f0 O0] EID].
  destruct (memn id (w_pending W)) eqn:MP.
  2:{ rewrite (so_zomb W S). cbn [memn existsb]. exact HO. }
  apply memn_In in MP. destruct (so_pend W S id MP) as [f [u [O [E [NF [A ND]]]]]].
  assert (un = u). { destruct (io_uniq W I f0 un f u O0 O) as [_ X]; [congruence|exact X]. } subst un. subst id.
  constructor; wsimpl.
  - intros r Hr. apply in_app_or in Hr. destruct Hr as [Hr|Hr]; [apply OL; exact Hr|].
    rewrite leg_prologue_log in Hr. rewrite (startup_run_unit u r Hr). apply (io_unit W I f u O).
  - intros f' u' O'. pose proof (OU f' u' O') as Y.
    destruct (N.eq_dec (u_id u') (u_id u)) as [EU|NU].
    + destruct (io_uniq W I f' u' f u O' O EU) as [-> ->]. unfold once_u in *. wsimpl. rewrite leg_prologue_log.
      rewrite !count_app, count_su_startup, count_sd_startup, N.eqb_refl. cbn [andb]. rewrite !Nat.add_0_r.
      destruct Y as [[A0|[_ [A3 _]]] [B [Cc [D E']]]]; [|contradiction]. rewrite A0. cbn [Nat.add]. repeat split; try assumption.
      * destruct (u_startup u && negb (u_crash u)); [right|left; reflexivity]. split; [reflexivity|split; [apply not_in_deln_self|split]].
        -- intros _. exact ND.
        -- intros K. congruence.
      * intros _ Y Y2. rewrite Y, Y2. reflexivity.
    + apply (once_u_transfer W); wsimpl; try exact Y.
      * rewrite leg_prologue_log, count_app, count_su_startup. apply N.eqb_neq in NU. rewrite N.eqb_sym, NU. cbn. lia.
      * rewrite leg_prologue_log, count_app, count_sd_startup. lia.
      * auto.
      * intros K. apply In_deln in K. tauto.
      * split; [intros K; apply In_addn in K; destruct K as [K|K]; [exact K|contradiction]|intros K; apply In_addn; left; exact K].
      * reflexivity.
  - exact ON.
Qed.

(* ---- definition ------------------------------------------------------------------------------------- *)
Lemma number_units_nodup cr gen : forall ps id, NoDup (map u_id (number_units cr gen id ps)).
Proof.
  induction ps as [|[[st ev] tm] r IH]; intros id; cbn [number_units map]; constructor; [|apply IH].
  intros K. apply in_map_iff in K. destruct K as [u [E Hu]]. destruct (number_units_in _ _ _ _ _ Hu) as [_ [B _]].
  cbn [mk_unit u_id] in E. lia.
Qed.

Lemma define_once cfg c newsys s W : all_off cfg -> Inv W -> Once W -> Once (define cfg c newsys s W).
Proof.
  intros AO HI HO. pose proof HI as [I [S L]]. pose proof HO as [OL OU ON].
  unfold define.
  set (gen := w_next W).
  set (units := number_units (s_crash s) gen (gen + 1) (if newsys then new_protos s else legacy_protos s)).
  set (f := {| f_gen := gen; f_ctx := c; f_new := newsys; f_units := units; f_svc := s_svc s; f_pos := s_pos s; f_inline := memn c (w_auto W) |}).
  set (Wf := {| w_led := w_led W; w_funcs := w_funcs W ++ [f]; w_active := w_active W; w_delayed := w_delayed W;
                w_pending := w_pending W; w_zombie := w_zombie W; w_running := w_running W; w_starting := w_starting W;
                w_hdl := w_hdl W; w_auto := w_auto W; w_next := gen + 1 + N.of_nat (length units); w_log := w_log W |}).
  cbv zeta.
  destruct (negb newsys && svc_refused Wf f) eqn:RF.
  { apply (same_once W); wsimpl; try reflexivity; [exact HO|cbn [set_next w_next]; lia]. }
  (* the invariant of the world in which the function is registered and delayed *)
  set (Ws := if newsys then Wf else svc_register Wf f).
  set (W1 := set_delayed (set_active Ws (w_active Ws ++ [gen])) (w_delayed Ws ++ [gen])).
  assert (XS : w_log Ws = w_log W /\ w_funcs Ws = w_funcs W ++ [f] /\ w_next Ws = gen + 1 + N.of_nat (length units) /\
               w_active Ws = w_active W /\ w_delayed Ws = w_delayed W /\ w_pending Ws = w_pending W /\ w_running Ws = w_running W).
  { unfold Ws. destruct newsys; [repeat split; reflexivity|].
    destruct (svc_register_fields Wf f) as [[F2 [_ [P2 [_ [R2 _]]]]] [SA [SD [LG _]]]]. pose proof (svc_register_next Wf f).
    repeat split; assumption. }
  destruct XS as [X1 [X2 [X3 [X4 [X5 [X6 X7]]]]]].
  assert (H1 : Inv W1) by (destruct (define_mid_inv c newsys s W HI) as [H1 _]; exact H1).
  assert (O1 : Once W1).
  { constructor; unfold W1; wsimpl; rewrite ?X1, ?X2, ?X3.
    - intros r Hr. pose proof (OL r Hr). fold gen in H. lia.
    - intros f' u' [Hf' Hu']. wsimpl. rewrite ?X2 in Hf'. apply in_app_or in Hf'. destruct Hf' as [Hf'|[<-|[]]].
      + pose proof (OU f' u' (conj Hf' Hu')) as Y. destruct (io_gen W I f' Hf') as [_ LT]. fold gen in LT.
        apply (once_u_transfer W); wsimpl; rewrite ?X1, ?X4, ?X5, ?X6, ?X7; try exact Y; try reflexivity; auto.
        * intros K. apply in_app_or in K. destruct K as [K|[K|[]]]; [exact K|lia].
        * split; [intros K; apply in_app_or in K; destruct K as [K|[K|[]]]; [exact K|lia]|intros K; apply in_or_app; left; exact K].
      + cbn [f f_units] in Hu'. destruct (number_units_in _ _ _ _ _ Hu') as [_ [B _]].
        assert (Z : forall k, count_run k (u_id u') (w_log W) = 0%nat).
        { intros k. apply count_zero. intros r Hr. unfold is_run. pose proof (OL r Hr). fold gen in H.
          destruct (N.eqb_spec (r_unit r) (u_id u')) as [E|NE]; [lia|reflexivity]. }
        unfold once_u. wsimpl. rewrite X1, X4, X5, X6, X7. cbn [f f_gen f_new]. rewrite !Z. repeat split; try lia.
        * intros K. exfalso. destruct (so_run W S _ K) as [f2 [u2 [O2 [E2 _]]]]. destruct (io_unit W I f2 u2 O2) as [_ [_ LT]].
          fold gen in LT. lia.
        * intros _ K. exfalso. apply K. apply in_or_app. right; left; reflexivity.
    - intros f' Hf'. rewrite ?X2 in Hf'. apply in_app_or in Hf'. destruct Hf' as [Hf'|[<-|[]]]; [apply ON; exact Hf'|].
      cbn [f f_units]. apply number_units_nodup. }
  fold Ws. fold W1.
  destruct (memn c (w_auto W)); [|exact O1].
  apply ctx_start_func_once; [exact AO|exact H1|exact O1|]. unfold W1. wsimpl. rewrite X2. apply in_or_app. right; left; reflexivity.
Qed.

(* ---- occurrences ------------------------------------------------------------------------------------- *)
Lemma crash_all_once cfg ids W : all_off cfg -> Inv W -> Once W -> Once (crash_all cfg ids W).
Proof.
  intros AO HI HO. destruct (crash_all_inv cfg ids AO W HI) as [_ [F [Nx [A [D [P [_ [R [_ [LG _]]]]]]]]]].
  apply (same_once W); try assumption. rewrite Nx. reflexivity.
Qed.

Lemma occ_once cfg W o : all_off cfg -> Inv W -> Once W -> is_occ o = true -> Once (step cfg W o).
Proof.
  intros AO HI HO OC. pose proof HI as [I [S L]]. pose proof HO as [OL OU ON].
  assert (RUN : forall id, In id (w_running W) -> id < w_next W).
  { intros id H. destruct (so_run W S id H) as [f [u [O [E _]]]]. rewrite <- E. apply (io_unit W I f u O). }
  assert (GEN : forall rs, (forall r, In r rs -> r_unit r < w_next W /\
                 (r_kind r = RState \/ r_kind r = REvent \/ r_kind r = RTime \/ r_kind r = RService)) -> Once (add_log W rs)).
  { intros rs H. unfold add_log. constructor; wsimpl.
    - intros r Hr. apply in_app_or in Hr. destruct Hr as [Hr|Hr]; [apply OL; exact Hr|apply (H r Hr)].
    - intros f u O. pose proof (OU f u O) as Y.
      assert (Z : forall k, (k = RStartup \/ k = RShutdown) -> count_run k (u_id u) rs = 0%nat).
      { intros k Hk. apply count_zero. intros r Hr. unfold is_run. destruct (H r Hr) as [_ K].
        destruct Hk as [-> | ->], K as [-> |[-> |[-> | ->]]]; cbn; apply andb_false_r. }
      apply (once_u_transfer W); wsimpl; try exact Y; try reflexivity; auto.
      + rewrite count_app, (Z RStartup (or_introl eq_refl)). lia.
      + rewrite count_app, (Z RShutdown (or_intror eq_refl)). lia.
    - exact ON. }
  destruct o; cbn [is_occ] in OC; try discriminate; cbn [step]; try (apply crash_all_once; [exact AO|apply Inv_log; exact HI|]); apply GEN.
  - intros r Hr. unfold occ_state in Hr. apply in_map_iff in Hr. destruct Hr as [[e' q] [<- Hp]]. apply filter_In in Hp.
    destruct Hp as [Hp _]. cbn [r_unit r_kind snd]. split; [|left; reflexivity]. apply RUN. exact (proj1 (ok_state W L e' q Hp)).
  - intros r Hr. unfold occ_event in Hr. apply in_app_or in Hr. destruct Hr as [Hr|Hr].
    + destruct (memp (ev, 0) (l_bus (w_led W))); [|destruct Hr]. apply in_map_iff in Hr. destruct Hr as [[e' q] [<- Hp]].
      apply filter_In in Hp. destruct Hp as [Hp _]. cbn [r_unit r_kind snd]. split; [|right; left; reflexivity].
      apply RUN. exact (proj1 (ok_event W L e' q Hp)).
    + apply in_map_iff in Hr. destruct Hr as [[e' q] [<- Hp]]. apply filter_In in Hp. destruct Hp as [Hp C]. cbn [r_unit r_kind snd].
      split; [|right; left; reflexivity]. apply andb_true_iff in C. destruct C as [C _]. apply andb_true_iff in C. destruct C as [_ C]. apply negb_true_iff, N.eqb_neq in C. cbn in C.
      destruct (ok_bus W L e' q Hp) as [[Z _]|[R _]]; [contradiction|]. apply RUN. exact R.
  - intros r Hr. unfold occ_tick in Hr. apply in_flat_map in Hr. destruct Hr as [t [Ht Hr]].
    destruct (find_unit W t) as [u|] eqn:FU; [|destruct Hr].
    destruct (u_periodic u && negb (memn t (w_pending W)) && negb (memn t (w_zombie W)) && negb (u_crash u)); [|destruct Hr].
    destruct Hr as [<-|[]]. cbn [r_unit r_kind]. split; [|right; right; left; reflexivity].
    destruct (find_unit_some W t u FU) as [[f O] E]. rewrite <- E. apply (io_unit W I f u O).
  - intros r Hr. unfold occ_call, handler in Hr. destruct AO as [_ [_ [_ [D21 _]]]]. rewrite D21 in Hr.
    destruct (rev (filter (has_name W n) (l_svc (w_led W)))) as [|g r0] eqn:RV; [destruct Hr|]. destruct Hr as [<-|[]].
    cbn [r_unit r_kind]. split; [|right; right; right; reflexivity].
    assert (Hg : In g (l_svc (w_led W))).
    { assert (X : In g (rev (filter (has_name W n) (l_svc (w_led W))))) by (rewrite RV; left; reflexivity).
      apply in_rev in X. apply filter_In in X. tauto. }
    destruct (ok_svc W L g Hg) as [_ [f [Hf [E _]]]]. rewrite <- E. apply (io_gen W I f Hf).
Qed.

(* ---- composition ------------------------------------------------------------------------------------- *)
Lemma ctx_stop_func_inv2 cfg W f : all_off cfg -> Inv2 W -> In f (w_funcs W) ->
  Inv2 (ctx_stop_func cfg W f) /\ w_funcs (ctx_stop_func cfg W f) = w_funcs W.
Proof.
  intros AO [HI HO] Hf. destruct (ctx_stop_func_inv cfg W f AO HI Hf) as [H1 [[[T _] _] _]].
  split; [split; [exact H1|]|exact T]. unfold ctx_stop_func. destruct (f_new f) eqn:NF.
  - destruct (memn (f_gen f) (w_active W)) eqn:MA; [|exact HO]. apply memn_In in MA.
    destruct (memn (f_gen f) (w_delayed W)); [apply dm_discard_once|apply dm_stop_once]; assumption.
  - apply leg_func_stop_once; assumption.
Qed.

Lemma fold_inv2 {A} (g : world -> A -> world) (F : list func) (P : A -> Prop) :
  (forall W a, P a -> Inv2 W -> w_funcs W = F -> Inv2 (g W a) /\ w_funcs (g W a) = F) ->
  forall l W, (forall a, In a l -> P a) -> Inv2 W -> w_funcs W = F -> Inv2 (fold_left g l W) /\ w_funcs (fold_left g l W) = F.
Proof.
  intros H l. induction l as [|a r IH]; intros W HP HI HF; cbn [fold_left]; [split; assumption|].
  destruct (H W a (HP a (or_introl eq_refl)) HI HF) as [H1 F1]. apply IH; [intros x Hx; apply HP; right; exact Hx|exact H1|exact F1].
Qed.

Lemma Inv2_set_auto W x : Inv2 W -> Inv2 (set_auto W x).
Proof. intros [HI HO]. split; [apply Inv_set_auto; exact HI|apply (same_once W); try reflexivity; exact HO]. Qed.

Lemma ctx_stop_inv2 cfg c W : all_off cfg -> Inv2 W -> Inv2 (ctx_stop cfg c W) /\ w_funcs (ctx_stop cfg c W) = w_funcs W.
Proof.
  intros AO HI. unfold ctx_stop.
  destruct (fold_inv2 (fun W f => if N.eqb (f_ctx f) c then ctx_stop_func cfg W f else W) (w_funcs W) (fun f => In f (w_funcs W)))
    with (l := w_funcs W) (W := W) as [H1 F1]; try assumption || reflexivity || auto.
  - intros V a Pa HV FV. destruct (N.eqb (f_ctx a) c); [|split; assumption].
    destruct (ctx_stop_func_inv2 cfg V a AO HV) as [X Y]; [rewrite FV; exact Pa|]. split; [exact X|congruence].
  - split; [apply Inv2_set_auto; exact H1|exact F1].
Qed.

Lemma ctx_start_inv2 cfg c ord W : all_off cfg -> Inv2 W -> Inv2 (ctx_start cfg c ord W).
Proof.
  intros AO HI. unfold ctx_start.
  destruct (fold_inv2 (fun W f => if N.eqb (f_ctx f) c then ctx_start_func cfg W f else W) (w_funcs W) (fun f => In f (w_funcs W)))
    with (l := order_funcs ord (w_funcs W)) (W := W) as [H1 F1]; try assumption || reflexivity || (apply order_funcs_In).
  - intros V a Pa [HV OV] FV. destruct (N.eqb (f_ctx a) c); [|split; [split|]; assumption].
    assert (Ha : In a (w_funcs V)) by (rewrite FV; exact Pa).
    destruct (ctx_start_func_inv cfg V a AO HV Ha) as [X [[T _] _]]. split; [split; [exact X|apply ctx_start_func_once; assumption]|congruence].
  - apply Inv2_set_auto. exact H1.
Qed.

Lemma dropped_inv2 cfg g W : all_off cfg -> Inv2 W -> Inv2 (dropped cfg g W).
Proof.
  intros AO [HI HO]. split; [apply dropped_inv; assumption|]. unfold dropped.
  destruct (find_func W g) as [f|] eqn:FF; [|exact HO]. destruct (find_func_some W g f FF) as [Hf EG]. subst g.
  pose proof AO as [_ [D90 [_ [_ [_ D93]]]]]. rewrite D90, D93. destruct (f_new f) eqn:NF.
  - destruct (memn (f_gen f) (w_active W)) eqn:MA; [|exact HO]. apply memn_In in MA.
    destruct (memn (f_gen f) (w_delayed W)); [apply dm_discard_once|cbn [andb]; apply dm_stop_once]; assumption.
  - apply leg_func_stop_once; assumption.
Qed.

Lemma settle_inv2 W : Inv2 W -> Inv2 (settle W) /\ w_funcs (settle W) = w_funcs W.
Proof.
  intros HI. unfold settle.
  destruct (fold_inv2 (fun W u => prologue u W) (w_funcs W) (fun _ => True)) with (l := w_pending W ++ w_zombie W) (W := W) as [[H1 O1] F1];
    try assumption || reflexivity || auto.
  - intros V a _ [HV OV] FV. destruct (prologue_inv a V HV) as [X [[T _] _]]. split; [split; [exact X|apply prologue_once; assumption]|congruence].
  - split; [split; [apply do_reap_inv; exact H1|]|exact F1]. apply (same_once _ _ O1); reflexivity.
Qed.

Lemma resume_all_inv2 W : Inv2 W -> Inv2 (resume_all W) /\ w_funcs (resume_all W) = w_funcs W.
Proof.
  intros HI. unfold resume_all.
  apply (fold_inv2 (fun W g => dm_resume g W) (w_funcs W) (fun _ => True)); try assumption || reflexivity || auto.
  intros V a _ [HV OV] FV. destruct (dm_resume_inv a V HV) as [X [[T _] _]]. split; [split; [exact X|apply dm_resume_once; assumption]|congruence].
Qed.

Lemma unload_inv2 cfg W : all_off cfg -> Inv2 W -> Inv2 (unload cfg W).
Proof.
  intros AO HI. unfold unload.
  destruct (fold_inv2 (fun W c => ctx_stop cfg c W) (w_funcs W) (fun _ => True)) with (l := all_ctxs W) (W := W) as [H1 F1];
    try assumption || reflexivity || auto.
  - intros V a _ HV FV. destruct (ctx_stop_inv2 cfg a V AO HV) as [X Y]. split; [exact X|congruence].
  - destruct (resume_all_inv2 _ H1) as [H2 _]. apply settle_inv2. exact H2.
Qed.

Lemma step_inv2 cfg W o : all_off cfg -> Inv2 W -> Inv2 (step cfg W o).
Proof.
  intros AO HI2. pose proof HI2 as [HI HO]. destruct (is_occ o) eqn:OC.
  - split; [apply step_inv; assumption|apply occ_once; assumption].
  - destruct o; cbn [is_occ] in OC; try discriminate; cbn [step].
    + split; [apply define_inv; assumption|apply define_once; assumption].
    + apply dropped_inv2; assumption.
    + apply Inv2_set_auto. exact HI2.
    + apply ctx_start_inv2; assumption.
    + apply ctx_stop_inv2; assumption.
    + apply unload_inv2; assumption.
    + split; [apply prologue_inv; exact HI|apply prologue_once; assumption].
    + split; [apply dm_resume_inv; exact HI|apply dm_resume_once; assumption].
    + apply resume_all_inv2. exact HI2.
    + split; [apply do_reap_inv; exact HI|apply (same_once _ _ HO); reflexivity].
    + apply settle_inv2. exact HI2.
    + split; [apply crash_all_inv; assumption|apply crash_all_once; assumption].
    + pose proof AO as [_ [_ [_ [_ [D92 _]]]]]. rewrite D92. apply ctx_start_inv2; assumption.
Qed.

Lemma run_ops_inv2 cfg ops : all_off cfg -> forall W, Inv2 W -> Inv2 (run_ops cfg ops W).
Proof.
  intros AO. unfold run_ops. induction ops as [|o r IH]; intros W HI; cbn [fold_left]; [exact HI|].
  apply IH. apply step_inv2; assumption.
Qed.

Theorem startup_shutdown_once cfg : all_off cfg -> forall ops : list op,
  let W := run_ops cfg ops world0 in
  forall f u, In f (w_funcs W) -> In u (f_units f) ->
    (count_run RStartup (u_id u) (w_log W) <= 1)%nat /\ (count_run RShutdown (u_id u) (w_log W) <= 1)%nat /\
    (In (u_id u) (w_running W) -> u_startup u = true -> u_crash u = false -> count_run RStartup (u_id u) (w_log W) = 1%nat) /\
    (In (f_gen f) (w_active W) -> count_run RShutdown (u_id u) (w_log W) = 0%nat) /\
    (f_new f = false -> ~ In (f_gen f) (w_active W) -> u_shutdown u = true -> count_run RShutdown (u_id u) (w_log W) = 1%nat).
Proof.
  intros AO ops W f u Hf Hu.
  destruct (run_ops_inv2 cfg ops AO world0 (conj Inv0 Once0)) as [_ [_ OU _]].
  destruct (OU f u (conj Hf Hu)) as [A [B [C [D E]]]]. repeat split; try assumption.
  destruct A as [A|[A _]]; fold W in A; rewrite A; lia.
Qed.

(* the counts are not vacuous: a unit with both flags, started, stopped *)
Example ex_once :
  let W := run_ops cfg_off ex_ops0 world0 in
  map (fun k => count_run k 2 (w_log W)) [RStartup; RShutdown; RState] = [1%nat; 1%nat; 1%nat] /\
  map (fun k => count_run k 4 (w_log W)) [RStartup; RShutdown; RState] = [1%nat; 0%nat; 1%nat].
Proof. vm_compute. split; reflexivity. Qed.
