(* Proofs/ZmqFraming.v — lossless framing for every frame list, every frame length < 2^64 and
   every fragmentation of the byte stream (C19, first sentence). *)
From PV Require Import Common.Util Gen.ZmqConsts Zmq.Framing Zmq.FramingCheck.
From Coq Require Import Lia.

Local Open Scope N_scope.

(* ---------- big endian ---------- *)
Lemma be_enc_length w n : length (be_enc w n) = w.
Proof. revert n; induction w as [|w IH]; intros n; cbn [be_enc]; [reflexivity|]. rewrite app_length, IH; cbn; lia. Qed.

Lemma be_dec_snoc l b : be_dec (l ++ [b]) = be_dec l * 256 + b.
Proof. unfold be_dec. rewrite fold_left_app. reflexivity. Qed.

Lemma be_dec_enc w n : n < 256 ^ N.of_nat w -> be_dec (be_enc w n) = n.
Proof.
  revert n; induction w as [|w IH]; intros n Hn.
  - cbn in *. unfold be_dec; cbn. lia.
  - cbn [be_enc]. rewrite be_dec_snoc, IH.
    + pose proof (N.div_mod n 256). lia.
    + rewrite Nat2N.inj_succ, N.pow_succ_r' in Hn. apply N.div_lt_upper_bound; lia.
Qed.

(* ---------- streams ---------- *)
Definition wf (s : stream) : Prop := Forall (fun c => c <> []) s.

Lemma firstn_nonnil {A} (k : nat) (c : list A) : c <> [] -> (0 < k)%nat -> firstn k c <> [].
Proof. destruct c, k; cbn; intros; try congruence; lia. Qed.

Lemma firstn_split {A} n (c R : list A) :
  firstn n (c ++ R) = firstn n c ++ firstn (n - length (firstn n c)) (skipn n c ++ R).
Proof.
  pose proof (firstn_skipn n c) as H. pose proof (firstn_le_length n c) as Hl.
  remember (firstn n c) as a. remember (skipn n c) as b. rewrite <- H.
  rewrite <- app_assoc, firstn_app. rewrite (@firstn_all2 _ n a Hl). reflexivity.
Qed.

Lemma skipn_split {A} n (c R : list A) :
  skipn n (c ++ R) = skipn (n - length (firstn n c)) (skipn n c ++ R).
Proof.
  pose proof (firstn_skipn n c) as H. pose proof (firstn_le_length n c) as Hl.
  remember (firstn n c) as a. remember (skipn n c) as b. rewrite <- H.
  rewrite <- app_assoc, skipn_app. rewrite (@skipn_all2 _ n a Hl). reflexivity.
Qed.

Lemma read_bytes_fuel_spec : forall fuel n acc s,
  wf s -> (n <= length (concat s))%nat -> (n <= fuel)%nat ->
  exists s', read_bytes_fuel fuel n acc s = Some (acc ++ firstn n (concat s), s')
             /\ wf s' /\ concat s' = skipn n (concat s).
Proof.
  induction fuel as [|fuel IH]; intros n acc s W L F.
  - assert (n = 0)%nat by lia; subst. exists s. cbn. rewrite app_nil_r. auto.
  - destruct n as [|m].
    + exists s. cbn. rewrite app_nil_r. auto.
    + cbn [read_bytes_fuel].
      destruct s as [|c r]; [cbn in L; lia|].
      inversion W as [|? ? Hc Wr]; subst.
      cbn [read_some].
      set (n := S m) in *.
      assert (Hg : firstn n c <> []) by (apply firstn_nonnil; [assumption|subst n; lia]).
      assert (Hpos : (0 < length (firstn n c))%nat) by (destruct (firstn n c); [congruence|cbn; lia]).
      destruct (firstn n c) as [|g0 g] eqn:Eg; [congruence|]. rewrite <- Eg in *. clear Hg.
      set (s1 := match skipn n c with [] => r | _ :: _ => skipn n c :: r end).
      assert (W1 : wf s1).
      { subst s1. destruct (skipn n c) eqn:Es; [assumption|]. constructor; [congruence|assumption]. }
      assert (C1 : concat s1 = skipn n c ++ concat r).
      { subst s1. destruct (skipn n c) eqn:Es; reflexivity. }
      assert (Lg : (length (firstn n c) <= n)%nat) by apply firstn_le_length.
      cbn [concat] in L. rewrite app_length in L.
      assert (Lc : length (firstn n c) = Nat.min n (length c)) by apply firstn_length.
      assert (Ls : length (skipn n c) = (length c - n)%nat) by apply skipn_length.
      destruct (IH (n - length (firstn n c))%nat (acc ++ firstn n c) s1 W1) as (s' & E & W' & C').
      { rewrite C1, app_length. lia. }
      { lia. }
      exists s'. rewrite E. split; [|split; [assumption|]].
      * rewrite <- app_assoc, C1. cbn [concat]. rewrite (firstn_split n c). reflexivity.
      * rewrite C', C1. cbn [concat]. rewrite (skipn_split n c). reflexivity.
Qed.

Lemma read_bytes_app : forall a b s, wf s -> concat s = a ++ b ->
  exists s', read_bytes (length a) s = Some (a, s') /\ wf s' /\ concat s' = b.
Proof.
  intros a b s W C. unfold read_bytes.
  destruct (read_bytes_fuel_spec (length a) (length a) [] s W) as (s' & E & W' & C').
  - rewrite C, app_length; lia.
  - lia.
  - exists s'. rewrite E, C' , C. cbn [app].
    rewrite firstn_app, Nat.sub_diag, firstn_all, firstn_O, app_nil_r.
    rewrite skipn_app, Nat.sub_diag, skipn_all. cbn. auto.
Qed.

Lemma read_bytesN_app : forall a b s, wf s -> concat s = a ++ b ->
  exists s', read_bytesN (N.of_nat (length a)) s = Some (a, s') /\ wf s' /\ concat s' = b.
Proof.
  intros a b s W C. unfold read_bytesN, stream_len.
  rewrite C, app_length, Nat2N.id.
  destruct (N.ltb_spec (N.of_nat (length a + length b)) (N.of_nat (length a))) as [H|H]; [lia|].
  apply read_bytes_app; assumption.
Qed.

(* ---------- facts about the regenerated constants (a changed constant breaks these) ---------- *)
Lemma consts_multipart :
  mp_flag_more = 1 /\ mp_flag_last = 0 /\ mp_long_add = 2 /\ mp_long_width = 8%nat /\
  mp_short_max < 256 /\ (mp_short_cmp = CmpLe \/ mp_short_cmp = CmpLt) /\
  rv_long_mask = 2 /\ rv_long_width = 8%nat /\ rv_cmd_mask = 4 /\ rv_final_cmds = [0; 2].
Proof. cbv. intuition (auto; try discriminate). Qed.

Definition len_ok (p : bytes) : Prop := N.of_nat (length p) < 2 ^ 64.

Lemma short_len_byte (p : bytes) : cmp_eval mp_short_cmp (N.of_nat (length p)) mp_short_max = true ->
  N.of_nat (length p) < 256.
Proof.
  destruct consts_multipart as (_ & _ & _ & _ & Hm & [Hc|Hc] & _); rewrite Hc; cbn [cmp_eval]; intros H.
  - apply N.leb_le in H. lia.
  - apply N.ltb_lt in H. lia.
Qed.

(* one frame is consumed by one iteration of recv's loop *)
Lemma recv_one : forall fuel s p tail parts more,
  wf s -> len_ok p -> concat s = enc_part more p ++ tail ->
  exists s', wf s' /\ concat s' = tail /\
    recv_loop (S fuel) s parts =
      if more then recv_loop fuel s' (parts ++ [p]) else RecvOk (parts ++ [p]) s'.
Proof.
  intros fuel s p tail parts more W L C.
  unfold enc_part in C.
  destruct (cmp_eval mp_short_cmp (N.of_nat (length p)) mp_short_max) eqn:Hs.
  - (* short frame: [cmd; len] ++ p *)
    pose proof (short_len_byte p Hs) as Hb.
    set (cmd := if more then mp_flag_more else mp_flag_last) in *.
    assert (C0 : concat s = [cmd] ++ ([N.of_nat (length p)] ++ (p ++ tail))).
    { rewrite C. cbn. reflexivity. }
    destruct (read_bytes_app [cmd] _ s W C0) as (s1 & E1 & W1 & C1).
    destruct (read_bytes_app [N.of_nat (length p)] _ s1 W1 C1) as (s2 & E2 & W2 & C2).
    destruct (read_bytesN_app p tail s2 W2 C2) as (s3 & E3 & W3 & C3).
    exists s3. split; [assumption|]. split; [assumption|].
    cbn [recv_loop]. cbn [length] in E1, E2. rewrite E1.
    assert (Hl : N.land cmd rv_long_mask =? 0 = true) by (subst cmd; destruct more; reflexivity).
    rewrite Hl, E2, E3.
    assert (Hc : N.land cmd rv_cmd_mask =? 0 = true) by (subst cmd; destruct more; reflexivity).
    rewrite Hc. subst cmd. destruct more; reflexivity.
  - (* long frame: [cmd + 2] ++ be_enc 8 len ++ p *)
    set (cmd := ((if more then mp_flag_more else mp_flag_last) + mp_long_add)) in *.
    assert (C0 : concat s = [cmd] ++ (be_enc mp_long_width (N.of_nat (length p)) ++ (p ++ tail))).
    { rewrite C. cbn [app]. rewrite <- !app_assoc. reflexivity. }
    destruct (read_bytes_app [cmd] _ s W C0) as (s1 & E1 & W1 & C1).
    destruct (read_bytes_app (be_enc mp_long_width (N.of_nat (length p))) _ s1 W1 C1) as (s2 & E2 & W2 & C2).
    destruct (read_bytesN_app p tail s2 W2 C2) as (s3 & E3 & W3 & C3).
    exists s3. split; [assumption|]. split; [assumption|].
    cbn [recv_loop]. cbn [length] in E1. rewrite E1.
    assert (Hl : N.land cmd rv_long_mask =? 0 = false) by (subst cmd; destruct more; reflexivity).
    rewrite Hl. rewrite be_enc_length in E2.
    change rv_long_width with mp_long_width. rewrite E2.
    rewrite be_dec_enc by (exact L). rewrite E3.
    assert (Hc : N.land cmd rv_cmd_mask =? 0 = true) by (subst cmd; destruct more; reflexivity).
    rewrite Hc. subst cmd. destruct more; reflexivity.
Qed.

Lemma enc_multipart_cons p q r : enc_multipart (p :: q :: r) = enc_part true p ++ enc_multipart (q :: r).
Proof. reflexivity. Qed.

Theorem recv_enc_multipart : forall parts s tail acc fuel,
  parts <> [] -> Forall len_ok parts -> wf s -> concat s = enc_multipart parts ++ tail ->
  (length parts <= fuel)%nat ->
  exists s', recv_loop fuel s acc = RecvOk (acc ++ parts) s' /\ wf s' /\ concat s' = tail.
Proof.
  induction parts as [|p r IH]; intros s tail acc fuel Hne HL W C F; [congruence|].
  inversion HL as [|? ? Lp Lr]; subst.
  destruct fuel as [|fuel]; [cbn in F; lia|].
  destruct r as [|q r].
  - cbn [enc_multipart] in C.
    destruct (recv_one fuel s p tail acc false W Lp C) as (s' & W' & C' & E).
    exists s'. rewrite E. auto.
  - rewrite enc_multipart_cons, <- app_assoc in C.
    destruct (recv_one fuel s p _ acc true W Lp C) as (s1 & W1 & C1 & E).
    rewrite E.
    destruct (IH s1 tail (acc ++ [p]) fuel) as (s' & E' & W' & C'); try assumption; [congruence| cbn in F |- *; lia|].
    exists s'. rewrite E', <- app_assoc. auto.
Qed.

Lemma enc_part_length more p : (2 <= length (enc_part more p))%nat.
Proof.
  unfold enc_part. destruct (cmp_eval _ _ _); cbn [app length]; [lia|].
  rewrite app_length, be_enc_length. change mp_long_width with 8%nat. lia.
Qed.

Lemma enc_multipart_length parts : (length parts <= length (enc_multipart parts))%nat.
Proof.
  induction parts as [|p r IH]; [cbn; lia|].
  destruct r as [|q r].
  - cbn [enc_multipart length]. pose proof (enc_part_length false p). lia.
  - rewrite enc_multipart_cons, app_length. pose proof (enc_part_length true p). cbn [length] in *. lia.
Qed.

(* The round trip, for every frame list, every frame length below 2^64, every trailing data and
   every fragmentation [s] of the byte stream. *)
Theorem multipart_roundtrip : forall parts tail s,
  parts <> [] -> Forall len_ok parts -> wf s -> concat s = enc_multipart parts ++ tail ->
  exists s', recv_multipart s = RecvOk parts s' /\ wf s' /\ concat s' = tail.
Proof.
  intros parts tail s Hne HL W C. unfold recv_multipart.
  apply (recv_enc_multipart parts s tail [] (S (stream_len s)) Hne HL W C).
  unfold stream_len. rewrite C, app_length. pose proof (enc_multipart_length parts). lia.
Qed.

(* send() / recv(multipart=False): the REP envelope is the two-frame message [empty; msg] *)
Lemma enc_single_is_multipart msg : enc_single msg = enc_multipart [[]; msg].
Proof.
  unfold enc_single, enc_multipart, enc_part. cbn [length N.of_nat].
  change sd_short_cmp with mp_short_cmp. change sd_short_max with mp_short_max.
  destruct (cmp_eval mp_short_cmp (N.of_nat (length msg)) mp_short_max); reflexivity.
Qed.

Theorem single_roundtrip : forall msg tail s,
  len_ok msg -> wf s -> concat s = enc_single msg ++ tail ->
  exists s', recv_single s = Some (msg, s') /\ wf s' /\ concat s' = tail.
Proof.
  intros msg tail s L W C. rewrite enc_single_is_multipart in C.
  destruct (multipart_roundtrip [[]; msg] tail s) as (s' & E & W' & C'); try assumption; [discriminate| |].
  - constructor; [unfold len_ok; cbn; lia | constructor; [exact L | constructor]].
  - exists s'. unfold recv_single. rewrite E. cbn. rewrite app_nil_r. auto.
Qed.

(* the fragmentations used by the correspondence harness are instances of [s] above *)
Lemma cut_stream_ok cuts : forall data, wf (cut_stream cuts data) /\ concat (cut_stream cuts data) = data.
Proof.
  induction cuts as [|c r IH]; intros data.
  - destruct data; cbn; [split; [constructor|reflexivity]|].
    split; [repeat constructor; discriminate| rewrite app_nil_r; reflexivity].
  - destruct data as [|d data']; [cbn; split; [constructor|reflexivity]|].
    cbn [cut_stream]. destruct (N.eqb_spec c 0) as [->|Hc]; [apply IH|].
    destruct (IH (skipn (N.to_nat c) (d :: data'))) as (W & C).
    split.
    + constructor; [|exact W]. apply firstn_nonnil; [discriminate|lia].
    + cbn [concat]. rewrite C. apply firstn_skipn.
Qed.

(* non-vacuity: a concrete three-frame message with a 300-byte frame, delivered in 7-byte pieces *)
Example roundtrip_instance :
  let parts := [[1; 2; 3]; []; repeat 7 300] in
  let s := cut_stream (repeat 7 60) (enc_multipart parts ++ [9; 9]) in
  Forall len_ok parts /\ wf s /\ recv_result_eqb (recv_multipart s) (RecvOk parts [[9; 9]]) = true.
Proof.
  cbv zeta. split; [|split].
  - repeat constructor; unfold len_ok; rewrite ?repeat_length; cbn; lia.
  - apply cut_stream_ok.
  - vm_compute. reflexivity.
Qed.

(* Model |= Spec, stated on the very functions the correspondence files evaluate: whenever the Model
   reproduces what the implementation did on a case ([fcase_model_ok]), that behaviour is a lossless
   round trip ([fcase_spec_ok]).  So a Spec failure can only come with a Model/code disagreement. *)
Definition fcase_wf (c : fcase) : Prop :=
  Forall len_ok (map rle_expand (fc_parts c)) /\ (fc_single c = true -> exists p, fc_parts c = [p]).

Theorem fcase_model_implies_spec : forall c, fcase_wf c -> fcase_model_ok c = true -> fcase_spec_ok c = true.
Proof.
  intros c [HL Hs] Hm. unfold fcase_model_ok in Hm. unfold fcase_spec_ok.
  destruct (fc_parts c) as [|p0 ps0] eqn:Ep; [reflexivity|].
  destruct (fc_sent c) as [sent|]; [|discriminate].
  apply andb_true_iff in Hm. destruct Hm as [Hsent Hrecv].
  apply bytes_eqb_eq in Hsent. rewrite <- Hsent in Hrecv. clear Hsent sent.
  destruct (cut_stream_ok (fc_cuts c) (model_sent c ++ rle_expand (fc_trail c))) as (W & C).
  set (s := cut_stream (fc_cuts c) (model_sent c ++ rle_expand (fc_trail c))) in *.
  unfold model_sent in C. rewrite Ep in C.
  destruct (fc_single c) eqn:Es.
  - destruct (Hs eq_refl) as (p & Hp). inversion Hp; subst p ps0. clear Hp Hs. rename p0 into p.
    cbn [map hd] in C, HL. rewrite enc_single_is_multipart in C.
    destruct (multipart_roundtrip [[]; rle_expand p] (rle_expand (fc_trail c)) s) as (s' & E & W' & C'); try assumption; [discriminate| |].
    { constructor; [unfold len_ok; cbn; lia|exact HL]. }
    rewrite E in Hrecv. destruct (fc_recv c) as [ps rest| | |]; try discriminate.
    cbn [robs_matches robs_of] in Hrecv. rewrite C' in Hrecv.
    cbn [map concat app] in Hrecv |- *. rewrite app_nil_r. rewrite app_nil_r in Hrecv. exact Hrecv.
  - destruct (multipart_roundtrip (map rle_expand (p0 :: ps0)) (rle_expand (fc_trail c)) s) as (s' & E & W' & C'); try assumption; [discriminate|].
    rewrite E in Hrecv. destruct (fc_recv c) as [ps rest| | |]; try discriminate.
    cbn [robs_matches robs_of] in Hrecv. rewrite C' in Hrecv. exact Hrecv.
Qed.
