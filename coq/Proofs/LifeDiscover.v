(* Proofs/LifeDiscover.v — facts about discover (glob_read_files driven by the regenerated load_paths). *)
From PV Require Import Common.Util Life.ReloadBase Gen.ReloadConsts Life.Modules Life.Reload Life.ReloadPlanSpec
  Proofs.LifeReloadBase Proofs.LifePlan.
From Coq Require Import Lia.

(* what one discovered entry says about the tree *)
Record entry_ok (t : tree) (k : apps_config) (s : sfile) : Prop := {
  eo_file : exists f, In (sf_path s, f) t /\ sf_gen s = f_gen f /\ sf_mtime s = f_mtime f /\ sf_imps s = f_imps f;
  eo_visible : hashed (sf_path s) = false;
  eo_row : exists lp, In lp load_paths /\ lp_match lp (sf_path s) = true /\ sf_auto s = lp_auto lp
             /\ sf_name s = match lp_base lp with None => top_root :: strip_init (sf_path s) | Some _ => strip_init (sf_path s) end
             /\ (if lp_check lp then exists v, cfg_get k (app_of (lp_base lp) (sf_name s)) = Some v /\ sf_cfg s = Some v
                 else sf_cfg s = None);
  eo_rel : sf_rel s = if ends_slash_init (sf_path s) then Some (sf_path s) else None;
  eo_force : sf_force s = false }.

Definition disc_inv (t : tree) (k : apps_config) (acc : list sfile) : Prop :=
  NoDup (map sf_name acc) /\ forall s, In s acc -> entry_ok t k s.

Lemma sf_has_false acc n : sf_has acc n = false -> ~ In n (map sf_name acc).
Proof.
  intros H HI. apply in_map_iff in HI. destruct HI as (s & E & HI).
  unfold sf_has in H. assert (existsb (fun s0 => nl_eqb (sf_name s0) n) acc = true); [|congruence].
  apply existsb_exists. exists s. split; [exact HI|]. rewrite E. apply nl_eqb_refl.
Qed.

Lemma NoDup_snoc {A} (l : list A) x : NoDup l -> ~ In x l -> NoDup (l ++ [x]).
Proof.
  induction l as [|y l IH]; cbn; intros H Hn; [constructor; [intros []|constructor]|].
  inversion H as [|? ? Hnot H']; subst. constructor.
  - rewrite in_app_iff. cbn. intros [HI|[E|[]]]; [tauto|]. apply Hn. auto.
  - apply IH; [exact H'|]. intros HI. apply Hn. auto.
Qed.

Lemma glob_entry_inv t k lp acc pf : In lp load_paths -> In pf t -> disc_inv t k acc -> disc_inv t k (glob_entry lp k acc pf).
Proof.
  intros Hlp Hpf [Hnd Hok]. destruct pf as [p f]. unfold glob_entry.
  destruct (lp_match lp p) eqn:Em; cbn [negb]; [|split; assumption].
  destruct (hashed p) eqn:Eh; [split; assumption|].
  set (name := match lp_base lp with None => top_root :: strip_init p | Some _ => strip_init p end).
  destruct (sf_has acc name) eqn:Ehas; [split; assumption|].
  apply sf_has_false in Ehas.
  assert (Hnew : forall cfg, (if lp_check lp then exists v, cfg_get k (app_of (lp_base lp) name) = Some v /\ cfg = Some v else cfg = None) ->
            disc_inv t k (acc ++ [{| sf_name := name; sf_path := p; sf_rel := if ends_slash_init p then Some p else None; sf_cfg := cfg;
                                     sf_gen := f_gen f; sf_mtime := f_mtime f; sf_imps := f_imps f; sf_auto := lp_auto lp; sf_force := false |}])).
  { intros cfg Hcfg. split.
    - rewrite map_app. cbn. apply NoDup_snoc; assumption.
    - intros s Hs. apply in_app_or in Hs. destruct Hs as [Hs|[<-|[]]]; [apply Hok; exact Hs|].
      split; cbn; auto.
      + exists f. auto.
      + exists lp. auto. }
  destruct (lp_check lp) eqn:Ec.
  - destruct (cfg_get k (app_of (lp_base lp) name)) as [v|] eqn:Eg; [|split; assumption].
    apply Hnew. eauto.
  - apply Hnew. reflexivity.
Qed.

Lemma fold_inv {A B} (P : A -> Prop) (step : A -> B -> A) (l : list B) :
  (forall a x, In x l -> P a -> P (step a x)) -> forall a, P a -> P (fold_left step l a).
Proof.
  induction l as [|x l IH]; intros H a Ha; cbn; [exact Ha|].
  apply IH; [intros a' y Hy; apply H; cbn; auto|apply H; cbn; auto].
Qed.

Theorem discover_inv t k : disc_inv t k (discover t k).
Proof.
  unfold discover. apply (fold_inv (disc_inv t k)).
  - intros acc lp Hlp Hacc. apply (fold_inv (disc_inv t k)); [|exact Hacc].
    intros acc' pf Hpf Hacc'. apply glob_entry_inv; assumption.
  - split; [constructor|intros s []].
Qed.

Corollary discover_uniq t k : uniq_files (discover t k).
Proof. apply discover_inv. Qed.
Corollary discover_fresh t k : fresh (discover t k).
Proof. intros s Hs. apply (discover_inv t k). exact Hs. Qed.
Corollary discover_entry_ok t k s : In s (discover t k) -> entry_ok t k s.
Proof. apply discover_inv. Qed.

(* ---------- discover = first occurrence, in (row, sorted path) order, among the admissible candidates ---------- *)
Definition entry_of (lp : load_path) (k : apps_config) (pf : path * file) : option sfile :=
  let '(p, f) := pf in
  if negb (lp_match lp p) then None else
  if hashed p then None else
  let name := match lp_base lp with None => top_root :: strip_init p | Some _ => strip_init p end in
  let mk := fun cfg => {| sf_name := name; sf_path := p; sf_rel := if ends_slash_init p then Some p else None; sf_cfg := cfg;
                          sf_gen := f_gen f; sf_mtime := f_mtime f; sf_imps := f_imps f; sf_auto := lp_auto lp; sf_force := false |} in
  if lp_check lp then
    match cfg_get k (app_of (lp_base lp) name) with
    | None => None
    | Some v => Some (mk (Some v))
    end
  else Some (mk None).

Definition add_first (acc : list sfile) (x : sfile) : list sfile := if sf_has acc (sf_name x) then acc else acc ++ [x].

Lemma glob_entry_entry_of lp k acc pf :
  glob_entry lp k acc pf = match entry_of lp k pf with Some x => add_first acc x | None => acc end.
Proof.
  destruct pf as [p f]. unfold glob_entry, entry_of, add_first.
  destruct (negb (lp_match lp p)); [reflexivity|]. destruct (hashed p); [reflexivity|].
  destruct (lp_check lp).
  - destruct (cfg_get k _); cbn [sf_name]; [reflexivity|]. destruct (sf_has acc _); reflexivity.
  - cbn [sf_name]. reflexivity.
Qed.

Definition row_cands (k : apps_config) (t : tree) (lp : load_path) : list sfile :=
  flat_map (fun pf => match entry_of lp k pf with Some x => [x] | None => [] end) t.
Definition cands (t : tree) (k : apps_config) : list sfile := flat_map (row_cands k t) load_paths.

Lemma sf_find_app a b n : sf_find (a ++ b) n = match sf_find a n with Some s => Some s | None => sf_find b n end.
Proof.
  unfold sf_find. induction a as [|x a IH]; cbn; [reflexivity|]. destruct (nl_eqb (sf_name x) n); [reflexivity|exact IH].
Qed.

Lemma sf_find_None_has l n : sf_find l n = None <-> sf_has l n = false.
Proof.
  split.
  - intros H. destruct (sf_has l n) eqn:E; [|reflexivity]. apply sf_find_has in E. destruct E as (s & E). congruence.
  - intros H. destruct (sf_find l n) eqn:E; [|reflexivity]. assert (sf_has l n = true) by (apply sf_find_has; eauto). congruence.
Qed.

Lemma add_first_fold l : forall acc n,
  sf_find (fold_left add_first l acc) n = match sf_find acc n with Some s => Some s | None => sf_find l n end.
Proof.
  induction l as [|x l IH]; intros acc n; cbn [fold_left].
  - destruct (sf_find acc n); reflexivity.
  - rewrite IH. unfold add_first. destruct (sf_has acc (sf_name x)) eqn:Eh.
    + destruct (sf_find acc n) eqn:Ea; [reflexivity|].
      unfold sf_find at 2. cbn [find]. destruct (nl_eqb (sf_name x) n) eqn:En; [|reflexivity].
      apply nl_eqb_eq in En. subst n. apply sf_find_None_has in Ea. congruence.
    + rewrite sf_find_app. destruct (sf_find acc n); [reflexivity|].
      unfold sf_find at 1 3. cbn [find]. destruct (nl_eqb (sf_name x) n); reflexivity.
Qed.

Lemma fold_glob_row lp k t acc : fold_left (glob_entry lp k) t acc = fold_left add_first (row_cands k t lp) acc.
Proof.
  unfold row_cands. revert acc. induction t as [|pf t IH]; intros acc; cbn [fold_left flat_map]; [reflexivity|].
  rewrite glob_entry_entry_of, IH, fold_left_app. destruct (entry_of lp k pf); reflexivity.
Qed.

Theorem discover_find t k n : sf_find (discover t k) n = sf_find (cands t k) n.
Proof.
  unfold discover, cands.
  assert (H : forall rows acc, fold_left (fun acc lp => fold_left (glob_entry lp k) t acc) rows acc
                             = fold_left add_first (flat_map (row_cands k t) rows) acc).
  { induction rows as [|lp rows IH]; intros acc; cbn [fold_left flat_map]; [reflexivity|].
    rewrite IH, fold_glob_row, fold_left_app. reflexivity. }
  rewrite H, add_first_fold. reflexivity.
Qed.

Lemma row_cands_In k t lp x : In x (row_cands k t lp) <-> exists pf, In pf t /\ entry_of lp k pf = Some x.
Proof.
  unfold row_cands. rewrite in_flat_map. split.
  - intros (pf & Hpf & Hx). exists pf. split; [exact Hpf|]. destruct (entry_of lp k pf); [destruct Hx as [->|[]]; reflexivity|destruct Hx].
  - intros (pf & Hpf & E). exists pf. split; [exact Hpf|]. rewrite E. cbn; auto.
Qed.

(* ---------- the patterns of load_paths ---------- *)
Lemma gmatch_starpy p : gmatch [GStarPy] p = true <-> exists x, p = [x].
Proof.
  cbn. destruct p as [|x [|y r]]; split; try discriminate; try (intros (z & H); discriminate); eauto.
Qed.
Lemma gmatch_star_init p : gmatch [GStar; GInitPy] p = true <-> exists a, p = [a; s_init].
Proof.
  cbn. destruct p as [|a [|i [|z r]]]; split; try discriminate; try (intros (y & H); discriminate).
  - intros H. apply N.eqb_eq in H. subst. eauto.
  - intros (y & H). inversion H; subst. reflexivity.
Qed.
Lemma existsb_starpy_suffixes p : p <> [] -> existsb (gmatch [GStarPy]) (dir_suffixes p) = true.
Proof.
  induction p as [|d p IH]; [congruence|]. intros _. destruct p as [|e p]; [reflexivity|].
  change (dir_suffixes (d :: e :: p)) with ((d :: e :: p) :: dir_suffixes (e :: p)). cbn [existsb].
  rewrite IH by discriminate. apply orb_true_r.
Qed.
Lemma gmatch_starstar_py p : gmatch [GStarStar; GStarPy] p = true <-> p <> [].
Proof.
  cbn [gmatch]. split.
  - intros H ->. discriminate.
  - apply existsb_starpy_suffixes.
Qed.
Lemma gmatch_star_starstar_py p : gmatch [GStar; GStarStar; GStarPy] p = true <-> exists a r, p = a :: r /\ r <> [].
Proof.
  cbn [gmatch]. destruct p as [|a [|b r]].
  - split; [discriminate|intros (x & y & H & _); discriminate].
  - split; [discriminate|intros (x & y & H & Hn); inversion H; subst; congruence].
  - fold (gmatch [GStarStar; GStarPy] (b :: r)). rewrite gmatch_starstar_py. split; [intros _; exists a, (b :: r); split; [reflexivity|discriminate]|discriminate].
Qed.

Lemma load_paths_rows lp : In lp load_paths ->
  lp = {| lp_base := None; lp_pat := [GStarPy]; lp_check := false; lp_auto := true |} \/
  lp = {| lp_base := Some s_apps; lp_pat := [GStar; GInitPy]; lp_check := true; lp_auto := true |} \/
  lp = {| lp_base := Some s_apps; lp_pat := [GStarPy]; lp_check := true; lp_auto := true |} \/
  lp = {| lp_base := Some s_apps; lp_pat := [GStar; GStarStar; GStarPy]; lp_check := false; lp_auto := false |} \/
  lp = {| lp_base := Some s_modules; lp_pat := [GStar; GInitPy]; lp_check := false; lp_auto := false |} \/
  lp = {| lp_base := Some s_modules; lp_pat := [GStarPy]; lp_check := false; lp_auto := false |} \/
  lp = {| lp_base := Some s_modules; lp_pat := [GStar; GStarStar; GStarPy]; lp_check := false; lp_auto := false |} \/
  lp = {| lp_base := Some s_scripts; lp_pat := [GStarStar; GStarPy]; lp_check := false; lp_auto := true |}.
Proof. unfold load_paths. cbn [In]. intros H. repeat (destruct H as [<-|H]; [tauto|]). destruct H. Qed.
