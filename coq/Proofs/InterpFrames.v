(* Proofs/InterpFrames.v — C18 attribution: the formatter fold over pyscript's interpreter frames yields exactly
   CPython's traceback entries, for every program of the mini language, every call depth, every nesting of
   expression / statement nodes, every cause chain (simulation of the two algebras of the generic evaluator,
   induction on fuel).  Plus: the deviations of today's code refuted on witnesses, and the plain fragment on
   which today's code is right. *)
From PV Require Import Common.Util Interp.Frames.
From Coq Require Import Lia.

Local Open Scope N_scope.

(* ---------- relating the results of the two instances ---------- *)
Definition rel_res {X Y} (R : X -> Y -> Prop) (r1 : res X) (r2 : res Y) : Prop :=
  match r1, r2 with
  | RNormal, RNormal => True
  | RReturn, RReturn => True
  | RFuel, RFuel => True
  | RRaise x, RRaise y => R x y
  | _, _ => False
  end.

Lemma rel_wrap {X Y} (R R' : X -> Y -> Prop) f g r1 r2 :
  (forall x y, R x y -> R' (f x) (g y)) -> rel_res R r1 r2 -> rel_res R' (wrap f r1) (wrap g r2).
Proof. intros H; destruct r1, r2; cbn; auto. Qed.

Lemma rel_list {X Y A} (R : X -> Y -> Prop) (ev1 : A -> res X) (ev2 : A -> res Y) l :
  (forall a, rel_res R (ev1 a) (ev2 a)) -> rel_res R (g_list ev1 l) (g_list ev2 l).
Proof.
  intros H; induction l as [|a l IH]; cbn; [exact I|].
  specialize (H a). destruct (ev1 a), (ev2 a); cbn in *; auto; contradiction.
Qed.

Lemma rel_ret {X Y} (R : X -> Y -> Prop) r1 r2 :
  rel_res R r1 r2 -> rel_res R (ret_to_normal r1) (ret_to_normal r2).
Proof. destruct r1, r2; cbn; auto. Qed.

(* ---------- the formatter on conformant switches ---------- *)
Definition base (st : fstate) : list triple := if s_fresh st then s_rstack st else tl (s_rstack st).
Definition in_act (a : act) (st : fstate) : Prop :=
  match s_func st with
  | Some nm => nm = a_name a /\ s_file st = Some (a_file a)
  | None => True
  end.
Definition good (a : act) : Prop := a_file a <> 0.

Lemma run_cons dv st f F : run_frames dv st (f :: F) = run_frames dv (step dv st f) F.
Proof. reflexivity. Qed.
Lemma run_app dv st F1 F2 : run_frames dv st (F1 ++ F2) = run_frames dv (run_frames dv st F1) F2.
Proof. unfold run_frames. apply fold_left_app. Qed.

Lemma line_all_off n : node_ps_line all_off n = node_py_line n.
Proof. unfold node_ps_line, node_py_line. destruct (nk n); reflexivity. Qed.

Lemma ast_frame_off (cx : ctxinfo) (a : act) (l : line) st :
  in_act a st ->
  let st' := ast_frame all_off cx a l st in
  s_rstack st' = (a_file a, a_name a, l) :: base st /\ s_fresh st' = false /\ in_act a st' /\ base st' = base st.
Proof.
  intros H. unfold ast_frame, in_act, base, file_or_ctx in *. cbn [d_chain_ctx d_merge_same_name all_off].
  destruct st as [fn fl ln fr rs]; cbn [s_func s_file s_fresh s_rstack] in *.
  destruct fn as [nm|].
  - destruct H as [-> ->]. cbn [s_func s_file s_fresh s_rstack].
    destruct rs as [|last rest]; destruct fr; cbn; auto.
  - cbn [s_func s_file s_fresh s_rstack].
    destruct rs as [|last rest]; destruct fr; cbn; auto.
Qed.

Lemma is_script_good (a : act) (l : line) : good a -> is_script (a_file a, a_name a, l) = true.
Proof. unfold good, is_script. intros H. destruct (N.eqb_spec (a_file a) 0); [contradiction|reflexivity]. Qed.

Lemma is_script_real nm l : is_script (0, nm, l) = false.
Proof. reflexivity. Qed.

(* what a frame list F, read from a state inside activation a, contributes: exactly the entries T *)
Definition head_ok (a : act) (F : list frame) (T : list triple) : Prop :=
  forall st, in_act a st ->
    filter is_script (s_rstack (run_frames all_off st F)) = rev T ++ filter is_script (base st).

Lemma head_ok_raise (cx : ctxinfo) (a : act) (l : line) : good a -> head_ok a [FAeval cx a (Some l); FOther] [(a_file a, a_name a, l)].
Proof.
  intros G st H. rewrite !run_cons. cbn [run_frames fold_left step].
  destruct (ast_frame_off cx a l st H) as (E & _). rewrite E. cbn [filter rev app].
  rewrite (is_script_good a l G). reflexivity.
Qed.

Lemma head_ok_node (cx : ctxinfo) (a : act) (l : line) F T : head_ok a F T -> head_ok a (FAeval cx a (Some l) :: FOther :: F) T.
Proof.
  intros HF st H. rewrite !run_cons. cbn [step].
  destruct (ast_frame_off cx a l st H) as (_ & _ & H' & B). rewrite (HF _ H'), B. reflexivity.
Qed.

Lemma head_ok_other a F T : head_ok a F T -> head_ok a (FOther :: F) T.
Proof. intros HF st H. rewrite run_cons. cbn [step]. apply HF, H. Qed.

Lemma in_act_callfunc st nm (f : efunc) :
  in_act (func_act f) (step all_off (step all_off (step all_off st (FCallFunc nm)) FOther)
                            (FEvalFuncCall (ef_file f) (FnNamed (ef_name f)))).
Proof. cbn [step]. destruct (s_func st); cbn; auto. Qed.

Lemma head_ok_call (cx : ctxinfo) (a : act) (l : line) nm (f : efunc) F T :
  good a -> head_ok (func_act f) F T ->
  head_ok a (FAeval cx a (Some l) :: FOther :: FCallFunc nm :: FOther :: FEvalFuncCall (ef_file f) (FnNamed (ef_name f)) :: F)
            ((a_file a, a_name a, l) :: T).
Proof.
  intros G HF st H. rewrite !run_cons.
  destruct (ast_frame_off cx a l st H) as (E & Fr & _ & _).
  set (st1 := step all_off st (FAeval cx a (Some l))) in *.
  change (step all_off st1 FOther) with st1.
  set (st3 := step all_off (step all_off (step all_off st1 (FCallFunc nm)) FOther) (FEvalFuncCall (ef_file f) (FnNamed (ef_name f)))).
  assert (I3 : in_act (func_act f) st3) by apply in_act_callfunc.
  assert (B3 : base st3 = s_rstack st1).
  { unfold st3, base. cbn [step]. destruct (s_func st1); reflexivity. }
  rewrite (HF st3 I3), B3. change (s_rstack st1) with (s_rstack (ast_frame all_off cx a l st)). rewrite E.
  cbn [filter rev]. rewrite (is_script_good a l G), <- app_assoc. reflexivity.
Qed.

Lemma filter_rev_script T : filter is_script (rev T) = rev (filter is_script T).
Proof.
  induction T as [|t T IH]; [reflexivity|]. cbn [rev filter]. rewrite filter_app, IH. cbn [filter].
  destruct (is_script t); cbn [rev]; [reflexivity|apply app_nil_r].
Qed.

(* the formatted report of one frame list, read from the initial state *)
Lemma head_ok_init a F T : head_ok a F T -> script_frames (format_stack all_off F) = T.
Proof.
  intros HF. unfold script_frames, format_stack. rewrite filter_rev_script, (HF init_st I). cbn.
  rewrite app_nil_r. apply rev_involutive.
Qed.

Lemma head_ok_import (cx : ctxinfo) (a : act) (l : line) (m : emod) F T :
  good a -> head_ok (mod_act m) F T ->
  head_ok a (FAeval cx a (Some l) :: FOther :: FReal 0 nm_module_import 0 :: FReal 0 nm_load_file 0
             :: FAstEval :: FAeval (mod_ctx m) (mod_act m) None :: FOther :: F)
            ((a_file a, a_name a, l) :: T).
Proof.
  intros G HF st H. rewrite !run_cons.
  destruct (ast_frame_off cx a l st H) as (E & _).
  set (st1 := step all_off st (FAeval cx a (Some l))) in *.
  set (st5 := step all_off (step all_off (step all_off (step all_off (step all_off (step all_off st1 FOther)
               (FReal 0 nm_module_import 0)) (FReal 0 nm_load_file 0)) FAstEval) (FAeval (mod_ctx m) (mod_act m) None)) FOther).
  assert (I5 : in_act (mod_act m) st5) by (cbn; exact I).
  assert (B5 : base st5 = (0, FnNamed nm_load_file, 0) :: (0, FnNamed nm_module_import, 0) :: s_rstack st1) by reflexivity.
  rewrite (HF st5 I5), B5. change (s_rstack st1) with (s_rstack (ast_frame all_off cx a l st)). rewrite E.
  cbn [filter rev]. rewrite !is_script_real, (is_script_good a l G), <- app_assoc. reflexivity.
Qed.

Lemma head_ok_enter_mod (m : emod) F T :
  head_ok (mod_act m) F T ->
  script_frames (format_stack all_off (FReal 0 nm_load_file 0 :: FAstEval :: FAeval (mod_ctx m) (mod_act m) None :: FOther :: F)) = T.
Proof.
  intros HF. unfold script_frames, format_stack. rewrite filter_rev_script, !run_cons.
  set (st4 := step all_off (step all_off (step all_off (step all_off init_st (FReal 0 nm_load_file 0)) FAstEval)
               (FAeval (mod_ctx m) (mod_act m) None)) FOther).
  rewrite (HF st4 I). cbn. rewrite app_nil_r. apply rev_involutive.
Qed.

Lemma head_ok_enter_func' (f : efunc) (direct : bool) nm F T :
  head_ok (func_act f) F T ->
  script_frames (format_stack all_off (FReal 0 nm_catch_site 0 :: (if direct then [] else [FCallFunc nm]) ++
                        FEvalFuncCall (ef_file f) (FnNamed (ef_name f)) :: F)) = T.
Proof.
  intros HF. unfold script_frames, format_stack. rewrite filter_rev_script, run_cons.
  set (st1 := step all_off init_st (FReal 0 nm_catch_site 0)).
  assert (E : run_frames all_off st1 ((if direct then [] else [FCallFunc nm]) ++ FEvalFuncCall (ef_file f) (FnNamed (ef_name f)) :: F)
              = run_frames all_off (mkSt (Some (FnNamed (ef_name f))) (Some (ef_file f)) 1 true [(0, FnNamed nm_catch_site, 0)]) F).
  { destruct direct; reflexivity. }
  rewrite E, HF; [|cbn; auto]. cbn. rewrite app_nil_r. apply rev_involutive.
Qed.

(* frames of natively compiled script code are appended as they are *)
Lemma run_natives dv st es :
  s_rstack (run_frames dv st (map (native_frame dv) es))
  = rev (map (fun e => let '(f, pyname, psname, l) := e in (f, FnNamed (if d_lambda_name dv then psname else pyname), l)) es)
    ++ s_rstack st.
Proof.
  revert st. induction es as [|[[[f pyn] psn] l] es IH]; intros st; [reflexivity|].
  cbn [map native_frame]. rewrite run_cons, IH. cbn [step s_rstack rev]. rewrite <- app_assoc. reflexivity.
Qed.

Lemma head_ok_native (cx : ctxinfo) (a : act) (l : line) es :
  good a ->
  head_ok a (FAeval cx a (Some l) :: FOther :: FCallFunc None :: map (native_frame all_off) es)
            ((a_file a, a_name a, l) :: filter is_script (map native_entry es)).
Proof.
  intros G st H. rewrite !run_cons.
  destruct (ast_frame_off cx a l st H) as (E & _).
  set (st1 := step all_off st (FAeval cx a (Some l))) in *.
  change (step all_off st1 FOther) with st1.
  set (st2 := step all_off st1 (FCallFunc None)).
  assert (E2 : s_rstack st2 = s_rstack st1) by (unfold st2; cbn [step]; destruct (s_func st1); reflexivity).
  rewrite run_natives, E2. change (s_rstack st1) with (s_rstack (ast_frame all_off cx a l st)). rewrite E.
  cbn [d_lambda_name all_off].
  rewrite filter_app, filter_rev_script. cbn [filter rev]. rewrite (is_script_good a l G), <- app_assoc.
  cbn [app]. reflexivity.
Qed.

(* ---------- the relation between an exception as frames and as traceback entries ---------- *)
Definition R (a : act) (x : exc_ps) (y : exc_py) : Prop :=
  match x, y with
  | F :: C, T :: CT => head_ok a F T /\ format_exc all_off C = CT
  | _, _ => False
  end.

Lemma disp_off f : disp_name all_off f = FnNamed (ef_name f).
Proof. reflexivity. Qed.

Lemma R_raise cx a n : good a -> R a (x_raise (ps_alg all_off) cx a n) (x_raise py_alg cx a n).
Proof. intros G. cbn. rewrite line_all_off. split; [apply head_ok_raise, G|reflexivity]. Qed.

Lemma R_native cx a n es : good a -> R a (x_native (ps_alg all_off) cx a n es) (x_native py_alg cx a n es).
Proof. intros G. cbn. rewrite line_all_off. split; [apply head_ok_native, G|reflexivity]. Qed.

Lemma R_node cx a n x y : R a x y -> R a (x_node (ps_alg all_off) cx a n x) (x_node py_alg cx a n y).
Proof.
  destruct x as [|F C], y as [|T CT]; cbn; try contradiction. intros [H E]. split; [apply head_ok_node, H|exact E].
Qed.

Lemma R_call cx a n f x y :
  good a -> R (func_act f) x y -> R a (x_call (ps_alg all_off) cx a n f x) (x_call py_alg cx a n f y).
Proof.
  intros G. destruct x as [|F C], y as [|T CT]; cbn; try contradiction. intros [H E]. split; [|exact E].
  rewrite line_all_off. apply head_ok_call; assumption.
Qed.

Lemma R_import cx a n m x y :
  good a -> R (mod_act m) x y -> R a (x_import (ps_alg all_off) cx a n m x) (x_import py_alg cx a n m y).
Proof.
  intros G. destruct x as [|F C], y as [|T CT]; cbn; try contradiction. intros [H E]. split; [|exact E].
  rewrite line_all_off. apply head_ok_import; assumption.
Qed.

Lemma R_chain cx a nt nr x y :
  good a -> R a x y -> R a (x_chain (ps_alg all_off) cx a nt nr x) (x_chain py_alg cx a nt nr y).
Proof.
  intros G. destruct x as [|F C], y as [|T CT]; cbn [R]; try contradiction. intros [H E].
  cbn [x_chain ps_alg py_alg on_head]. split.
  - rewrite !line_all_off. apply head_ok_node. intros st Hs. apply (head_ok_raise cx a (node_py_line nr) G st Hs).
  - cbn [format_exc map]. f_equal; [|exact E]. apply (head_ok_init a). apply head_ok_other, H.
Qed.

Lemma format_exc_app dv C D : format_exc dv (C ++ D) = format_exc dv C ++ format_exc dv D.
Proof. apply map_app. Qed.

Lemma R_cause a x y : R a x y -> R a (x_cause (ps_alg all_off) x) (x_cause py_alg y).
Proof.
  destruct x as [|F C], y as [|T CT]; cbn [R]; try contradiction. intros [H E].
  cbn [x_cause ps_alg py_alg app]. split; [exact H|]. rewrite format_exc_app, E. reflexivity.
Qed.

(* unfolding equations of the mutual fixpoint, stated with the constants' names *)
Lemma g_expr_S {X} (A : alg X) p fu cx a e :
  g_expr A p (S fu) cx a e =
  match e with
  | ENative n es => RRaise (x_native A cx a n es)
  | EAtom _ => RNormal
  | EFault n => RRaise (x_raise A cx a n)
  | EOp n subs fault =>
      match wrap (x_node A cx a n) (g_list (g_expr A p fu cx a) subs) with
      | RNormal => if fault then RRaise (x_raise A cx a n) else RNormal
      | o => o
      end
  | ECall n args c =>
      match wrap (x_node A cx a n) (g_list (g_expr A p fu cx a) args) with
      | RNormal =>
          match c with
          | CFunc k =>
              match nth_error (p_funcs p) k with
              | None => RRaise (x_raise A cx a n)
              | Some f => ret_to_normal (wrap (x_call A cx a n f) (g_list (g_stmt A p fu cx (func_act f)) (ef_body f)))
              end
          | CMod k =>
              match nth_error (p_mods p) k with
              | None => RRaise (x_raise A cx a n)
              | Some m => ret_to_normal (wrap (x_import A cx a n m) (g_list (g_stmt A p fu (mod_ctx m) (mod_act m)) (em_body m)))
              end
          end
      | o => o
      end
  end.
Proof. reflexivity. Qed.

Lemma g_stmt_S {X} (A : alg X) p fu cx a s :
  g_stmt A p (S fu) cx a s =
  match s with
  | SExpr n es => wrap (x_node A cx a n) (g_list (g_expr A p fu cx a) es)
  | SRaise n cause => RRaise (if cause then x_cause A (x_raise A cx a n) else x_raise A cx a n)
  | SReturn n es =>
      match wrap (x_node A cx a n) (g_list (g_expr A p fu cx a) es) with
      | RNormal => RReturn
      | o => o
      end
  | SBlock n k hdr enter body =>
      match wrap (x_node A cx a n) (g_list (g_expr A p fu cx a) hdr) with
      | RNormal => if enter then wrap (x_node A cx a n) (g_list (g_stmt A p fu cx a) body) else RNormal
      | RRaise x =>
          match k with
          | BkPlain => RRaise x
          | BkWith => match x_with_hdr A x with Some x' => RRaise x' | None => RNormal end
          end
      | o => o
      end
  | STry n body h =>
      match g_list (g_stmt A p fu cx a) body with
      | RRaise x =>
          match h with
          | HNone => RRaise (x_node A cx a n x)
          | HSwallow => RNormal
          | HRaise nr => RRaise (x_chain A cx a n nr x)
          end
      | o => o
      end
  end.
Proof. reflexivity. Qed.

(* ---------- simulation ---------- *)
Definition funcs_good (p : prog) : Prop :=
  (forall k f, nth_error (p_funcs p) k = Some f -> good (func_act f)) /\
  (forall k m, nth_error (p_mods p) k = Some m -> good (mod_act m)).

Lemma wf_funcs_good p : wf_prog p = true -> funcs_good p.
Proof.
  unfold wf_prog. rewrite andb_true_iff, !forallb_forall. intros [Hf Hm]. split.
  - intros k f E. apply nth_error_In in E. specialize (Hf _ E). unfold good; cbn.
    destruct (N.eqb_spec (ef_file f) 0); [discriminate|assumption].
  - intros k m E. apply nth_error_In in E. specialize (Hm _ E). unfold good; cbn.
    destruct (N.eqb_spec (em_file m) 0); [discriminate|assumption].
Qed.

Ltac same_shape H :=
  match type of H with
  | rel_res _ ?r1 ?r2 => destruct r1, r2; cbn [rel_res] in H |- *; try contradiction; try exact I; try exact H
  end.

Lemma sim p : funcs_good p -> forall fuel,
  (forall cx a e, good a -> rel_res (R a) (g_expr (ps_alg all_off) p fuel cx a e) (g_expr py_alg p fuel cx a e)) /\
  (forall cx a s, good a -> rel_res (R a) (g_stmt (ps_alg all_off) p fuel cx a s) (g_stmt py_alg p fuel cx a s)).
Proof.
  intros [GF GM]. induction fuel as [|fu [IHe IHs]]; [split; intros; exact I|].
  assert (Les : forall cx a es, good a ->
            rel_res (R a) (g_list (g_expr (ps_alg all_off) p fu cx a) es) (g_list (g_expr py_alg p fu cx a) es)).
  { intros cx a es G. apply rel_list. intros e. apply IHe, G. }
  assert (Lss : forall cx a ss, good a ->
            rel_res (R a) (g_list (g_stmt (ps_alg all_off) p fu cx a) ss) (g_list (g_stmt py_alg p fu cx a) ss)).
  { intros cx a ss G. apply rel_list. intros s. apply IHs, G. }
  assert (Lwn : forall cx a n es, good a ->
            rel_res (R a) (wrap (x_node (ps_alg all_off) cx a n) (g_list (g_expr (ps_alg all_off) p fu cx a) es))
                          (wrap (x_node py_alg cx a n) (g_list (g_expr py_alg p fu cx a) es))).
  { intros cx a n es G. eapply rel_wrap; [|apply Les, G]. intros x y. apply R_node. }
  split.
  - intros cx a e G. rewrite !g_expr_S. destruct e as [n es|n|n|n subs fault|n args c].
    + apply R_native, G.
    + exact I.
    + apply R_raise, G.
    + pose proof (Lwn cx a n subs G) as H. same_shape H. destruct fault; cbn; [apply R_raise, G|exact I].
    + pose proof (Lwn cx a n args G) as H. same_shape H.
      destruct c as [k|k].
      * destruct (nth_error (p_funcs p) k) as [f|] eqn:Ef; [|apply R_raise, G].
        apply rel_ret. eapply rel_wrap; [|apply Lss, (GF _ _ Ef)]. intros x y. apply R_call, G.
      * destruct (nth_error (p_mods p) k) as [m|] eqn:Em; [|apply R_raise, G].
        apply rel_ret. eapply rel_wrap; [|apply Lss, (GM _ _ Em)]. intros x y. apply R_import, G.
  - intros cx a s G. rewrite !g_stmt_S. destruct s as [n es|n cause|n es|n k hdr enter body|n body h].
    + apply Lwn, G.
    + destruct cause; cbn [rel_res]; [apply R_cause|]; apply R_raise, G.
    + pose proof (Lwn cx a n es G) as H. same_shape H.
    + pose proof (Lwn cx a n hdr G) as H. same_shape H.
      * destruct enter; [|exact I]. eapply rel_wrap; [|apply Lss, G]. intros x y. apply R_node.
      * destruct k; exact H.
    + pose proof (Lss cx a body G) as H. same_shape H.
      destruct h as [| |nr]; cbn [rel_res]; [apply R_node, H|exact I|apply R_chain; assumption].
Qed.

(* formatted report of a related exception, once the entry frames are put in front *)
Lemma R_enter_mod m x y :
  R (mod_act m) x y -> format_exc all_off (x_enter_mod (ps_alg all_off) m x) = x_enter_mod py_alg m y.
Proof.
  destruct x as [|F C], y as [|T CT]; cbn [R]; try contradiction. intros [H E].
  cbn [x_enter_mod ps_alg py_alg on_head format_exc map]. f_equal; [|exact E]. apply head_ok_enter_mod, H.
Qed.

Lemma R_enter_func cx f direct x y :
  R (func_act f) x y -> format_exc all_off (x_enter_func (ps_alg all_off) cx f direct x) = x_enter_func py_alg cx f direct y.
Proof.
  destruct x as [|F C], y as [|T CT]; cbn [R]; try contradiction. intros [H E].
  cbn [x_enter_func ps_alg py_alg on_head format_exc map]. f_equal; [|exact E].
  rewrite disp_off. apply head_ok_enter_func', H.
Qed.

(* ---------- main theorem ---------- *)
Definition agrees (r1 r2 : res exc_py) : Prop := r1 = r2.

Theorem attribution_all_off : forall p fuel en,
  wf_prog p = true -> reported all_off p fuel en = reference_triples p fuel en.
Proof.
  intros p fuel en W. pose proof (wf_funcs_good p W) as GG. destruct (sim p GG fuel) as [_ Hs]. destruct GG as [GF GM].
  unfold reported, frames_at_fault, reference_triples, g_run.
  destruct en as [k|k cxname direct].
  - destruct (nth_error (p_mods p) k) as [m|] eqn:Em; [|reflexivity].
    pose proof (GM _ _ Em) as G.
    assert (H : rel_res (R (mod_act m)) (g_list (g_stmt (ps_alg all_off) p fuel (mod_ctx m) (mod_act m)) (em_body m))
                                       (g_list (g_stmt py_alg p fuel (mod_ctx m) (mod_act m)) (em_body m))).
    { apply rel_list. intros s. apply Hs, G. }
    destruct (g_list (g_stmt (ps_alg all_off) p fuel (mod_ctx m) (mod_act m)) (em_body m)) as [| |x|],
             (g_list (g_stmt py_alg p fuel (mod_ctx m) (mod_act m)) (em_body m)) as [| |y|]; cbn in H |- *;
      try contradiction; try reflexivity.
    f_equal. apply (R_enter_mod m x y H).
  - destruct (nth_error (p_funcs p) k) as [f|] eqn:Ef; [|reflexivity].
    pose proof (GF _ _ Ef) as G. set (cx := mkCtx (ef_file f) (FnNamed cxname)).
    assert (H : rel_res (R (func_act f)) (g_list (g_stmt (ps_alg all_off) p fuel cx (func_act f)) (ef_body f))
                                        (g_list (g_stmt py_alg p fuel cx (func_act f)) (ef_body f))).
    { apply rel_list. intros s. apply Hs, G. }
    destruct (g_list (g_stmt (ps_alg all_off) p fuel cx (func_act f)) (ef_body f)) as [| |x|],
             (g_list (g_stmt py_alg p fuel cx (func_act f)) (ef_body f)) as [| |y|]; cbn in H |- *;
      try contradiction; try reflexivity.
    f_equal. apply (R_enter_func cx f direct x y H).
Qed.

(* ---------- the deviations of today's code, each alone, on a witness ---------- *)
Definition only_merge : deviations := mkDev true false false false false false false.
Definition only_rename : deviations := mkDev false true false false false false false.
Definition only_chain : deviations := mkDev false false true false false false false.
Definition only_line : deviations := mkDev false false false true false false false.
Definition only_with : deviations := mkDev false false false false true false false.
Definition only_sticky : deviations := mkDev false false false false false true false.

Definition pn (l : N) : node := mkNode NkPlain l 0.

(* D182: entry (line 31) -> rec (17) -> rec (17) -> rec raises (16): one 'rec' entry instead of three *)
Definition w182 : prog :=
  let last := mkFunc 1 10 None [SBlock (pn 15) BkPlain [] false []; SRaise (pn 16) false] in
  let mid k := mkFunc 1 10 None [SBlock (pn 15) BkPlain [] true [SReturn (pn 17) [ECall (pn 17) [] (CFunc k)]]] in
  mkProg [mkFunc 1 11 None [SExpr (pn 31) [ECall (pn 31) [] (CFunc 1)]]; mid 2%nat; mid 3%nat; last] [].
Lemma refuted_D182 :
  wf_prog w182 = true /\
  reported only_merge w182 50 (EnFunc 0 99 false) = RRaise [[(1, FnNamed 11, 31); (1, FnNamed 10, 16)]] /\
  reference_triples w182 50 (EnFunc 0 99 false)
    = RRaise [[(1, FnNamed 11, 31); (1, FnNamed 10, 17); (1, FnNamed 10, 17); (1, FnNamed 10, 16)]].
Proof. repeat split; reflexivity. Qed.

(* D183: entry -> wrapper 'w' (renamed to 'g' by ast_functiondef) -> g raises *)
Definition w183 : prog :=
  mkProg [mkFunc 1 11 None [SExpr (pn 20) [ECall (pn 20) [] (CFunc 1)]];
          mkFunc 1 12 (Some 13) [SReturn (pn 6) [ECall (pn 6) [] (CFunc 2)]];
          mkFunc 1 13 None [SRaise (pn 9) false]] [].
Lemma refuted_D183 :
  wf_prog w183 = true /\
  reported only_rename w183 50 (EnFunc 0 99 true) = RRaise [[(1, FnNamed 11, 20); (1, FnNamed 13, 6); (1, FnNamed 13, 9)]] /\
  reference_triples w183 50 (EnFunc 0 99 true) = RRaise [[(1, FnNamed 11, 20); (1, FnNamed 12, 6); (1, FnNamed 13, 9)]].
Proof. repeat split; reflexivity. Qed.

(* D184: mid() catches low()'s exception and raises another one from it: the cause's first entry names the interpreter *)
Definition w184 : prog :=
  mkProg [mkFunc 1 20 None [SRaise (pn 3) false];
          mkFunc 1 21 None [STry (pn 5) [SExpr (pn 6) [ECall (pn 6) [] (CFunc 0)]] (HRaise (pn 8))];
          mkFunc 1 22 None [SExpr (pn 10) [ECall (pn 10) [] (CFunc 1)]]] [].
Lemma refuted_D184 :
  wf_prog w184 = true /\
  reported only_chain w184 50 (EnFunc 2 99 false)
    = RRaise [[(1, FnNamed 22, 10); (1, FnNamed 21, 8)]; [(1, FnNamed 99, 6); (1, FnNamed 20, 3)]] /\
  reference_triples w184 50 (EnFunc 2 99 false)
    = RRaise [[(1, FnNamed 22, 10); (1, FnNamed 21, 8)]; [(1, FnNamed 21, 6); (1, FnNamed 20, 3)]].
Proof. repeat split; reflexivity. Qed.

(* D185: a method call written over lines 7-8 *)
Definition w185 : prog :=
  mkProg [mkFunc 1 11 None [SReturn (pn 7) [ECall (mkNode NkAttr 7 8) [] (CFunc 1)]]; mkFunc 1 12 None [SRaise (pn 4) false]] [].
Lemma refuted_D185 :
  wf_prog w185 = true /\
  reported only_line w185 50 (EnFunc 0 99 false) = RRaise [[(1, FnNamed 11, 7); (1, FnNamed 12, 4)]] /\
  reference_triples w185 50 (EnFunc 0 99 false) = RRaise [[(1, FnNamed 11, 8); (1, FnNamed 12, 4)]].
Proof. repeat split; reflexivity. Qed.

(* D186: the context expression of a with statement raises: nothing is reported *)
Definition w186 : prog := mkProg [mkFunc 1 11 None [SBlock (pn 5) BkWith [EFault (pn 5)] true []; SReturn (pn 7) []]] [].
Lemma refuted_D186 :
  wf_prog w186 = true /\
  reported only_with w186 50 (EnFunc 0 99 false) = RNormal /\
  reference_triples w186 50 (EnFunc 0 99 false) = RRaise [[(1, FnNamed 11, 5)]].
Proof. repeat split; reflexivity. Qed.

(* D187: f() imports a module whose body raises at its line 3 *)
Definition w187 : prog :=
  mkProg [mkFunc 1 11 None [SExpr (pn 9) [ECall (pn 9) [] (CMod 0)]]] [mkMod 3 [SRaise (pn 3) false]].
Lemma refuted_D187 :
  wf_prog w187 = true /\
  reported only_sticky w187 50 (EnFunc 0 99 false) = RRaise [[(1, FnNamed 11, 9); (1, FnNamed 11, 3)]] /\
  reference_triples w187 50 (EnFunc 0 99 false) = RRaise [[(1, FnNamed 11, 9); (3, FnModule 3, 3)]].
Proof. repeat split; reflexivity. Qed.

(* D190: f() calls a file-level lambda (line 2) that raises: CPython calls its frame <lambda> (name 30), pyscript
   __lambda_defn_temp__ (name 31) *)
Definition only_lambda : deviations := mkDev false false false false false false true.
Definition w190 : prog := mkProg [mkFunc 1 11 None [SReturn (pn 5) [ENative (pn 5) [(1, 30, 31, 2)]]]] [].
Lemma refuted_D190 :
  wf_prog w190 = true /\
  reported only_lambda w190 50 (EnFunc 0 99 false) = RRaise [[(1, FnNamed 11, 5); (1, FnNamed 31, 2)]] /\
  reference_triples w190 50 (EnFunc 0 99 false) = RRaise [[(1, FnNamed 11, 5); (1, FnNamed 30, 2)]].
Proof. repeat split; reflexivity. Qed.

(* a non-trivial instance of the main theorem's hypothesis, exercising calls, recursion, chaining and an import *)
Example wf_instances : wf_prog w182 = true /\ wf_prog w184 = true /\ wf_prog w187 = true.
Proof. repeat split; reflexivity. Qed.
Example attribution_instance :
  reported all_off w184 50 (EnFunc 2 99 false)
    = RRaise [[(1, FnNamed 22, 10); (1, FnNamed 21, 8)]; [(1, FnNamed 21, 6); (1, FnNamed 20, 3)]].
Proof. reflexivity. Qed.

(* ---------- the check's Spec follows from agreement with the conformant Model ---------- *)
From PV Require Import Interp.FramesCheck.

Lemma fname_eqb_eq a b : fname_eqb a b = true <-> a = b.
Proof.
  destruct a as [f|n], b as [g|m]; cbn; try (split; [discriminate|congruence]).
  - rewrite N.eqb_eq. split; congruence.
  - rewrite N.eqb_eq. split; congruence.
Qed.

Lemma triple_eqb_eq t u : triple_eqb t u = true <-> t = u.
Proof.
  destruct t as [[f n] l], u as [[g m] k]. cbn. rewrite !andb_true_iff, !N.eqb_eq, fname_eqb_eq.
  split; [intros [[-> ->] ->]; reflexivity|intros E; inversion E; auto].
Qed.

Lemma exc_eqb_eq a b : exc_eqb a b = true <-> a = b.
Proof. apply list_eqb_eq. intros x y. apply list_eqb_eq. apply triple_eqb_eq. Qed.

Lemma option_exc_eqb_eq a b : option_eqb exc_eqb a b = true <-> a = b.
Proof.
  destruct a as [x|], b as [y|]; cbn; try (split; [discriminate|congruence]); [|tauto].
  rewrite exc_eqb_eq. split; congruence.
Qed.

Lemma obs_eqb_eq m o : obs_eqb m o = true -> m = Some o.
Proof. destruct m as [m'|]; cbn; [|discriminate]. rewrite option_exc_eqb_eq. congruence. Qed.

Lemma model_implies_spec : forall c,
  wf_prog (ac_prog c) = true -> acase_model_ok acfg_off c = true -> acase_spec_ok c = true.
Proof.
  intros c W H. unfold acase_model_ok in H. apply andb_true_iff in H as [H Hm]. apply andb_true_iff in H as [Hp Hr].
  unfold predicted, stopiter_on, reference in *. cbn [a_stopiter a_dv acfg_off andb] in *.
  rewrite (attribution_all_off _ _ _ W) in Hp.
  apply obs_eqb_eq in Hp. apply obs_eqb_eq in Hr. rewrite Hp in Hr. inversion Hr as [E].
  unfold acase_spec_ok. rewrite E.
  assert (M : ac_msg_ok c = true).
  { unfold predicted_msg_ok, predicted, stopiter_on in Hm. cbn [a_stopiter a_dv acfg_off andb negb] in Hm.
    rewrite (attribution_all_off _ _ _ W), Hp, <- E in Hm.
    destruct (ac_ps c), (ac_msg_ok c); cbn in Hm; congruence. }
  rewrite M. cbn. apply option_exc_eqb_eq. reflexivity.
Qed.

(* ================= today's code on the plain fragment ================= *)
Definition plain_node (n : node) : bool := match nk n with NkPlain => true | _ => false end.
Definition act_eqb (a b : act) : bool := N.eqb (a_file a) (a_file b) && fname_eqb (a_name a) (a_name b).

Section Plain.
  Variable p : prog.

  (* the callee exists, is not renamed, and does not share (file, name) with the caller *)
  Definition callee_plain (caller : act) (c : callee) : bool :=
    match c with
    | CFunc k =>
        match nth_error (p_funcs p) k with
        | Some f => match ef_rename f with None => negb (act_eqb caller (func_act f)) | Some _ => false end
        | None => true
        end
    | CMod _ => false
    end.

  Fixpoint plain_expr (caller : act) (e : expr) : bool :=
    match e with
    | ENative _ _ => false
    | EAtom n => plain_node n
    | EFault n => plain_node n
    | EOp n subs _ => plain_node n && forallb (plain_expr caller) subs
    | ECall n args c => plain_node n && forallb (plain_expr caller) args && callee_plain caller c
    end.

  Fixpoint plain_stmt (caller : act) (s : stmt) : bool :=
    match s with
    | SExpr n es => plain_node n && forallb (plain_expr caller) es
    | SRaise n _ => plain_node n
    | SReturn n es => plain_node n && forallb (plain_expr caller) es
    | SBlock n k hdr _ body =>
        plain_node n && match k with BkPlain => true | BkWith => false end
        && forallb (plain_expr caller) hdr && forallb (plain_stmt caller) body
    | STry n body h =>
        plain_node n && forallb (plain_stmt caller) body && match h with HRaise _ => false | _ => true end
    end.

  Definition plain_prog : Prop :=
    (forall k f, nth_error (p_funcs p) k = Some f ->
       ef_file f <> 0 /\ ef_rename f = None /\ forallb (plain_stmt (func_act f)) (ef_body f) = true) /\
    (forall k m, nth_error (p_mods p) k = Some m ->
       em_file m <> 0 /\ forallb (plain_stmt (mod_act m)) (em_body m) = true).
End Plain.

Section TodayProof.
  Variable dv : deviations.

  Definition key (a : act) : triple := (a_file a, a_name a, (0 : line)).

  Definition inv (a : act) (cx : ctxinfo) (st : fstate) : Prop :=
    (match s_func st with
     | Some nm => nm = a_name a /\ s_file st = Some (a_file a)
     | None => cx_file cx = a_file a /\ cx_name cx = a_name a /\ (s_file st = None \/ s_file st = Some (a_file a))
     end) /\
    (if s_fresh st
     then match s_rstack st with last :: _ => same_fn last (key a) = false | [] => True end
     else exists l0 rest, s_rstack st = (a_file a, a_name a, l0) :: rest).

  Lemma same_fn_self (a : act) l0 l : same_fn (a_file a, a_name a, l0) (a_file a, a_name a, l) = true.
  Proof.
    cbn. rewrite N.eqb_refl. destruct (a_name a); cbn; apply N.eqb_refl.
  Qed.

  Lemma same_fn_line t f n l l' : same_fn t (f, n, l) = same_fn t (f, n, l').
  Proof. destruct t as [[g m] k]. reflexivity. Qed.

  Definition push (st : fstate) (new : triple) : list triple :=
    match s_rstack st with
    | [] => [new]
    | last :: rest =>
        if (if d_merge_same_name dv then same_fn last new else negb (s_fresh st)) then new :: rest else new :: last :: rest
    end.
  Definition af_file (cx : ctxinfo) (a : act) (st : fstate) : fileid :=
    match s_func st with
    | Some _ => file_or_ctx st cx
    | None => if d_chain_ctx dv then file_or_ctx st cx else a_file a
    end.
  Definition af_name (cx : ctxinfo) (a : act) (st : fstate) : fname :=
    match s_func st with
    | Some nm => nm
    | None => if d_chain_ctx dv then cx_name cx else a_name a
    end.
  Lemma ast_frame_unfold cx a l st :
    ast_frame dv cx a l st = mkSt (s_func st) (Some (file_or_ctx st cx)) l false (push st (af_file cx a st, af_name cx a st, l)).
  Proof. reflexivity. Qed.

  Lemma push_inv (a : act) (l : line) st :
    (if s_fresh st
     then match s_rstack st with last :: _ => same_fn last (key a) = false | [] => True end
     else exists l0 rest, s_rstack st = (a_file a, a_name a, l0) :: rest) ->
    push st (a_file a, a_name a, l) = (a_file a, a_name a, l) :: base st.
  Proof.
    intros Hs. unfold push, base. destruct (s_rstack st) as [|last rest] eqn:Es.
    - destruct (s_fresh st); reflexivity.
    - destruct (s_fresh st) eqn:Efr.
      + unfold key in Hs. rewrite (same_fn_line last _ _ l 0), Hs. destruct (d_merge_same_name dv); reflexivity.
      + destruct Hs as (l0 & r0 & E0). inversion E0; subst. rewrite same_fn_self.
        destruct (d_merge_same_name dv); reflexivity.
  Qed.

  Lemma ast_frame_any (cx : ctxinfo) (a : act) (l : line) st :
    inv a cx st ->
    let st' := ast_frame dv cx a l st in
    s_rstack st' = (a_file a, a_name a, l) :: base st /\ inv a cx st' /\ base st' = base st.
  Proof.
    intros [Hn Hs].
    assert (Eff : file_or_ctx st cx = a_file a).
    { unfold file_or_ctx. destruct (s_func st) as [nm|].
      - destruct Hn as [_ ->]. reflexivity.
      - destruct Hn as (E1 & _ & [E|E]); rewrite E; auto. }
    assert (Ef : af_file cx a st = a_file a).
    { unfold af_file. rewrite Eff. destruct (s_func st); [reflexivity|]. destruct (d_chain_ctx dv); reflexivity. }
    assert (En : af_name cx a st = a_name a).
    { unfold af_name. destruct (s_func st) as [nm|]; [tauto|]. destruct Hn as (_ & E & _). destruct (d_chain_ctx dv); auto. }
    cbn zeta. rewrite ast_frame_unfold, Ef, En, Eff, (push_inv a l st Hs). cbn [s_rstack].
    split; [reflexivity|]. split.
    - split; cbn [s_func s_file s_fresh s_rstack].
      + destruct (s_func st) as [nm|]; [destruct Hn as [E _]; auto|]. destruct Hn as (E1 & E2 & _). auto.
      + eauto.
    - reflexivity.
  Qed.

  Definition head_ok' (a : act) (cx : ctxinfo) (F : list frame) (T : list triple) : Prop :=
    forall st, inv a cx st -> filter is_script (s_rstack (run_frames dv st F)) = rev T ++ filter is_script (base st).

  Lemma head_ok'_raise cx a l : good a -> head_ok' a cx [FAeval cx a (Some l); FOther] [(a_file a, a_name a, l)].
  Proof.
    intros G st H. rewrite !run_cons. cbn [run_frames fold_left step].
    destruct (ast_frame_any cx a l st H) as (E & _). rewrite E. cbn [filter rev app].
    rewrite (is_script_good a l G). reflexivity.
  Qed.

  Lemma head_ok'_node cx a l F T : head_ok' a cx F T -> head_ok' a cx (FAeval cx a (Some l) :: FOther :: F) T.
  Proof.
    intros HF st H. rewrite !run_cons. cbn [step].
    destruct (ast_frame_any cx a l st H) as (_ & H' & B). rewrite (HF _ H'), B. reflexivity.
  Qed.

  Lemma same_fn_act a b l : act_eqb a b = false -> same_fn (a_file a, a_name a, l) (key b) = false.
  Proof. unfold act_eqb, key. cbn. auto. Qed.

  Lemma head_ok'_call cx (a : act) (l : line) nm (f : efunc) F T :
    good a -> act_eqb a (func_act f) = false -> head_ok' (func_act f) cx F T ->
    head_ok' a cx (FAeval cx a (Some l) :: FOther :: FCallFunc nm :: FOther :: FEvalFuncCall (ef_file f) (FnNamed (ef_name f)) :: F)
              ((a_file a, a_name a, l) :: T).
  Proof.
    intros G NE HF st H. rewrite !run_cons.
    destruct (ast_frame_any cx a l st H) as (E & _ & _).
    set (st1 := step dv st (FAeval cx a (Some l))) in *.
    change (step dv st1 FOther) with st1.
    set (st3 := step dv (step dv (step dv st1 (FCallFunc nm)) FOther) (FEvalFuncCall (ef_file f) (FnNamed (ef_name f)))).
    assert (R3 : s_rstack st3 = s_rstack st1 /\ s_fresh st3 = true /\ s_func st3 = Some (FnNamed (ef_name f)) /\ s_file st3 = Some (ef_file f)).
    { unfold st3. cbn [step]. destruct (s_func st1); cbn; auto. }
    destruct R3 as (R3 & Fr3 & Fn3 & Fl3).
    assert (I3 : inv (func_act f) cx st3).
    { split.
      - rewrite Fn3. cbn. auto.
      - rewrite Fr3, R3. change (s_rstack st1) with (s_rstack (ast_frame dv cx a l st)). rewrite E.
        apply same_fn_act, NE. }
    assert (B3 : base st3 = s_rstack st1) by (unfold base; rewrite Fr3; exact R3).
    rewrite (HF st3 I3), B3. change (s_rstack st1) with (s_rstack (ast_frame dv cx a l st)). rewrite E.
    cbn [filter rev]. rewrite (is_script_good a l G), <- app_assoc. reflexivity.
  Qed.

  Lemma head_ok'_other a cx F T : head_ok' a cx F T -> head_ok' a cx (FOther :: F) T.
  Proof. intros HF st H. rewrite run_cons. cbn [step]. apply HF, H. Qed.

  Lemma same_fn_real nm l (a : act) : good a -> same_fn (0, nm, l) (key a) = false.
  Proof. unfold good, key. intros G. cbn. destruct (a_file a); [congruence|reflexivity]. Qed.

  Lemma enter_func' cx (f : efunc) (direct : bool) nm F T :
    good (func_act f) -> head_ok' (func_act f) cx F T ->
    script_frames (format_stack dv (FReal 0 nm_catch_site 0 :: (if direct then [] else [FCallFunc nm]) ++
                          FEvalFuncCall (ef_file f) (FnNamed (ef_name f)) :: F)) = T.
  Proof.
    intros G HF. unfold script_frames, format_stack. rewrite filter_rev_script, run_cons.
    set (st1 := step dv init_st (FReal 0 nm_catch_site 0)).
    assert (E : run_frames dv st1 ((if direct then [] else [FCallFunc nm]) ++ FEvalFuncCall (ef_file f) (FnNamed (ef_name f)) :: F)
                = run_frames dv (mkSt (Some (FnNamed (ef_name f))) (Some (ef_file f)) 1 true [(0, FnNamed nm_catch_site, 0)]) F).
    { destruct direct; reflexivity. }
    rewrite E, HF.
    - cbn. rewrite app_nil_r. apply rev_involutive.
    - split; [cbn; auto|]. cbn [s_fresh s_rstack]. apply (same_fn_real _ _ (func_act f) G).
  Qed.

  Lemma enter_mod' (m : emod) F T :
    good (mod_act m) -> head_ok' (mod_act m) (mod_ctx m) F T ->
    script_frames (format_stack dv (FReal 0 nm_load_file 0 :: FAstEval :: FAeval (mod_ctx m) (mod_act m) None :: FOther :: F)) = T.
  Proof.
    intros G HF. unfold script_frames, format_stack. rewrite filter_rev_script, !run_cons.
    set (st4 := step dv (step dv (step dv (step dv init_st (FReal 0 nm_load_file 0)) FAstEval)
                 (FAeval (mod_ctx m) (mod_act m) None)) FOther).
    assert (E4 : st4 = mkSt None (Some (em_file m)) 1 true [(0, FnNamed nm_load_file, 0)]).
    { unfold st4. cbn [step]. destruct (d_import_sticky dv); reflexivity. }
    rewrite HF.
    - rewrite E4. cbn. rewrite app_nil_r. apply rev_involutive.
    - rewrite E4. split; [cbn; auto|]. cbn [s_fresh s_rstack]. apply (same_fn_real _ _ (mod_act m) G).
  Qed.

  Definition R' (a : act) (cx : ctxinfo) (x : exc_ps) (y : exc_py) : Prop :=
    match x, y with
    | F :: C, T :: CT => head_ok' a cx F T /\ format_exc dv C = CT
    | _, _ => False
    end.

  Lemma line_plain n : plain_node n = true -> node_ps_line dv n = node_py_line n.
  Proof. unfold plain_node, node_ps_line, node_py_line. destruct (nk n); [reflexivity|discriminate|discriminate]. Qed.

  Lemma R'_raise cx a n : good a -> plain_node n = true -> R' a cx (x_raise (ps_alg dv) cx a n) (x_raise py_alg cx a n).
  Proof. intros G P. cbn. rewrite (line_plain n P). split; [apply head_ok'_raise, G|reflexivity]. Qed.

  Lemma R'_node cx a n x y : R' a cx x y -> R' a cx (x_node (ps_alg dv) cx a n x) (x_node py_alg cx a n y).
  Proof.
    destruct x as [|F C], y as [|T CT]; cbn; try contradiction. intros [H E]. split; [apply head_ok'_node, H|exact E].
  Qed.

  Lemma R'_call cx a n f x y :
    good a -> plain_node n = true -> ef_rename f = None -> act_eqb a (func_act f) = false ->
    R' (func_act f) cx x y -> R' a cx (x_call (ps_alg dv) cx a n f x) (x_call py_alg cx a n f y).
  Proof.
    intros G P Rn NE. destruct x as [|F C], y as [|T CT]; cbn; try contradiction. intros [H E]. split; [|exact E].
    rewrite (line_plain n P).
    assert (D : disp_name dv f = FnNamed (ef_name f)) by (unfold disp_name; rewrite Rn; destruct (d_deco_rename dv); reflexivity).
    rewrite D. apply head_ok'_call; assumption.
  Qed.

  Lemma R'_cause a cx x y : R' a cx x y -> R' a cx (x_cause (ps_alg dv) x) (x_cause py_alg y).
  Proof.
    destruct x as [|F C], y as [|T CT]; cbn [R']; try contradiction. intros [H E].
    cbn [x_cause ps_alg py_alg app]. split; [exact H|]. rewrite format_exc_app, E. reflexivity.
  Qed.

  Lemma rel_list_in {X Y A} (Rr : X -> Y -> Prop) (ev1 : A -> res X) (ev2 : A -> res Y) l :
    (forall a, In a l -> rel_res Rr (ev1 a) (ev2 a)) -> rel_res Rr (g_list ev1 l) (g_list ev2 l).
  Proof.
    induction l as [|a l IH]; intros H; cbn; [exact I|].
    pose proof (H a (or_introl eq_refl)) as Ha.
    destruct (ev1 a), (ev2 a); cbn in Ha |- *; try contradiction; try exact Ha; try exact I.
    apply IH. intros b Hb. apply H. right. exact Hb.
  Qed.

  Variable p : prog.
  Hypothesis PP : plain_prog p.

  Lemma sim' : forall fuel,
    (forall cx a e, good a -> plain_expr p a e = true ->
       rel_res (R' a cx) (g_expr (ps_alg dv) p fuel cx a e) (g_expr py_alg p fuel cx a e)) /\
    (forall cx a s, good a -> plain_stmt p a s = true ->
       rel_res (R' a cx) (g_stmt (ps_alg dv) p fuel cx a s) (g_stmt py_alg p fuel cx a s)).
  Proof.
    destruct PP as [PF PM].
    induction fuel as [|fu [IHe IHs]]; [split; intros; exact I|].
    assert (Les : forall cx a es, good a -> forallb (plain_expr p a) es = true ->
              rel_res (R' a cx) (g_list (g_expr (ps_alg dv) p fu cx a) es) (g_list (g_expr py_alg p fu cx a) es)).
    { intros cx a es G Pl. apply rel_list_in. intros e He. apply IHe; [exact G|].
      rewrite forallb_forall in Pl. apply Pl, He. }
    assert (Lss : forall cx a ss, good a -> forallb (plain_stmt p a) ss = true ->
              rel_res (R' a cx) (g_list (g_stmt (ps_alg dv) p fu cx a) ss) (g_list (g_stmt py_alg p fu cx a) ss)).
    { intros cx a ss G Pl. apply rel_list_in. intros s Hs. apply IHs; [exact G|].
      rewrite forallb_forall in Pl. apply Pl, Hs. }
    assert (Lwn : forall cx a n es, good a -> forallb (plain_expr p a) es = true ->
              rel_res (R' a cx) (wrap (x_node (ps_alg dv) cx a n) (g_list (g_expr (ps_alg dv) p fu cx a) es))
                                (wrap (x_node py_alg cx a n) (g_list (g_expr py_alg p fu cx a) es))).
    { intros cx a n es G Pl. eapply rel_wrap; [|apply Les; assumption]. intros x y. apply R'_node. }
    split.
    - intros cx a e G Pl. rewrite !g_expr_S. destruct e as [n es|n|n|n subs fault|n args c]; cbn [plain_expr] in Pl.
      + discriminate.
      + exact I.
      + apply R'_raise; assumption.
      + apply andb_true_iff in Pl as [Pn Ps]. pose proof (Lwn cx a n subs G Ps) as H. same_shape H.
        destruct fault; cbn; [apply R'_raise; assumption|exact I].
      + apply andb_true_iff in Pl as [Pl Pc]. apply andb_true_iff in Pl as [Pn Pa].
        pose proof (Lwn cx a n args G Pa) as H. same_shape H.
        destruct c as [k|k]; cbn [callee_plain] in Pc; [|discriminate].
        destruct (nth_error (p_funcs p) k) as [f|] eqn:Ef; [|apply R'_raise; assumption].
        destruct (PF _ _ Ef) as (Gf & Rn & Pb). rewrite Rn in Pc. apply negb_true_iff in Pc.
        apply rel_ret. eapply rel_wrap; [|apply Lss; [exact Gf|exact Pb]]. intros x y. apply R'_call; assumption.
    - intros cx a s G Pl. rewrite !g_stmt_S.
      destruct s as [n es|n cause|n es|n k hdr enter body|n body h]; cbn [plain_stmt] in Pl.
      + apply andb_true_iff in Pl as [Pn Pe]. apply Lwn; assumption.
      + destruct cause; cbn [rel_res]; [apply R'_cause|]; apply R'_raise; assumption.
      + apply andb_true_iff in Pl as [Pn Pe]. pose proof (Lwn cx a n es G Pe) as H. same_shape H.
      + apply andb_true_iff in Pl as [Pl Pb]. apply andb_true_iff in Pl as [Pl Ph]. apply andb_true_iff in Pl as [Pn Pk].
        pose proof (Lwn cx a n hdr G Ph) as H. same_shape H.
        * destruct enter; [|exact I]. eapply rel_wrap; [|apply Lss; assumption]. intros x y. apply R'_node.
        * destruct k; [exact H|discriminate].
      + apply andb_true_iff in Pl as [Pl Ph]. apply andb_true_iff in Pl as [Pn Pb].
        pose proof (Lss cx a body G Pb) as H. same_shape H.
        destruct h as [| |nr]; cbn [rel_res]; [apply R'_node, H|exact I|discriminate].
  Qed.

  Theorem attribution_today_plain : forall fuel en, reported dv p fuel en = reference_triples p fuel en.
  Proof.
    intros fuel en. destruct (sim' fuel) as [_ Hs]. destruct PP as [PF PM].
    unfold reported, frames_at_fault, reference_triples, g_run.
    destruct en as [k|k cxname direct].
    - destruct (nth_error (p_mods p) k) as [m|] eqn:Em; [|reflexivity].
      destruct (PM _ _ Em) as (G & Pb).
      assert (H : rel_res (R' (mod_act m) (mod_ctx m)) (g_list (g_stmt (ps_alg dv) p fuel (mod_ctx m) (mod_act m)) (em_body m))
                                         (g_list (g_stmt py_alg p fuel (mod_ctx m) (mod_act m)) (em_body m))).
      { apply rel_list_in. intros s Hs'. apply Hs; [exact G|]. rewrite forallb_forall in Pb. apply Pb, Hs'. }
      destruct (g_list (g_stmt (ps_alg dv) p fuel (mod_ctx m) (mod_act m)) (em_body m)) as [| |x|],
               (g_list (g_stmt py_alg p fuel (mod_ctx m) (mod_act m)) (em_body m)) as [| |y|]; cbn in H |- *;
        try contradiction; try reflexivity.
      f_equal. destruct x as [|F C], y as [|T CT]; cbn [R'] in H; try contradiction. destruct H as [H E].
      cbn [on_head format_exc map]. f_equal; [|exact E]. apply enter_mod'; assumption.
    - destruct (nth_error (p_funcs p) k) as [f|] eqn:Ef; [|reflexivity].
      destruct (PF _ _ Ef) as (G & Rn & Pb). set (cx := mkCtx (ef_file f) (FnNamed cxname)).
      assert (H : rel_res (R' (func_act f) cx) (g_list (g_stmt (ps_alg dv) p fuel cx (func_act f)) (ef_body f))
                                          (g_list (g_stmt py_alg p fuel cx (func_act f)) (ef_body f))).
      { apply rel_list_in. intros s Hs'. apply Hs; [exact G|]. rewrite forallb_forall in Pb. apply Pb, Hs'. }
      destruct (g_list (g_stmt (ps_alg dv) p fuel cx (func_act f)) (ef_body f)) as [| |x|],
               (g_list (g_stmt py_alg p fuel cx (func_act f)) (ef_body f)) as [| |y|]; cbn in H |- *;
        try contradiction; try reflexivity.
      f_equal. destruct x as [|F C], y as [|T CT]; cbn [R'] in H; try contradiction. destruct H as [H E].
      cbn [on_head format_exc map]. f_equal; [|exact E].
      assert (D : disp_name dv f = FnNamed (ef_name f)) by (unfold disp_name; rewrite Rn; destruct (d_deco_rename dv); reflexivity).
      rewrite D. apply (enter_func' cx); assumption.
  Qed.
End TodayProof.

(* a decidable form of [plain_prog], and a non-trivial instance *)
Definition plain_progb (p : prog) : bool :=
  forallb (fun f => negb (N.eqb (ef_file f) 0) && match ef_rename f with None => true | Some _ => false end
                    && forallb (plain_stmt p (func_act f)) (ef_body f)) (p_funcs p)
  && forallb (fun m => negb (N.eqb (em_file m) 0) && forallb (plain_stmt p (mod_act m)) (em_body m)) (p_mods p).

Lemma plain_progb_ok p : plain_progb p = true -> plain_prog p.
Proof.
  unfold plain_progb. rewrite andb_true_iff, !forallb_forall. intros [Hf Hm]. split.
  - intros k f E. apply nth_error_In in E. specialize (Hf _ E).
    apply andb_true_iff in Hf as [Hf Hb]. apply andb_true_iff in Hf as [Hz Hr].
    repeat split; [|destruct (ef_rename f); [discriminate|reflexivity]|exact Hb].
    destruct (N.eqb_spec (ef_file f) 0); [discriminate|assumption].
  - intros k m E. apply nth_error_In in E. specialize (Hm _ E).
    apply andb_true_iff in Hm as [Hz Hb]. split; [|exact Hb].
    destruct (N.eqb_spec (em_file m) 0); [discriminate|assumption].
Qed.

(* module -> f (call inside a comprehension inside a for loop inside try/finally) -> method g of another file -> fault *)
Definition w_plain : prog :=
  mkProg [mkFunc 1 11 None [SExpr (pn 4) []; STry (pn 5) [SBlock (pn 6) BkPlain [EAtom (pn 6)] true
                              [SReturn (pn 7) [EOp (pn 7) [EOp (pn 7) [ECall (pn 8) [EAtom (pn 8)] (CFunc 1)] false] false]]] HNone];
          mkFunc 2 12 None [SExpr (pn 3) [EOp (pn 3) [EAtom (pn 3); EFault (pn 4)] false]]]
         [mkMod 1 [SExpr (pn 20) [ECall (pn 20) [] (CFunc 0)]]].
Example plain_instance : plain_prog w_plain.
Proof. apply plain_progb_ok. reflexivity. Qed.
Example plain_instance_report :
  reported as_is w_plain 50 (EnModule 0) = RRaise [[(1, FnModule 1, 20); (1, FnNamed 11, 8); (2, FnNamed 12, 4)]].
Proof. reflexivity. Qed.
