(* Proofs/TrigGuards.v — for conformant switches both guard pipelines accept exactly the occurrences the Spec accepts, for
   every occurrence list (C07); witnesses for the deviations D15, D70, D71. *)
From PV Require Import Common.Util Gen.GuardConsts Time.Windows Trig.Guards Trig.GuardsCheck Proofs.TimeWindows.
From Coq Require Import Lia ZifyBool.

Local Open Scope Z_scope.

Lemma consts_hold : lg_hold_cmp = CmpLt /\ nw_hold_cmp = CmpLt.
Proof. split; reflexivity. Qed.

(* ---------- @state_active: notify_var_get + name resolution = "triggering values, else current state" ---------- *)
Lemma env_get_app a b k :
  env_get (a ++ b) k = match env_get a k with Some v => Some v | None => env_get b k end.
Proof.
  induction a as [|[k' v'] r IH]; cbn [app env_get]; [reflexivity|].
  destruct (N.eqb k k'); [reflexivity|apply IH].
Qed.

Lemma sa_eval_ext e v1 v2 cur : (forall k, lookup v1 cur k = lookup v2 cur k) -> sa_eval e v1 cur = sa_eval e v2 cur.
Proof.
  intros H. induction e as [b|k v|a IHa|a IHa b IHb|a IHa b IHb]; cbn [sa_eval].
  - reflexivity.
  - rewrite H. reflexivity.
  - rewrite IHa. reflexivity.
  - rewrite IHa, IHb. reflexivity.
  - rewrite IHa, IHb. reflexivity.
Qed.

Lemma lookup_snoc acc cur k a x :
  env_get acc a = None -> x = opt_join (env_get cur a) -> lookup (acc ++ [(a, x)]) cur k = lookup acc cur k.
Proof.
  intros Ea Ex. unfold lookup. rewrite env_get_app. destruct (env_get acc k) eqn:Ek; [reflexivity|].
  cbn [env_get]. destruct (N.eqb_spec k a) as [->|_]; [|reflexivity]. exact Ex.
Qed.

Lemma notify_var_get_lookup names last cur :
  (forall k v, env_get last k = Some v -> opt_join (env_get cur k) = v) ->
  forall acc k, lookup (notify_var_get names last cur acc) cur k = lookup acc cur k.
Proof.
  intros Hlast. induction names as [|a r IH]; intros acc k; cbn [notify_var_get]; [reflexivity|].
  destruct (env_get acc a) eqn:Ea; [apply IH|].
  destruct (env_get last a) as [v|] eqn:El.
  - rewrite IH. apply lookup_snoc; [assumption|]. symmetry. apply Hlast. assumption.
  - destruct (opt_join (env_get cur a)) eqn:Ec; [apply IH|].
    rewrite IH. apply lookup_snoc; [assumption|]. symmetry. assumption.
Qed.

Lemma sa_check_off cfg e tbl o : d_stale_active_vars cfg = false -> occ_ok o ->
  fst (sa_check cfg e tbl o) = state_active_spec e o.
Proof.
  intros Hc Ho. unfold sa_check, state_active_spec. rewrite Hc. cbn [fst].
  apply sa_eval_ext. intros k. apply notify_var_get_lookup. exact Ho.
Qed.

(* ---------- generic facts about [run] ---------- *)
Lemma run_length {S} (step : S -> occ -> bool * S) occs : forall s, length (run step s occs) = length occs.
Proof.
  induction occs as [|o r IH]; intros s; cbn [run]; [reflexivity|].
  destruct (step s o) as [a s']. cbn [length]. rewrite IH. reflexivity.
Qed.

(* ---------- legacy: one step of trigger_watch = one step of the Spec ---------- *)
Lemma hold_cmp_lt (m l n : Z) : (m <? l + n) = (m - l <? n).
Proof. destruct (Z.ltb_spec m (l + n)), (Z.ltb_spec (m - l) n); lia. Qed.

Lemma active_spec_b_nil st sun now : active_spec_b [] st sun now = true.
Proof. reflexivity. Qed.

Lemma lg_core_spec cfg g st sun last tbl o : all_off cfg -> occ_ok o ->
  fst (lg_core cfg g st sun (last, tbl) o) = fst (sp_step g st sun last o) /\
  fst (snd (lg_core cfg g st sun (last, tbl) o)) = snd (sp_step g st sun last o).
Proof.
  intros (_ & _ & H71 & _) Ho. destruct consts_hold as [Hl _].
  unfold lg_core, sp_step, guards_spec, hold_of.
  destruct (is_direct o); [split; reflexivity|].
  assert (Hsa : forall e, fst (sa_check cfg e tbl o) = state_active_spec e o) by (intros e; apply sa_check_off; assumption).
  destruct (g_sa g) as [e|].
  - specialize (Hsa e). destruct (sa_check cfg e tbl o) as [ok1 tbl']. cbn [fst] in Hsa. subst ok1.
    destruct (state_active_spec e o); cbn [andb negb fst snd]; [|split; reflexivity].
    destruct (g_ta g) as [[|s r]|]; cbn [negb];
      try rewrite active_check_spec; try rewrite active_spec_b_nil;
      try destruct (active_spec_b (s :: r) st sun (o_wall o)); cbn [andb negb fst snd]; try (split; reflexivity);
      destruct (g_hold g) as [n|], last as [l|]; try (split; reflexivity);
      rewrite Hl; cbn [cmpZ]; rewrite hold_cmp_lt; destruct (o_mono o - l <? n); split; reflexivity.
  - cbn [andb].
    destruct (g_ta g) as [[|s r]|]; cbn [negb];
      try rewrite active_check_spec; try rewrite active_spec_b_nil;
      try destruct (active_spec_b (s :: r) st sun (o_wall o)); cbn [andb negb fst snd]; try (split; reflexivity);
      destruct (g_hold g) as [n|], last as [l|]; try (split; reflexivity);
      rewrite Hl; cbn [cmpZ]; rewrite hold_cmp_lt; destruct (o_mono o - l <? n); split; reflexivity.
Qed.

(* the TrigInfo plumbing: with conformant switches the function-wide reference is what counts *)
Lemma lg_step_spec cfg g st sun glast plast tbls o : all_off cfg -> occ_ok o ->
  fst (lg_step cfg g st sun (glast, plast, tbls) o) = fst (sp_step g st sun glast o) /\
  fst (fst (snd (lg_step cfg g st sun (glast, plast, tbls) o))) = snd (sp_step g st sun glast o).
Proof.
  intros Hc Ho. pose proof Hc as (_ & _ & _ & H72). unfold lg_step.
  destruct (is_direct o) eqn:Ed.
  - unfold sp_step. rewrite Ed. split; reflexivity.
  - rewrite H72.
    destruct (lg_core_spec cfg g st sun glast (match aget tbls (o_grp o) with Some t => t | None => [] end) o Hc Ho) as [E1 E2].
    destruct (lg_core cfg g st sun (glast, match aget tbls (o_grp o) with Some t => t | None => [] end) o) as [a [l' t']].
    cbn [fst snd] in *. split; assumption.
Qed.

Lemma legacy_run cfg g st sun : all_off cfg -> forall occs glast plast tbls, Forall occ_ok occs ->
  run (lg_step cfg g st sun) (glast, plast, tbls) occs = run (sp_step g st sun) glast occs.
Proof.
  intros Hc. induction occs as [|o r IH]; intros glast plast tbls Hok; cbn [run]; [reflexivity|].
  inversion Hok as [|? ? Ho Hr]; subst.
  destruct (lg_step_spec cfg g st sun glast plast tbls o Hc Ho) as [E1 E2].
  destruct (lg_step cfg g st sun (glast, plast, tbls) o) as [a [[l' p'] t']], (sp_step g st sun glast o) as [b l2].
  cbn [fst snd] in E1, E2. subst. f_equal. apply IH. assumption.
Qed.

(* ---------- new subsystem: one dispatch = one step of the Spec ---------- *)
(* relation between the Spec's "last accepted run" and TimeActiveDecorator.last_trig_time *)
Definition Rn (g : guards) (sp : option Z) (last : Z) : Prop :=
  g_ta g = None \/ match sp with None => last = 0 | Some l => last = l /\ 0 < l end.

Definition held_b (hold : option Z) (last mono : Z) : bool :=
  match hold with Some n => (0 <? last) && (0 <? n) && (mono - last <? n) | None => false end.

Lemma ta_handle_off cfg specs hold st sun last o : d_time_active_per_arg cfg = false ->
  ta_handle cfg specs hold st sun last o =
  if held_b hold last (o_mono o) then (false, last)
  else if active_spec_b specs st sun (o_wall o) then (true, o_mono o) else (false, last).
Proof.
  intros H. destruct consts_hold as [_ Hn]. unfold ta_handle, held_b. rewrite H, Hn. cbn [cmpZ].
  destruct (match hold with Some n => (0 <? last) && (0 <? n) && (o_mono o - last <? n) | None => false end); [reflexivity|].
  destruct specs as [|s r]; [rewrite active_spec_b_nil; reflexivity|rewrite active_check_spec; reflexivity].
Qed.

Lemma held_eq hold sp last mono :
  match sp with None => last = 0 | Some l => last = l /\ 0 < l end ->
  (forall n, hold = Some n -> 0 <= n) -> (forall l, sp = Some l -> l <= mono) ->
  held_b hold last mono = match hold, sp with Some n, Some l => mono - l <? n | _, _ => false end.
Proof.
  intros HR Hn Hl. unfold held_b. destruct hold as [n|]; [|reflexivity].
  specialize (Hn n eq_refl). destruct sp as [l|].
  - destruct HR as [-> Hpos]. specialize (Hl l eq_refl).
    destruct (Z.ltb_spec 0 l); [|lia]. cbn [andb].
    destruct (Z.ltb_spec 0 n), (Z.ltb_spec (mono - l) n); cbn [andb]; try reflexivity; lia.
  - subst last. reflexivity.
Qed.

Ltac crunch Hs Hheld :=
  repeat first
    [ progress cbn [app dispatch_fold handle fst snd andb negb]
    | rewrite ta_handle_off by assumption
    | rewrite Hheld
    | match goal with
      | |- context [sa_check ?c ?e ?t ?o] =>
          let H := fresh "Hsx" in let ok1 := fresh "ok" in let t1 := fresh "tb" in
          pose proof (Hs t) as H; destruct (sa_check c e t o) as [ok1 t1]; cbn [fst] in H; subst ok1
      end
    | match goal with
      | |- context [active_spec_b ?a ?b ?c ?d] => destruct (active_spec_b a b c d)
      end ].

Lemma nw_step_spec cfg g st sun sp last tbl o : all_off cfg -> occ_ok o -> 0 < o_mono o -> hold_nonneg g ->
  (forall l, sp = Some l -> l <= o_mono o) -> Rn g sp last ->
  fst (nw_step cfg g st sun (last, tbl) o) = fst (sp_step g st sun sp o) /\
  Rn g (snd (sp_step g st sun sp o)) (fst (snd (nw_step cfg g st sun (last, tbl) o))).
Proof.
  intros (H15 & H70 & H71 & _) Ho Hpos Hh Hle HR.
  unfold nw_step, sp_step.
  destruct (is_direct o); [split; [reflexivity|exact HR]|].
  assert (Hsa : forall e t, fst (sa_check cfg e t o) = state_active_spec e o) by (intros e t; apply sa_check_off; assumption).
  unfold handlers_of, guards_spec, hold_of, Rn. rewrite H70.
  destruct (g_ta g) as [specs|] eqn:Eta.
  - (* a @time_active decorator is present *)
    destruct HR as [HR|HR]; [rewrite Eta in HR; discriminate|].
    pose proof (held_eq (g_hold g) sp last (o_mono o) HR Hh Hle) as Hheld.
    revert Hheld.
    destruct (match g_hold g, sp with Some n, Some l => o_mono o - l <? n | _, _ => false end); intros Hheld;
    (destruct (g_sa g) as [e|];
     [ pose proof (Hsa e) as Hs; revert Hs; destruct (state_active_spec e o); intros Hs | pose proof I as Hs ]);
    destruct (g_ta_first g); crunch Hs Hheld;
    (split; [reflexivity|right; first [exact HR | split; [reflexivity|assumption]]]).
  - (* no @time_active: no windows, no hold_off *)
    pose proof I as Hheld.
    (destruct (g_sa g) as [e|];
     [ pose proof (Hsa e) as Hs; revert Hs; destruct (state_active_spec e o); intros Hs | pose proof I as Hs ]);
    destruct (g_ta_first g); crunch Hs Hheld; (split; [reflexivity|left; reflexivity]).
Qed.

Lemma sp_step_last g st sun sp o :
  snd (sp_step g st sun sp o) = sp \/ snd (sp_step g st sun sp o) = Some (o_mono o).
Proof.
  unfold sp_step. destruct (is_direct o); [left; reflexivity|].
  destruct (guards_spec g st sun o && _); [right|left]; reflexivity.
Qed.

Lemma new_run cfg g st sun : all_off cfg -> hold_nonneg g ->
  forall occs lo sp last tbl, 0 < lo -> nondecr lo occs -> (forall l, sp = Some l -> l <= lo) -> Rn g sp last ->
  Forall occ_ok occs ->
  run (nw_step cfg g st sun) (last, tbl) occs = run (sp_step g st sun) sp occs.
Proof.
  intros Hc Hh. induction occs as [|o r IH]; intros lo sp last tbl Hlo Hnd Hsp HR Hok; cbn [run]; [reflexivity|].
  inversion Hok as [|? ? Ho Hr]; subst. destruct Hnd as [Hm Hnd].
  assert (Hpos : 0 < o_mono o) by lia.
  assert (Hle : forall l, sp = Some l -> l <= o_mono o) by (intros l El; specialize (Hsp l El); lia).
  destruct (nw_step_spec cfg g st sun sp last tbl o Hc Ho Hpos Hh Hle HR) as [E1 E2].
  pose proof (sp_step_last g st sun sp o) as E3.
  destruct (nw_step cfg g st sun (last, tbl) o) as [a [l' t']], (sp_step g st sun sp o) as [b sp'].
  cbn [fst snd] in E1, E2, E3. subst a. f_equal.
  apply (IH (o_mono o)); try assumption.
  intros l El. destruct E3 as [E3|E3]; subst sp'; [apply Hle; assumption|injection El as <-; lia].
Qed.

(* C07_pipeline *)
Theorem pipeline_legacy cfg g st sun occs : all_off cfg -> Forall occ_ok occs ->
  accepted_legacy cfg g st sun occs = accepted_spec g st sun occs.
Proof. intros Hc Hok. apply legacy_run; assumption. Qed.

Theorem pipeline_new cfg g st sun occs : all_off cfg -> Forall occ_ok occs -> nondecr 1 occs -> hold_nonneg g ->
  accepted_new cfg g st sun occs = accepted_spec g st sun occs.
Proof.
  intros Hc Hok Hnd Hh. unfold accepted_new, accepted_spec.
  apply (new_run cfg g st sun Hc Hh occs 1); try assumption; [lia|discriminate|].
  right. reflexivity.
Qed.

Theorem pipeline cfg legacy g st sun occs : all_off cfg -> Forall occ_ok occs -> nondecr 1 occs -> hold_nonneg g ->
  accepted_model legacy cfg g st sun occs = accepted_spec g st sun occs.
Proof.
  intros. destruct legacy; cbn [accepted_model]; [apply pipeline_legacy|apply pipeline_new]; assumption.
Qed.

(* the hypotheses are satisfiable by a non-trivial instance *)
Definition ex_occ (k : okind) (mono wall : Z) (y : option N) : occ := mk_occ k 0 mono wall [] [(1%N, y)] None y.
Example pipeline_hyps_inhabited :
  let occs := [ex_occ KEvent 1048576 1709553601000000 (Some 0%N); ex_occ KState 2097152 1709553602000000 (Some 1%N)] in
  let g := mk_guards (Some (SEq 1 1)) (Some [(false, daily 0 (DAY - 1))]) (Some 1048576) true in
  Forall occ_ok occs /\ nondecr 1 occs /\ hold_nonneg g /\ all_off cfg_off /\
  accepted_spec g 0 [] occs = [false; true].
Proof.
  cbv zeta. split; [|split; [|split; [|split]]].
  - apply Forall_cons; [|apply Forall_cons; [|apply Forall_nil]]; intros k v; cbn;
      (destruct (N.eqb_spec k 1) as [->|_]; [|discriminate]); intros E; inversion E; reflexivity.
  - cbn; lia.
  - intros n E. inversion E. lia.
  - repeat split.
  - vm_compute. reflexivity.
Qed.

(* ---------- direct calls; nothing runs that is not an occurrence ---------- *)
Lemma run_direct {S} (step : S -> occ -> bool * S) :
  (forall s o, is_direct o = true -> step s o = (true, s)) ->
  forall occs s,
    run step s (filter (fun o => negb (is_direct o)) occs) =
    map snd (filter (fun p => negb (is_direct (fst p))) (combine occs (run step s occs))).
Proof.
  intros Hd. induction occs as [|o r IH]; intros s; cbn [run filter combine map]; [reflexivity|].
  destruct (is_direct o) eqn:Ed; cbn [negb].
  - rewrite (Hd s o Ed). cbn [combine filter fst]. rewrite Ed. cbn [negb]. apply IH.
  - cbn [run]. destruct (step s o) as [a s']. cbn [combine filter fst]. rewrite Ed. cbn [negb map snd]. f_equal. apply IH.
Qed.

Lemma run_direct_true {S} (step : S -> occ -> bool * S) :
  (forall s o, is_direct o = true -> step s o = (true, s)) ->
  forall occs s i o, nth_error occs i = Some o -> is_direct o = true -> nth_error (run step s occs) i = Some true.
Proof.
  intros Hd. induction occs as [|o' r IH]; intros s i o Hn Ho; [destruct i; discriminate|].
  cbn [run]. destruct i as [|i]; cbn [nth_error] in *.
  - injection Hn as ->. rewrite (Hd s o Ho). reflexivity.
  - destruct (step s o') as [a s']. cbn [nth_error]. eapply IH; eassumption.
Qed.

Lemma lg_step_direct cfg g st sun s o : is_direct o = true -> lg_step cfg g st sun s o = (true, s).
Proof. intros H. unfold lg_step. rewrite H. reflexivity. Qed.
Lemma nw_step_direct cfg g st sun s o : is_direct o = true -> nw_step cfg g st sun s o = (true, s).
Proof. intros H. unfold nw_step. rewrite H. reflexivity. Qed.

(* for any switches: a direct call always runs, and taking the direct calls out of a history changes no other verdict *)
Theorem direct_calls legacy cfg g st sun occs :
  (forall i o, nth_error occs i = Some o -> is_direct o = true ->
               nth_error (accepted_model legacy cfg g st sun occs) i = Some true) /\
  accepted_model legacy cfg g st sun (filter (fun o => negb (is_direct o)) occs) =
  map snd (filter (fun p => negb (is_direct (fst p))) (combine occs (accepted_model legacy cfg g st sun occs))) /\
  length (accepted_model legacy cfg g st sun occs) = length occs.
Proof.
  destruct legacy; cbn [accepted_model]; unfold accepted_legacy, accepted_new; repeat split.
  - intros i o. apply run_direct_true. intros s o'. apply lg_step_direct.
  - apply run_direct. intros s o'. apply lg_step_direct.
  - apply run_length.
  - intros i o. apply run_direct_true. intros s o'. apply nw_step_direct.
  - apply run_direct. intros s o'. apply nw_step_direct.
  - apply run_length.
Qed.

(* ---------- the Spec, read declaratively ---------- *)
Lemma sp_step_verdict g st sun sp o :
  sp_step g st sun sp o =
  (verdict_spec g st sun sp o, if verdict_spec g st sun sp o && negb (is_direct o) then Some (o_mono o) else sp).
Proof.
  unfold sp_step, verdict_spec. destruct (is_direct o); [reflexivity|]. cbn [orb negb].
  destruct (guards_spec g st sun o); cbn [andb]; [|reflexivity].
  destruct (hold_of g) as [n|], sp as [l|]; cbn [negb andb]; try reflexivity.
  destruct (o_mono o - l <? n); reflexivity.
Qed.

Lemma spec_run_meaning g st sun : forall occs sp i o, nth_error occs i = Some o ->
  nth_error (run (sp_step g st sun) sp occs) i =
  Some (verdict_spec g st sun (last_from sp (firstn i occs) (firstn i (run (sp_step g st sun) sp occs))) o).
Proof.
  induction occs as [|o' r IH]; intros sp i o Hn; [destruct i; discriminate|].
  cbn [run]. rewrite sp_step_verdict. destruct i as [|i]; cbn [nth_error firstn last_from] in *.
  - injection Hn as ->. reflexivity.
  - apply IH. assumption.
Qed.

(* every verdict of the Spec is: a direct call, or all guards true and not less than hold_off after the last accepted run *)
Theorem spec_meaning g st sun occs i o : nth_error occs i = Some o ->
  nth_error (accepted_spec g st sun occs) i =
  Some (verdict_spec g st sun (last_accepted (firstn i occs) (firstn i (accepted_spec g st sun occs))) o).
Proof. apply spec_run_meaning. Qed.

(* ---------- the deviations of the unchanged code ---------- *)
Definition only_D15 : deviations := {| d_time_active_per_arg := true; d_hold_early_update := false; d_stale_active_vars := false; d_hold_per_trigger := false |}.
Definition only_D70 : deviations := {| d_time_active_per_arg := false; d_hold_early_update := true; d_stale_active_vars := false; d_hold_per_trigger := false |}.
Definition only_D71 : deviations := {| d_time_active_per_arg := false; d_hold_early_update := false; d_stale_active_vars := true; d_hold_per_trigger := false |}.

(* D15: @time_active("range(10:00, 13:00)", "not range(11:30, 12:30)"), an event at 12:00:00 on 2024-03-04 *)
Definition w15_guards : guards :=
  mk_guards None (Some [(false, daily (hms 10 0 0) (hms 13 0 0)); (true, daily (hms 11 30 0) (hms 12 30 0))]) None true.
Definition w15_occs : list occ := [mk_occ KEvent 0 10485760 (D0 + hms 12 0 0) [] [] None None].
Lemma refuted_D15 : exists g st sun occs, Forall occ_ok occs /\ nondecr 1 occs /\ hold_nonneg g /\
  accepted_new only_D15 g st sun occs <> accepted_spec g st sun occs.
Proof.
  exists w15_guards, 0, [], w15_occs. split; [|split; [|split]].
  - repeat constructor. intros k v E. discriminate.
  - cbn; lia.
  - intros n E. discriminate.
  - vm_compute. discriminate.
Qed.

(* D70: @time_active(hold_off=5) above @state_active("pyscript.y == '1'"); y is '0' at t=1 s, '1' at t=2 s *)
Definition w70_guards : guards := mk_guards (Some (SEq 1 1)) (Some []) (Some 5242880) true.
Definition w70_occs : list occ :=
  [mk_occ KEvent 0 1048576 (D0 + hms 12 0 1) [] [] None (Some 0%N); mk_occ KEvent 0 2097152 (D0 + hms 12 0 2) [] [] None (Some 1%N)].
Lemma refuted_D70 : exists g st sun occs, Forall occ_ok occs /\ nondecr 1 occs /\ hold_nonneg g /\
  accepted_new only_D70 g st sun occs <> accepted_spec g st sun occs.
Proof.
  exists w70_guards, 0, [], w70_occs. split; [|split; [|split]].
  - repeat constructor; intros k v E; discriminate.
  - cbn; lia.
  - intros n E. inversion E. lia.
  - vm_compute. discriminate.
Qed.

(* D71: @state_active("not (pyscript.y == '1')"); y does not exist at the first occurrence and is '1' at the second *)
Definition w71_guards : guards := mk_guards (Some (SNot (SEq 1 1))) None None false.
Definition w71_occs : list occ :=
  [mk_occ KEvent 0 1048576 (D0 + hms 12 0 1) [] [] None None; mk_occ KEvent 0 3145728 (D0 + hms 12 0 3) [] [] None (Some 1%N)].
Lemma refuted_D71 : exists g st sun occs, Forall occ_ok occs /\ nondecr 1 occs /\ hold_nonneg g /\
  accepted_legacy only_D71 g st sun occs <> accepted_spec g st sun occs /\
  accepted_new only_D71 g st sun occs <> accepted_spec g st sun occs.
Proof.
  exists w71_guards, 0, [], w71_occs. split; [|split; [|split; [|split]]].
  - repeat constructor; intros k v E; discriminate.
  - cbn; lia.
  - intros n E. discriminate.
  - vm_compute. discriminate.
  - vm_compute. discriminate.
Qed.

(* D72 (legacy): @time_active(hold_off=5) with two @event_trigger decorators; the second trigger occurs 1 s after an
   accepted occurrence of the first *)
Definition only_D72 : deviations :=
  {| d_time_active_per_arg := false; d_hold_early_update := false; d_stale_active_vars := false; d_hold_per_trigger := true |}.
Definition w72_guards : guards := mk_guards None (Some []) (Some 5242880) true.
Definition w72_occs : list occ :=
  [mk_occ KEvent 0 1048576 (D0 + hms 12 0 1) [] [] None None; mk_occ KEvent 1 2097152 (D0 + hms 12 0 2) [] [] None None].
Lemma refuted_D72 : exists g st sun occs, Forall occ_ok occs /\ nondecr 1 occs /\ hold_nonneg g /\
  accepted_legacy only_D72 g st sun occs <> accepted_spec g st sun occs.
Proof.
  exists w72_guards, 0, [], w72_occs. split; [|split; [|split]].
  - repeat constructor; intros k v E; discriminate.
  - cbn; lia.
  - intros n E. inversion E. lia.
  - vm_compute. discriminate.
Qed.

(* ---------- whatever behaviour of the implementation the conformant Model reproduces satisfies the property ---------- *)
Definition gcase_wf (c : gcase) : Prop :=
  Forall occ_ok (gc_occs c) /\ nondecr 1 (gc_occs c) /\ hold_nonneg (gc_guards c).

Theorem gcase_model_implies_spec cfg c : all_off cfg -> gcase_wf c -> gcase_model_ok cfg c = true -> gcase_spec_ok c = true.
Proof.
  intros Hc (H1 & H2 & H3) Hm. unfold gcase_model_ok, gcase_model in Hm. unfold gcase_spec_ok, gcase_spec.
  rewrite pipeline in Hm by assumption.
  apply andb_true_iff in Hm. destruct Hm as [Hm _]. exact Hm.
Qed.

Theorem mcase_model_implies_spec cfg (m : mcase) : all_off cfg -> Forall gcase_wf m ->
  mcase_model_ok cfg m = true -> mcase_spec_ok m = true.
Proof.
  intros Hc Hwf Hm. unfold mcase_model_ok, mcase_spec_ok in *. rewrite forallb_forall in *.
  rewrite Forall_forall in Hwf. intros c Hin. apply (gcase_model_implies_spec cfg); auto.
Qed.
