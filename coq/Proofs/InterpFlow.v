(* Proofs/InterpFlow.v — C02: pyscript's marker-passing evaluator (all deviation switches off) computes, for
   every supported skeleton, every host oracle and every fuel, exactly what the reference semantics computes.
   Induction on fuel; one lemma per construct; list helpers are top-level Fixpoints parameterised by the
   evaluator at the lower fuel (DESIGN.md §3.1 "Proof idiom for the interpreters"). *)
From PV Require Import Common.Util Interp.Flow.

Section Equiv.
  Context {H : Type}.
  Variable h : host H.
  Notation state := (state H).

  (* markers are read back as outcomes *)
  Definition out_of_val (v : pval) : outcome :=
    match v with VNone => Normal | VBreak => Brk | VContinue => Cont | VReturn x => Ret x end.
  Definition out_of (r : pres) : outcome :=
    match r with PV v => out_of_val v | PX e => Exc e | PFuel => Fuel end.
  Definition cv (p : state * pres) : state * outcome := (fst p, out_of (snd p)).

  Definition is_jump (o : outcome) : bool := match o with Brk | Cont => true | _ => false end.

  (* two statement evaluators agree on supported statements *)
  Definition agree (ep : stmt -> state -> state * pres) (ey : stmt -> state -> state * outcome) : Prop :=
    forall inl s st, supp inl s = true -> cv (ep s st) = ey s st.
  (* a reference evaluator lets no break/continue escape from a statement outside any loop *)
  Definition safe (ey : stmt -> state -> state * outcome) : Prop :=
    forall s st, supp false s = true -> is_jump (snd (ey s st)) = false.

  Lemma cv_pair st r : cv (st, r) = (st, out_of r).
  Proof. reflexivity. Qed.

  (* ---------------------------------------------------------------------------------------------- *)
  (* blocks                                                                                         *)
  (* ---------------------------------------------------------------------------------------------- *)
  Lemma block_agree ep ey : agree ep ey ->
    forall inl b st, forallb (supp inl) b = true -> cv (ps_block ep b st) = py_block ey b st.
  Proof.
    intros Hag inl b; induction b as [|s b IH]; intros st Hb; cbn [ps_block py_block forallb] in *; [reflexivity|].
    apply andb_prop in Hb as [Hs Hb].
    specialize (Hag inl s st Hs).
    destruct (ep s st) as [st1 r]; destruct (ey s st) as [st1' o]. rewrite cv_pair in Hag.
    inversion Hag; subst st1' o; clear Hag.
    destruct r as [[| | |v]|e|]; cbn [out_of out_of_val]; try reflexivity.
    apply IH; assumption.
  Qed.

  Lemma else_block_agree ep ey : agree ep ey ->
    forall inl b st, forallb (supp inl) b = true -> cv (ps_else_block false ep b st) = py_block ey b st.
  Proof.
    intros Hag inl b; induction b as [|s b IH]; intros st Hb; cbn [ps_else_block py_block forallb] in *; [reflexivity|].
    apply andb_prop in Hb as [Hs Hb].
    specialize (Hag inl s st Hs).
    destruct (ep s st) as [st1 r]; destruct (ey s st) as [st1' o]. rewrite cv_pair in Hag.
    inversion Hag; subst st1' o; clear Hag.
    destruct r as [[| | |v]|e|]; cbn [out_of out_of_val]; try reflexivity.
    apply IH; assumption.
  Qed.

  Lemma block_safe ey : safe ey ->
    forall b st, forallb (supp false) b = true -> is_jump (snd (py_block ey b st)) = false.
  Proof.
    intros Hs b; induction b as [|s b IH]; intros st Hb; cbn [py_block forallb] in *; [reflexivity|].
    apply andb_prop in Hb as [H1 Hb].
    specialize (Hs s st H1).
    destruct (ey s st) as [st1 o]. cbn [snd] in Hs.
    destruct o; cbn [snd is_jump] in *; try reflexivity; try discriminate.
    apply IH; assumption.
  Qed.

  (* ---------------------------------------------------------------------------------------------- *)
  (* loops                                                                                          *)
  (* ---------------------------------------------------------------------------------------------- *)
  Lemma loop_agree ep ey query : agree ep ey ->
    forall k inl body orelse st,
      forallb (supp true) body = true -> forallb (supp inl) orelse = true ->
      cv (ps_loop false query ep k body orelse st) = py_loop query ey k body orelse st.
  Proof.
    intros Hag k; induction k as [|k IH]; intros inl body orelse st Hb Ho; cbn [ps_loop py_loop]; [reflexivity|].
    destruct (query st) as [[|] st1].
    - pose proof (block_agree ep ey Hag true body st1 Hb) as E.
      destruct (ps_block ep body st1) as [st2 r]; destruct (py_block ey body st1) as [st2' o].
      rewrite cv_pair in E. inversion E; subst st2' o; clear E.
      destruct r as [[| | |v]|e|]; cbn [out_of out_of_val]; try reflexivity; apply (IH inl); assumption.
    - apply (else_block_agree ep ey Hag inl); assumption.
  Qed.

  Lemma loop_safe ey query : safe ey ->
    forall k body orelse st, forallb (supp false) orelse = true ->
      is_jump (snd (py_loop query ey k body orelse st)) = false.
  Proof.
    intros Hs k; induction k as [|k IH]; intros body orelse st Ho; cbn [py_loop]; [reflexivity|].
    destruct (query st) as [[|] st1].
    - destruct (py_block ey body st1) as [st2 o]. destruct o; cbn [snd is_jump]; try reflexivity; apply IH; assumption.
    - apply block_safe; assumption.
  Qed.

  (* ---------------------------------------------------------------------------------------------- *)
  (* try                                                                                            *)
  (* ---------------------------------------------------------------------------------------------- *)
  Lemma ps_unbind_off name (st : state) : ps_unbind no_dev name st = Some (unbind name st).
  Proof. destruct name; reflexivity. Qed.

  Lemma ps_caught_off e : ps_caught h no_dev e = true.
  Proof. reflexivity. Qed.

  Lemma handlers_agree ep ey e : agree ep ey ->
    forall inl hs st, forallb (fun hd : handler => forallb (supp inl) (snd hd)) hs = true ->
      cv (ps_handlers h no_dev ep e hs st) = py_handle h ey e hs st.
  Proof.
    intros Hag inl hs; induction hs as [|[[m name] hb] hs IH]; intros st Hh; unfold py_handle in *;
      cbn [ps_handlers py_find_handler forallb] in *; [reflexivity|].
    apply andb_prop in Hh as [Hb Hh]. cbn [snd] in Hb.
    destruct (h_matches h (s_h st) m e).
    - pose proof (block_agree ep ey Hag inl hb (bind name e st) Hb) as E.
      destruct (ps_block ep hb (bind name e st)) as [st2 r]; destruct (py_block ey hb (bind name e st)) as [st2' o].
      rewrite cv_pair in E. inversion E; subst st2' o; clear E.
      rewrite ps_unbind_off.
      destruct r as [[| | |v]|e'|]; reflexivity.
    - apply IH; assumption.
  Qed.

  Lemma handlers_safe ey e : safe ey ->
    forall hs st, forallb (fun hd : handler => forallb (supp false) (snd hd)) hs = true ->
      is_jump (snd (py_handle h ey e hs st)) = false.
  Proof.
    intros Hs hs; induction hs as [|[[m name] hb] hs IH]; intros st Hh; unfold py_handle in *;
      cbn [py_find_handler forallb] in *; [reflexivity|].
    apply andb_prop in Hh as [Hb Hh]. cbn [snd] in Hb.
    destruct (h_matches h (s_h st) m e).
    - pose proof (block_safe ey Hs hb (bind name e st) Hb) as E.
      destruct (py_block ey hb (bind name e st)) as [st2 o]. destruct o; cbn [snd is_jump] in *; congruence.
    - apply IH; assumption.
  Qed.

  Lemma finally_agree (rp : option exc -> stmt -> state -> state * pres) (ry : option exc -> stmt -> state -> state * outcome) :
    (forall cur, agree (rp cur) (ry cur)) ->
    forall inl cur fb p, forallb (supp inl) fb = true ->
      cv (ps_finally rp cur fb p) = py_finally ry cur fb (cv p).
  Proof.
    intros Hag inl cur fb [st2 r2] Hf. rewrite cv_pair. unfold ps_finally, py_finally.
    destruct r2 as [v2|e2|]; [| |reflexivity].
    - pose proof (block_agree _ _ (Hag cur) inl fb st2 Hf) as E.
      destruct (ps_block (rp cur) fb st2) as [st3 r3].
      destruct v2; cbn [out_of out_of_val];
        (destruct (py_block (ry cur) fb st2) as [st3' o3]; rewrite cv_pair in E; inversion E; subst st3' o3;
         destruct r3 as [[| | |v3]|e3|]; reflexivity).
    - pose proof (block_agree _ _ (Hag (Some e2)) inl fb st2 Hf) as E. cbn [out_of].
      destruct (ps_block (rp (Some e2)) fb st2) as [st3 r3]; destruct (py_block (ry (Some e2)) fb st2) as [st3' o3].
      rewrite cv_pair in E. inversion E; subst st3' o3.
      destruct r3 as [[| | |v]|e|]; reflexivity.
  Qed.

  Lemma finally_safe (ry : option exc -> stmt -> state -> state * outcome) :
    (forall cur, safe (ry cur)) ->
    forall cur fb p, forallb (supp false) fb = true -> is_jump (snd p) = false ->
      is_jump (snd (py_finally ry cur fb p)) = false.
  Proof.
    intros Hs cur fb [st2 o2] Hf Hp. unfold py_finally. cbn [snd] in Hp.
    destruct o2; try discriminate; try reflexivity;
      match goal with |- context [py_block (ry ?c) fb st2] =>
        pose proof (block_safe _ (Hs c) fb st2 Hf) as E; destruct (py_block (ry c) fb st2) as [st3 o3];
        destruct o3; cbn [snd is_jump] in *; congruence end.
  Qed.

  Lemma try_agree (rp : option exc -> stmt -> state -> state * pres) (ry : option exc -> stmt -> state -> state * outcome) :
    (forall cur, agree (rp cur) (ry cur)) ->
    forall inl cur body hs orelse finalbody st,
      supp inl (STry body hs orelse finalbody) = true ->
      cv (ps_try h no_dev rp cur body hs orelse finalbody st) = py_try h ry cur body hs orelse finalbody st.
  Proof.
    intros Hag inl cur body hs orelse finalbody st Hs.
    cbn [supp] in Hs. apply andb_prop in Hs as [Hs Hf]. apply andb_prop in Hs as [Hs Ho]. apply andb_prop in Hs as [Hb Hh].
    unfold ps_try, py_try. rewrite (finally_agree rp ry Hag inl) by assumption. f_equal.
    pose proof (block_agree _ _ (Hag cur) inl body st Hb) as E.
    destruct (ps_block (rp cur) body st) as [st1 r1]; destruct (py_block (ry cur) body st) as [st1' o1].
    rewrite cv_pair in E. inversion E; subst st1' o1; clear E.
    destruct r1 as [[| | |v]|e|]; cbn [out_of out_of_val]; try reflexivity.
    - apply (block_agree _ _ (Hag cur) inl); assumption.
    - rewrite ps_caught_off. apply (handlers_agree _ _ e (Hag (Some e)) inl); assumption.
  Qed.

  Lemma try_safe (ry : option exc -> stmt -> state -> state * outcome) :
    (forall cur, safe (ry cur)) ->
    forall cur body hs orelse finalbody st,
      supp false (STry body hs orelse finalbody) = true ->
      is_jump (snd (py_try h ry cur body hs orelse finalbody st)) = false.
  Proof.
    intros Hsf cur body hs orelse finalbody st Hs.
    cbn [supp] in Hs. apply andb_prop in Hs as [Hs Hf]. apply andb_prop in Hs as [Hs Ho]. apply andb_prop in Hs as [Hb Hh].
    unfold py_try. apply finally_safe; [assumption|assumption|].
    pose proof (block_safe _ (Hsf cur) body st Hb) as E.
    destruct (py_block (ry cur) body st) as [st1 o1]. cbn [snd] in E.
    destruct o1; try discriminate; try reflexivity.
    - apply block_safe; [apply Hsf|assumption].
    - apply handlers_safe; [apply Hsf|assumption].
  Qed.

  (* ---------------------------------------------------------------------------------------------- *)
  (* with                                                                                           *)
  (* ---------------------------------------------------------------------------------------------- *)
  Lemma with1_agree m (ip : state -> state * pres) (iy : state -> state * outcome) :
    (forall st, cv (ip st) = iy st) ->
    forall st, cv (ps_with1 h no_dev m ip st) = py_with1 h m iy st.
  Proof.
    intros Hi st. unfold ps_with1, py_with1.
    destruct (do_enter h m (emit (EvMk m) st)) as [[e|] st2]; [reflexivity|].
    specialize (Hi st2). destruct (ip st2) as [st3 r]; destruct (iy st2) as [st3' o].
    rewrite cv_pair in Hi. inversion Hi; subst st3' o; clear Hi.
    unfold ps_with_finish.
    destruct r as [v|e|]; [| |reflexivity].
    - cbn [ps_exits_none].
      destruct v; cbn [out_of out_of_val]; destruct (do_exit h m None st3) as [[b|e'] st4]; reflexivity.
    - rewrite ps_caught_off. cbn [ps_exits_exc out_of].
      destruct (do_exit h m (Some e) st3) as [[[|]|e'] st4]; reflexivity.
  Qed.

  Lemma with_agree ep ey : agree ep ey ->
    forall inl items body st, forallb (supp inl) body = true ->
      cv (ps_with_nested h no_dev ep items body st) = py_with h ey items body st.
  Proof.
    intros Hag inl items; induction items as [|m r IH]; intros body st Hb; cbn [ps_with_nested py_with].
    - apply (block_agree ep ey Hag inl); assumption.
    - apply with1_agree. intros st'. apply IH; assumption.
  Qed.

  Lemma with1_safe m (iy : state -> state * outcome) :
    (forall st, is_jump (snd (iy st)) = false) -> forall st, is_jump (snd (py_with1 h m iy st)) = false.
  Proof.
    intros Hi st. unfold py_with1.
    destruct (do_enter h m (emit (EvMk m) st)) as [[e|] st2]; [reflexivity|].
    specialize (Hi st2). destruct (iy st2) as [st3 o]. cbn [snd] in Hi.
    destruct o; try discriminate; try reflexivity;
      match goal with |- context [do_exit h m ?i st3] => destruct (do_exit h m i st3) as [[[|]|e'] st4]; reflexivity end.
  Qed.

  Lemma with_safe ey : safe ey ->
    forall items body st, forallb (supp false) body = true -> is_jump (snd (py_with h ey items body st)) = false.
  Proof.
    intros Hs items; induction items as [|m r IH]; intros body st Hb; cbn [py_with].
    - apply block_safe; assumption.
    - apply with1_safe. intros st'. apply IH; assumption.
  Qed.

  (* ---------------------------------------------------------------------------------------------- *)
  (* function boundary                                                                              *)
  (* ---------------------------------------------------------------------------------------------- *)
  Lemma func_block_agree ep ey : agree ep ey -> safe ey ->
    forall b st, forallb (supp false) b = true ->
      ps_func_block ep b st = (fst (py_block ey b st), py_call_result (snd (py_block ey b st))).
  Proof.
    intros Hag Hsf b; induction b as [|s b IH]; intros st Hb; cbn [ps_func_block py_block forallb] in *; [reflexivity|].
    apply andb_prop in Hb as [Hs Hb].
    pose proof (Hsf s st Hs) as Hj. specialize (Hag false s st Hs).
    destruct (ep s st) as [st1 r]; destruct (ey s st) as [st1' o]. rewrite cv_pair in Hag.
    inversion Hag; subst st1' o; clear Hag. cbn [snd] in Hj.
    destruct r as [[| | |v]|e|]; cbn [out_of out_of_val is_jump] in *; try discriminate; try reflexivity.
    apply IH; assumption.
  Qed.

  Lemma call_agree ep ey k : agree ep ey -> safe ey ->
    forall b st, forallb (supp false) b = true -> cv (ps_call ep k b st) = py_call ey k b st.
  Proof.
    intros Hag Hsf b st Hb. unfold ps_call, py_call.
    rewrite (func_block_agree ep ey Hag Hsf) by assumption.
    destruct (py_block ey b (set_env [] st)) as [st1 o]. cbn [fst snd].
    destruct (py_call_result o); reflexivity.
  Qed.

  Lemma xcall_agree ep ey k info : agree ep ey -> safe ey ->
    forall x st, forallb (supp false) x = true -> ps_xcall ep k info x st = py_xcall ey k info x st.
  Proof.
    intros Hag Hsf x st Hx. unfold ps_xcall, py_xcall.
    rewrite (func_block_agree ep ey Hag Hsf) by assumption.
    destruct (py_block ey x (set_env [] (emit (EvExit k info) st))) as [st1 o]. cbn [fst snd].
    destruct (py_call_result o); reflexivity.
  Qed.

  Lemma withS_agree (rp : option exc -> stmt -> state -> state * pres) (ry : option exc -> stmt -> state -> state * outcome) :
    (forall cur, agree (rp cur) (ry cur)) -> (forall cur, safe (ry cur)) ->
    forall inl cur a k x b st, supp inl (SWithS a k x b) = true ->
      cv (ps_withS h no_dev rp cur k x b st) = py_withS ry cur k x b st.
  Proof.
    intros Hag Hsf inl cur a k x b st Hs. cbn [supp] in Hs. apply andb_prop in Hs as [Hx Hb].
    unfold ps_withS, py_withS.
    pose proof (block_agree _ _ (Hag cur) inl b (emit (EvEnter k) st) Hb) as E.
    destruct (ps_block (rp cur) b (emit (EvEnter k) st)) as [st3 r]; destruct (py_block (ry cur) b (emit (EvEnter k) st)) as [st3' o].
    rewrite cv_pair in E. inversion E; subst st3' o; clear E.
    destruct r as [v|e|]; [| |reflexivity].
    - rewrite (xcall_agree _ _ k None (Hag cur) (Hsf cur)) by assumption.
      destruct v; cbn [out_of out_of_val];
        destruct (py_xcall (ry cur) k None x st3) as [st4 [v'|e'|]]; reflexivity.
    - rewrite ps_caught_off. cbn [out_of].
      rewrite (xcall_agree _ _ k (Some e) (Hag (Some e)) (Hsf (Some e))) by assumption.
      destruct (py_xcall (ry (Some e)) k (Some e) x st3) as [st4 [v'|e'|]]; try reflexivity.
      destruct (truthy v'); reflexivity.
  Qed.

  Lemma withS_safe (ry : option exc -> stmt -> state -> state * outcome) :
    (forall cur, safe (ry cur)) ->
    forall cur k x b st, forallb (supp false) b = true -> is_jump (snd (py_withS ry cur k x b st)) = false.
  Proof.
    intros Hsf cur k x b st Hb. unfold py_withS.
    pose proof (block_safe _ (Hsf cur) b (emit (EvEnter k) st) Hb) as E.
    destruct (py_block (ry cur) b (emit (EvEnter k) st)) as [st3 o]. cbn [snd] in E.
    destruct o; try discriminate; try reflexivity;
      match goal with |- context [py_xcall ?ev k ?i x st3] =>
        destruct (py_xcall ev k i x st3) as [st4 [v'|e'|]]; try reflexivity end.
    destruct (truthy v'); reflexivity.
  Qed.

  Lemma call_safe ey k b (st : state) : is_jump (snd (py_call ey k b st)) = false.
  Proof.
    unfold py_call. destruct (py_block ey b (set_env [] st)) as [st1 o]. destruct (py_call_result o); reflexivity.
  Qed.

  (* ---------------------------------------------------------------------------------------------- *)
  (* statements: induction on fuel                                                                  *)
  (* ---------------------------------------------------------------------------------------------- *)
  Lemma py_stmt_safe : forall f cur, safe (py_stmt h f cur).
  Proof.
    induction f as [|f IH]; intros cur s st Hs; [reflexivity|].
    cbn [py_stmt]. destruct s; cbn [py_step]; try reflexivity; try discriminate Hs.
    - (* if *) cbn [supp] in Hs. apply andb_prop in Hs as [Hb Ho].
      destruct (q_cond h k st) as [[|] st1]; apply block_safe; auto.
    - (* while *) cbn [supp] in Hs. apply andb_prop in Hs as [Hb Ho]. apply loop_safe; auto.
    - (* for *) cbn [supp] in Hs. apply andb_prop in Hs as [Hb Ho]. apply loop_safe; auto.
    - (* try *) apply try_safe; auto.
    - (* with *) cbn [supp] in Hs. apply with_safe; auto.
    - (* assert *) destruct (q_cond h k st) as [[|] st1]; [reflexivity|]. destruct (assert_fail h msg st1); reflexivity.
    - (* func *) apply call_safe.
    - (* with, script-defined manager *) cbn [supp] in Hs. apply andb_prop in Hs as [Hx Hb]. apply withS_safe; auto.
  Qed.

  Lemma stmt_agree : forall f cur, agree (ps_stmt h no_dev f cur) (py_stmt h f cur).
  Proof.
    induction f as [|f IH]; intros cur inl s st Hs; [reflexivity|].
    cbn [ps_stmt py_stmt]. destruct s; cbn [ps_step py_step]; try reflexivity.
    - (* if *) cbn [supp] in Hs. apply andb_prop in Hs as [Hb Ho].
      destruct (q_cond h k st) as [[|] st1]; apply (block_agree _ _ (IH cur) inl); assumption.
    - (* while *) cbn [supp] in Hs. apply andb_prop in Hs as [Hb Ho].
      apply (loop_agree _ _ _ (IH cur) _ inl); assumption.
    - (* for *) cbn [supp] in Hs. apply andb_prop in Hs as [Hb Ho].
      change (d202_asyncfor_sync no_dev) with false. cbn [andb].
      apply (loop_agree _ _ _ (IH cur) _ inl); assumption.
    - (* try *) apply (try_agree _ _ IH inl); assumption.
    - (* with *) cbn [supp] in Hs. apply (with_agree _ _ (IH cur) inl); assumption.
    - (* assert *) destruct (q_cond h k st) as [[|] st1]; [reflexivity|]. destruct (assert_fail h msg st1); reflexivity.
    - (* func *) cbn [supp] in Hs. apply call_agree; [apply IH|apply py_stmt_safe|assumption].
    - (* with, script-defined manager *) apply (withS_agree _ _ IH (py_stmt_safe f) inl cur a); assumption.
  Qed.

  (* ---------------------------------------------------------------------------------------------- *)
  (* the property                                                                                   *)
  (* ---------------------------------------------------------------------------------------------- *)
  Theorem flow_equiv : forall cfg body, all_off cfg -> supported body = true ->
    forall fuel h0, ps_exec h cfg fuel body h0 = py_exec h fuel body h0.
  Proof.
    intros cfg body -> Hb fuel h0. unfold ps_exec, py_exec, supported in *.
    rewrite (func_block_agree _ _ (stmt_agree fuel None) (py_stmt_safe fuel None)) by assumption.
    destruct (py_block (py_stmt h fuel None) body (init h0)) as [st o]. reflexivity.
  Qed.
End Equiv.

(* ==================================================================================================== *)
(* today's code: each deviation switch alone already breaks the equivalence (witnesses = known findings) *)
(* ==================================================================================================== *)
From PV Require Import Interp.FlowCheck.

Definition w_classes : cls_table :=
  [(0, [0]); (1, [0; 1]); (2, [0; 1; 2]); (3, [0; 1; 3]); (4, [0; 1; 4]); (5, [0; 1; 5]);
   (6, [0; 1; 6]); (7, [0; 1; 6; 7]); (8, [0; 1; 8]); (9, [0; 9]); (10, [0; 10])]%N.
Definition only_d8 := {| d8_else_drops_jump := true; d9_with_flat := false; d10_base_uncaught := false;
                         d200_unbind_keyerror := false; d201_enter_in_try := false; d202_asyncfor_sync := false |}.
Definition only_d9 := {| d8_else_drops_jump := false; d9_with_flat := true; d10_base_uncaught := false;
                         d200_unbind_keyerror := false; d201_enter_in_try := false; d202_asyncfor_sync := false |}.
Definition only_d10 := {| d8_else_drops_jump := false; d9_with_flat := false; d10_base_uncaught := true;
                          d200_unbind_keyerror := false; d201_enter_in_try := false; d202_asyncfor_sync := false |}.
Definition only_d200 := {| d8_else_drops_jump := false; d9_with_flat := false; d10_base_uncaught := false;
                           d200_unbind_keyerror := true; d201_enter_in_try := false; d202_asyncfor_sync := false |}.
Definition only_d201 := {| d8_else_drops_jump := false; d9_with_flat := false; d10_base_uncaught := false;
                           d200_unbind_keyerror := false; d201_enter_in_try := true; d202_asyncfor_sync := false |}.

(* for i: t1; (for j: t2; else: t3; continue; t4); t5 *)
Definition w_d8_body : list stmt :=
  [SFor FSync 1 [STrace 1; SFor FSync 2 [STrace 2] [STrace 3; SContinue; STrace 4]; STrace 5] []; STrace 6]%N.
Definition w_d8_scripts : scripts := [(1, [1; 1]); (2, [1])]%N.
(* with M(1), M(2 suppresses): t1; raise EA *)
Definition w_d9_body : list stmt := [SWith false [1; 2] [STrace 1; SRaise 6 None]; STrace 2]%N.
Definition w_d9_mgrs : mgr_table := [(1, (None, XRet false)); (2, (None, XRet true))]%N.
(* try: t1; raise BX  except BaseException: t2 *)
Definition w_d10_body : list stmt := [STry [STrace 1; SRaise 9 None] [(MCls [0], None, [STrace 2])] [] []; STrace 3]%N.
(* try: raise EA except EA as e1: (try: raise EB except EB as e1: t1); probe e1 *)
Definition w_d200_body : list stmt :=
  [STry [SRaise 6 None]
        [(MCls [6], Some 1, [STry [SRaise 7 None] [(MCls [7], Some 1, [STrace 1])] [] []; SProbe 1 1])] [] [];
   STrace 2; SReturn (Some 5)]%N.
(* with M(1: __enter__ raises EA, __exit__ returns True): t1 *)
Definition w_d201_body : list stmt := [SWith false [1] [STrace 1]; STrace 2]%N.
Definition w_d201_mgrs : mgr_table := [(1, (Some (exc_of 6), XRet true))]%N.

Definition only_d202 := {| d8_else_drops_jump := false; d9_with_flat := false; d10_base_uncaught := false;
                           d200_unbind_keyerror := false; d201_enter_in_try := false; d202_asyncfor_sync := true |}.
(* async for _ in AIt(1): t1   (AIt: a proper asynchronous iterator) *)
Definition w_d202_body : list stmt := [SFor FAsyncOnly 1 [STrace 1] []; STrace 2]%N.
Definition w_d202_scripts : scripts := [(1, [1])]%N.

Definition differs (cfg : deviations) (sc : scripts) (mg : mgr_table) (body : list stmt) : Prop :=
  supported body = true /\
  ps_exec (chost sc mg [] w_classes) cfg 20 body sc <> py_exec (chost sc mg [] w_classes) 20 body sc.

Lemma refuted_D8 : differs only_d8 w_d8_scripts [] w_d8_body.
Proof. split; [reflexivity|]. vm_compute. discriminate. Qed.
Lemma refuted_D9 : differs only_d9 [] w_d9_mgrs w_d9_body.
Proof. split; [reflexivity|]. vm_compute. discriminate. Qed.
Lemma refuted_D10 : differs only_d10 [] [] w_d10_body.
Proof. split; [reflexivity|]. vm_compute. discriminate. Qed.
Lemma refuted_D200 : differs only_d200 [] [] w_d200_body.
Proof. split; [reflexivity|]. vm_compute. discriminate. Qed.
Lemma refuted_D201 : differs only_d201 [] w_d201_mgrs w_d201_body.
Proof. split; [reflexivity|]. vm_compute. discriminate. Qed.

Lemma refuted_D202 : differs only_d202 w_d202_scripts [] w_d202_body.
Proof. split; [reflexivity|]. vm_compute. discriminate. Qed.

(* what the reference computes on the witnesses (sanity: these are the CPython results of the findings) *)
Example py_d8 : py_exec (chost w_d8_scripts [] [] w_classes) 20 w_d8_body w_d8_scripts =
  ([EvIter 1; EvN 1 true; EvT 1; EvIter 2; EvN 2 true; EvT 2; EvN 2 false; EvT 3;
    EvN 1 true; EvT 1; EvIter 2; EvN 2 true; EvT 2; EvN 2 false; EvT 3; EvN 1 false; EvT 6]%N, CRet None).
Proof. vm_compute. reflexivity. Qed.
Example ps_d8 : ps_exec (chost w_d8_scripts [] [] w_classes) only_d8 20 w_d8_body w_d8_scripts =
  ([EvIter 1; EvN 1 true; EvT 1; EvIter 2; EvN 2 true; EvT 2; EvN 2 false; EvT 3; EvT 4; EvT 5;
    EvN 1 true; EvT 1; EvIter 2; EvN 2 true; EvT 2; EvN 2 false; EvT 3; EvT 4; EvT 5; EvN 1 false; EvT 6]%N, CRet None).
Proof. vm_compute. reflexivity. Qed.

(* the message expression of an assert is evaluated only when the test is false: a passing assert leaves no
   EvMsg event (and an exception its message would raise does not happen); a failing one evaluates it first *)
Definition w_assert_body : list stmt := [SAssert 1 (Some 2); STrace 1; SAssert 3 (Some 4); STrace 2]%N.
Example py_assert_msg :
  py_exec (chost [(1, [1]); (3, [0])]%N [] [(2, Some (exc_of 8)); (4, None)]%N w_classes) 20 w_assert_body [(1, [1]); (3, [0])]%N =
  ([EvC 1 true; EvT 1; EvC 3 false; EvMsg 4]%N, CExc (exc_of cls_AssertionError)).
Proof. vm_compute. reflexivity. Qed.

(* a return pending across a finally clause survives a function call (with its own return) made by that clause,
   and across a script-defined __exit__ that returns *)
Example py_pending_return :
  py_exec (chost [] [] [] w_classes) 20
          [SWithS false 2 [SReturn (Some 0)] [STry [SReturn (Some 5)] [] [] [SFunc false 1 [SReturn (Some 7)]]]]%N [] =
  ([EvEnter 2; EvRet 1 (Some 7); EvExit 2 None]%N, CRet (Some 5)%N).
Proof. vm_compute. reflexivity. Qed.
(* the same try statement executed twice: HC1 is EA (7-1) the first time and EC (9-1) after sw(1) *)
Example py_rebound_handler_class :
  py_exec (chost [(1, [7; 9]); (2, [1; 1])]%N [] [] w_classes) 20
          [SFor FSync 2 [STry [SRaise 7 None] [(MVar [] 1, None, [STrace 1])] [] []; SSwitch 1] []]%N [(1, [7; 9]); (2, [1; 1])]%N =
  ([EvIter 2; EvN 2 true; EvT 1; EvSw 1; EvN 2 true]%N, CExc (exc_of 7)).
Proof. vm_compute. reflexivity. Qed.

(* the hypotheses of flow_equiv are inhabited by a non-trivial skeleton: every construct, nested *)
Definition ex_body : list stmt :=
  [STrace 1;
   SFor FSync 1 [STry [SWith false [1; 2] [SIf 2 [SBreak] [SContinue]]]
                [(MCls [6; 8], Some 1, [SProbe 3 1; SReraise]); (MAny, None, [SReturn (Some 3)])]
                [SWhile 4 [SAssert 5 None; SAssert 7 (Some 8)] [SBreak]]
                [STrace 2; SFunc false 6 [SRaise 7 (Some 8)]; SSwitch 9;
                 SWithS false 10 [SReraise; SReturn (Some 1)] [STry [SRaise 7 None] [(MVar [8] 9, None, [SContinue])] [] []]]]
          [SPass];
   SReturn None]%N.
Example ex_supported : supported ex_body = true.
Proof. reflexivity. Qed.
Example ex_all_off : all_off no_dev.
Proof. reflexivity. Qed.

(* ==================================================================================================== *)
(* the correspondence check and the theorem fit together: if the conformant Model reproduces both       *)
(* observations of a case, the case satisfies the Spec                                                  *)
(* ==================================================================================================== *)
Lemma oN_eqb_eq a b : oN_eqb a b = true <-> a = b.
Proof.
  destruct a as [a|], b as [b|]; cbn; try (split; (reflexivity || discriminate)).
  rewrite N.eqb_eq. split; [intros ->; reflexivity|intros E; inversion E; reflexivity].
Qed.
Lemma exc_eqb_eq a b : exc_eqb a b = true <-> a = b.
Proof.
  destruct a as [c1 k1], b as [c2 k2]; unfold exc_eqb; cbn [x_cls x_cause].
  rewrite andb_true_iff, N.eqb_eq. fold (oN_eqb k1 k2). rewrite oN_eqb_eq.
  split; [intros [-> ->]; reflexivity|intros E; inversion E; auto].
Qed.
Lemma oexc_eqb_eq a b : oexc_eqb a b = true <-> a = b.
Proof.
  destruct a as [a|], b as [b|]; cbn; try (split; (reflexivity || discriminate)).
  rewrite exc_eqb_eq. split; [intros ->; reflexivity|intros E; inversion E; reflexivity].
Qed.
Lemma bool_eqb_eq (a b : bool) : Bool.eqb a b = true <-> a = b.
Proof. destruct a, b; cbn; split; (reflexivity || discriminate). Qed.
Lemma event_eqb_eq a b : event_eqb a b = true <-> a = b.
Proof.
  destruct a, b; cbn [event_eqb]; try (split; discriminate);
    repeat rewrite andb_true_iff; repeat rewrite N.eqb_eq; repeat rewrite bool_eqb_eq;
    repeat rewrite oexc_eqb_eq; repeat rewrite oN_eqb_eq;
    (split; [intros; repeat match goal with H : _ /\ _ |- _ => destruct H end; subst; reflexivity
            |intros E; inversion E; auto]).
Qed.
Lemma cres_eqb_eq a b : cres_eqb a b = true <-> a = b.
Proof.
  destruct a, b; cbn [cres_eqb]; try (split; (reflexivity || discriminate));
    [rewrite oN_eqb_eq|rewrite exc_eqb_eq]; (split; [intros ->; reflexivity|intros E; inversion E; reflexivity]).
Qed.
Lemma run_eqb_eq r o : run_eqb r o = true <-> r = (o_log o, o_res o).
Proof.
  destruct r as [l c]. unfold run_eqb; cbn [fst snd].
  rewrite andb_true_iff, (list_eqb_eq event_eqb event_eqb_eq), cres_eqb_eq.
  split; [intros [-> ->]; reflexivity|intros E; inversion E; auto].
Qed.

Lemma model_implies_spec : forall ct c, fcase_model_ok no_dev ct c = true -> fcase_spec_ok c = true.
Proof.
  intros ct c Hm. unfold fcase_model_ok in Hm.
  apply andb_prop in Hm as [Hm Hy]. apply andb_prop in Hm as [Hs Hp].
  apply run_eqb_eq in Hp. apply run_eqb_eq in Hy.
  unfold model_ps, model_py in *.
  rewrite (flow_equiv _ no_dev (fc_body c) eq_refl Hs) in Hp.
  rewrite Hp in Hy. inversion Hy as [[El Er]].
  unfold fcase_spec_ok. rewrite El, Er.
  apply andb_true_intro. split.
  - apply (list_eqb_eq event_eqb event_eqb_eq). reflexivity.
  - apply cres_eqb_eq. reflexivity.
Qed.
