(* Proofs/InterpWitness.v — the hypotheses of the C01 theorems are inhabited (a concrete builtin host), and every
   deviation switch, on its own, makes the model of pyscript observably different from the reference on the
   witness program of its finding (vm_compute on the concrete host). *)
From Coq Require Import List NArith ZArith Bool.
From PV Require Import Common.Util Interp.Syntax Interp.Host Interp.PsEval Interp.PyRef Interp.BuiltinHost Proofs.InterpEquiv.
Import ListNotations.

Lemma builtin_host_H1 : H1 bh_prim.
Proof. intros v h. eexists. reflexivity. Qed.

Lemma builtin_host_H2 : H2 bh_prim.
Proof.
  split.
  - intros o a b h h' v E.
    destruct a as [[]| | | | | |]; destruct b as [[]| | | | | |]; destruct o; cbn in E; inversion E; eauto.
  - intros t h. reflexivity.
Qed.

Definition ps_obs (cfg : deviations) (p : program) := option_map obs (ps_run bh_state bh_prim bh_hashable cfg 30 p bh_init bh_env).
Definition py_obs (p : program) := option_map obs (py_run bh_state bh_prim bh_hashable 30 p bh_init bh_env).

(* the example program terminates normally, calls the tracer and f several times, and is evaluated alike *)
Lemma example_runs : exists e t, py_obs w_example = Some (e, t, ONormal) /\ 10 <= length t.
Proof. eexists. eexists. split; [vm_compute; reflexivity|]. vm_compute. repeat constructor. Qed.

Lemma example_agrees : ps_obs no_deviations w_example = py_obs w_example.
Proof. vm_compute. reflexivity. Qed.

Lemma refuted_D1 : ps_obs (only_dev 1) w_D1 <> py_obs w_D1.   Proof. vm_compute. discriminate. Qed.
Lemma refuted_D2 : ps_obs (only_dev 2) w_D2 <> py_obs w_D2.   Proof. vm_compute. discriminate. Qed.
Lemma refuted_D3 : ps_obs (only_dev 3) w_D3 <> py_obs w_D3.   Proof. vm_compute. discriminate. Qed.
Lemma refuted_D4 : ps_obs (only_dev 4) w_D4 <> py_obs w_D4.   Proof. vm_compute. discriminate. Qed.
Lemma refuted_D5 : ps_obs (only_dev 5) w_D5 <> py_obs w_D5.   Proof. vm_compute. discriminate. Qed.
Lemma refuted_D6 : ps_obs (only_dev 6) w_D6 <> py_obs w_D6.   Proof. vm_compute. discriminate. Qed.
Lemma refuted_D7 : ps_obs (only_dev 7) w_D7 <> py_obs w_D7.   Proof. vm_compute. discriminate. Qed.
Lemma refuted_D100 : ps_obs (only_dev 100) w_D100 <> py_obs w_D100.   Proof. vm_compute. discriminate. Qed.
Lemma refuted_D101 : ps_obs (only_dev 101) w_D101 <> py_obs w_D101.   Proof. vm_compute. discriminate. Qed.
Lemma refuted_D102 : ps_obs (only_dev 102) w_D102 <> py_obs w_D102.   Proof. vm_compute. discriminate. Qed.
Lemma refuted_D103 : ps_obs (only_dev 103) w_D103 <> py_obs w_D103.   Proof. vm_compute. discriminate. Qed.
Lemma refuted_D104 : ps_obs (only_dev 104) w_D104 <> py_obs w_D104.   Proof. vm_compute. discriminate. Qed.
Lemma refuted_D105 : ps_obs (only_dev 105) w_D105 <> py_obs w_D105.   Proof. vm_compute. discriminate. Qed.

(* with the switch off the same witnesses are evaluated alike (so the difference is the switch's) *)
Lemma witnesses_agree_when_off :
  forallb (fun p => match ps_obs no_deviations p, py_obs p with
                    | Some a, Some b => true
                    | _, _ => false
                    end)
          [w_D1; w_D2; w_D3; w_D4; w_D5; w_D6; w_D7; w_D100; w_D101; w_D102; w_D103; w_D104; w_D105] = true.
Proof. vm_compute. reflexivity. Qed.
