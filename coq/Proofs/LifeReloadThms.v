(* Proofs/LifeReloadThms.v — one reload as a whole, and histories of reloads (C10):
     reload_origin   where every context of the resulting table comes from;
     untouched_spec  what is outside the declarative discard set keeps its identity;
     no_stale_after_default / star_discards_all / history lifting. *)
From PV Require Import Common.Util Life.ReloadBase Gen.ReloadConsts Life.Modules Life.Reload Life.ReloadPlanSpec Life.ReloadSpec
  Proofs.LifeReloadBase Proofs.LifeClosure Proofs.LifePlan Proofs.LifeUntouched Proofs.LifeExec Proofs.LifeDiscover Proofs.LifeDiscoverDoc.
From Coq Require Import Lia.

Lemma uniq_map_names (g : gctx -> gctx) st : (forall c, c_name (g c) = c_name c) -> uniq_ctx st -> uniq_ctx (map g st).
Proof.
  intros Hg. unfold uniq_ctx. rewrite map_map.
  assert (E : map (fun x => c_name (g x)) st = map c_name st) by (apply map_ext; exact Hg). rewrite E. auto.
Qed.

Lemma start_phase_name dv a c0 :
  forall c, c = (if negb (in_ctx_roots (c_name c0)) then c0 else
                 match a with
                 | RName n => if d_named_start dv then if prefix_of n (c_name c0) then set_started c0 else c0 else set_started c0
                 | _ => set_started c0
                 end) -> c = c0 \/ c = set_started c0.
Proof.
  intros c ->. destruct (negb _); [auto|]. destruct a; auto. destruct (d_named_start dv); auto. destruct (prefix_of n (c_name c0)); auto.
Qed.

Lemma start_phase_In dv a st c' : In c' (start_phase dv a st) -> exists c, In c st /\ (c' = c \/ c' = set_started c).
Proof.
  unfold start_phase. intros H. apply in_map_iff in H. destruct H as (c & E & Hc). exists c. split; [exact Hc|].
  apply (start_phase_name dv a c). symmetry. exact E.
Qed.

Lemma start_phase_uniq dv a st : uniq_ctx st -> uniq_ctx (start_phase dv a st).
Proof.
  unfold start_phase. apply uniq_map_names. intros c.
  destruct (negb _); [reflexivity|]. destruct a; try reflexivity. destruct (d_named_start dv); [|reflexivity].
  destruct (prefix_of n (c_name c)); reflexivity.
Qed.

Lemma ping_uniq st : uniq_ctx st -> uniq_ctx (ping st).
Proof. unfold ping. apply uniq_map_names. intros c. destruct (c_started c); reflexivity. Qed.

Lemma delete_phase_In st del c : In c (delete_phase st del) ->
  In c st /\ (~ In (c_name c) del \/ ~ In (c_name c) (map c_name (ctx_all st))).
Proof.
  unfold delete_phase. generalize (map c_name (ctx_all st)). intros all. revert st.
  induction del as [|n del IH]; intros st H; cbn [fold_left] in H; [split; [exact H|left; intros []]|].
  apply IH in H. destruct H as [H1 H2]. destruct (nl_mem n all) eqn:Em.
  - apply st_del_In in H1. destruct H1 as [H1 Hne]. split; [exact H1|].
    destruct H2 as [H2|H2]; [left|right; exact H2]. intros [E|HI]; [congruence|tauto].
  - split; [exact H1|]. destruct H2 as [H2|H2]; [|right; exact H2].
    destruct (list_eq_dec N.eq_dec n (c_name c)) as [->|Hne].
    + right. apply nl_mem_false. exact Em.
    + left. intros [E|HI]; [congruence|tauto].
Qed.

Lemma delete_phase_uniq st del : uniq_ctx st -> uniq_ctx (delete_phase st del).
Proof.
  unfold delete_phase. generalize (map c_name (ctx_all st)). intros all. revert st.
  induction del as [|n del IH]; intros st H; cbn [fold_left]; [exact H|].
  apply IH. destruct (nl_mem n all); [apply uniq_st_del; exact H|exact H].
Qed.

(* ---------- where the contexts of the new table come from ---------- *)
Definition fresh_mod (dv : deviations) (t : tree) (born : N) (c : gctx) : Prop :=
  c_born c = born /\ c_cnt c = 0%N /\ c_ismod c = true /\ c_cfg c = None /\
  exists sn sr i cs cnd f, candidates dv sn sr i = Some cs /\ In cnd cs /\ tree_get t (cd_path cnd) = Some f /\
    c_name c = cd_name cnd /\ c_gen c = f_gen f /\ c_mtime c = f_mtime f /\ c_rel c = cd_rel cnd.

Definition fresh_auto (loads : list sfile) (born : N) (c : gctx) : Prop :=
  c_born c = born /\ c_cnt c = 0%N /\ c_ismod c = false /\
  exists s, In s loads /\ c_name c = sf_name s /\ c_gen c = sf_gen s /\ c_mtime c = sf_mtime s /\ c_cfg c = sf_cfg s /\ c_rel c = sf_rel s.

Definition origin (dv : deviations) (t : tree) (born : N) (old : state) (loads : list sfile) (c : gctx) : Prop :=
  In c old \/ fresh_mod dv t born c \/ fresh_auto loads born c.

Lemma load_one_origin dv t born old loads w s : In s loads ->
  all_Q (origin dv t born old loads) (w_st w) -> all_Q (origin dv t born old loads) (w_st (load_one dv t born w s)).
Proof.
  intros Hs Hw. unfold load_one.
  assert (Hq : forall cnd f started imps self_name self_rel i cs,
             candidates dv self_name self_rel i = Some cs -> In cnd cs -> tree_get t (cd_path cnd) = Some f ->
             origin dv t born old loads {| c_name := cd_name cnd; c_gen := f_gen f; c_mtime := f_mtime f; c_cfg := None; c_imports := imps;
                   c_ismod := true; c_rel := cd_rel cnd; c_born := born; c_started := started; c_cnt := 0 |}).
  { intros cnd f started imps sn sr i cs Ec Hc Hf. right; left. unfold fresh_mod. cbn.
    repeat split; auto. exists sn, sr, i, cs, cnd, f. repeat split; auto. }
  pose proof (exec_body_Q dv t born (origin dv t born old loads) Hq (exec_fuel t) false (sf_name s) (sf_rel s) (sf_imps s)
                (st_del (w_st w) (sf_name s)) (w_ev w ++ [(sf_name s, sf_gen s)]) (all_Q_del _ _ _ Hw)) as Hx.
  destruct (exec_body _ dv t born false (sf_name s) (sf_rel s) (sf_imps s) _ _) as [st2 ev2 imps2|st2 ev2|]; cbn in Hx |- *.
  - apply all_Q_set; [exact Hx|]. right; right. unfold fresh_auto. cbn. repeat split; auto. exists s. repeat split; auto.
  - exact Hx.
  - apply all_Q_del. exact Hw.
Qed.

Theorem reload_origin dv born st t k a : uniq_ctx st ->
  let pl := plan dv st (discover t k) a in
  let r := reload dv born st t k a in
  uniq_ctx (r_st r) /\
  forall c', In c' (r_st r) -> exists c, (c' = c \/ c' = set_started c) /\
     origin dv t born (if p_ok pl then delete_phase st (p_del pl) else st) (load_list (p_files pl)) c.
Proof.
  intros Hu pl r. subst r. unfold reload. fold pl. destruct (p_ok pl); cbn [negb r_st].
  - set (loads := load_list (p_files pl)). set (old := delete_phase st (p_del pl)).
    assert (Hfold : forall l w, incl l loads -> all_Q (origin dv t born old loads) (w_st w) ->
               all_Q (origin dv t born old loads) (w_st (fold_left (load_one dv t born) l w))).
    { induction l as [|s l IH]; intros w Hl Hw; cbn [fold_left]; [exact Hw|].
      apply IH; [intros x Hx; apply Hl; cbn; auto|]. apply load_one_origin; [apply Hl; cbn; auto|exact Hw]. }
    specialize (Hfold loads {| w_st := old; w_ev := []; w_fuel := true |} (incl_refl _)).
    destruct Hfold as [Hu' Hq'].
    { split; [apply delete_phase_uniq; exact Hu|]. intros c Hc. left. exact Hc. }
    split; [apply start_phase_uniq; exact Hu'|].
    intros c' Hc'. apply start_phase_In in Hc'. destruct Hc' as (c & Hc & E). exists c. split; [exact E|apply Hq'; exact Hc].
  - split; [apply start_phase_uniq; exact Hu|].
    intros c' Hc'. apply start_phase_In in Hc'. destruct Hc' as (c & Hc & E). exists c. split; [exact E|left; exact Hc].
Qed.

(* ---------- the conformant model against the declarative plan ---------- *)
Lemma load_list_In fs s : In s (load_list fs) <-> In s fs /\ sf_auto s = true /\ sf_force s = true.
Proof.
  unfold load_list. rewrite filter_In, sort_by_In, andb_true_iff. tauto.
Qed.

Lemma Forced_discarded st fs a s' : Forced st fs a s' -> loaded st (sf_name s') ->
  Discard st fs a (sf_name s') \/ Forced0 st fs a (sf_name s').
Proof.
  intros [[Hw _]|[_ [H0|[Hi _]]]] Hl.
  - left. right. split; [exact Hw|right; exact Hl].
  - right. exact H0.
  - left. left. right. exact Hi.
Qed.

Lemma plan_not_ok dv st fs a : p_ok (plan dv st fs a) = false -> p_del (plan dv st fs a) = [] /\ p_files (plan dv st fs a) = fs.
Proof.
  unfold plan. destruct (plan_changed dv (ctx_all st) fs a) as [ps1|]; [|cbn; auto].
  destruct (plan_imports dv st (ctx_all st) ps1) as [ps2 fok]. cbn. discriminate.
Qed.

Lemma plan_ok_full dv st fs a : (forall n, a <> RName n) -> p_ok (plan dv st fs a) = true.
Proof.
  intros Ha. unfold plan. destruct a as [| |n]; [| |exfalso; apply (Ha n); reflexivity]; cbn [plan_changed];
    match goal with |- context [plan_imports ?d ?s ?al ?p] => destruct (plan_imports d s al p) as [ps2 fok] end; reflexivity.
Qed.

Lemma loaded_of_In st c : In c st -> in_ctx_roots (c_name c) = true -> loaded st (c_name c).
Proof. intros Hc Hr. unfold loaded. apply in_map. apply ctx_all_In. auto. Qed.

(* C10, "leaves all other contexts untouched": outside the declarative discard set (and not the named context)
   the context object is still in the table, at most with its triggers (re)armed *)
Theorem untouched_spec born st t k a c :
  uniq_ctx st -> acyclic st -> In c st -> in_ctx_roots (c_name c) = true ->
  (c_ismod c = true \/ safe_name all_off t (c_name c)) ->
  ~ Discard st (discover t k) a (c_name c) -> ~ Forced0 st (discover t k) a (c_name c) ->
  let st' := r_st (reload all_off born st t k a) in
  In c st' \/ In (set_started c) st'.
Proof.
  intros Hu Hac Hc Hr Hsafe Hnd Hnf. apply reload_untouched; try assumption.
  - destruct (p_ok (plan all_off st (discover t k) a)) eqn:Eok.
    + destruct (plan_exact st (discover t k) a Hac (discover_fresh t k) (discover_uniq t k) (ctx_all_uniq st Hu) Eok) as (_ & _ & Hd & _).
      rewrite Hd. exact Hnd.
    + destruct (plan_not_ok _ _ _ _ Eok) as [-> _]. intros [].
  - intros HI. apply in_map_iff in HI. destruct HI as (s' & En & Hs'). apply load_list_In in Hs'. destruct Hs' as (Hs' & Ha & Hf).
    destruct (p_ok (plan all_off st (discover t k) a)) eqn:Eok.
    + destruct (plan_exact st (discover t k) a Hac (discover_fresh t k) (discover_uniq t k) (ctx_all_uniq st Hu) Eok) as (_ & _ & _ & HF).
      apply (HF s' Hs') in Hf. destruct (Forced_discarded _ _ _ _ Hf) as [H|H].
      * rewrite En. apply loaded_of_In; assumption.
      * apply Hnd. rewrite <- En. exact H.
      * apply Hnf. rewrite <- En. exact H.
    + destruct (plan_not_ok _ _ _ _ Eok) as [_ Ef]. rewrite Ef in Hs'. rewrite (discover_fresh t k s' Hs') in Hf. discriminate.
Qed.

(* C10, the post-state of a default or '*' reload: every context of the new table runs the current source of an
   existing file -- a survivor is unchanged with respect to the discovered file of its name (source generation,
   mtime and app configuration), a re-executed auto-loaded file is its discovered entry, and a module brought in by an
   import is the tree's file at an import candidate's path under that candidate's name *)
Definition current_ctx (t : tree) (k : apps_config) (born : N) (c : gctx) : Prop :=
  (exists s, sf_find (discover t k) (c_name c) = Some s /\ changed all_off s c = false)
  \/ fresh_mod all_off t born c.

Lemma changed_started dv s c : changed dv s (set_started c) = changed dv s c.
Proof. reflexivity. Qed.

Theorem post_state_current born st t k a :
  uniq_ctx st -> acyclic st -> (forall n, a <> RName n) ->
  let st' := r_st (reload all_off born st t k a) in
  uniq_ctx st' /\ forall c', In c' st' -> exists c, (c' = c \/ c' = set_started c) /\
                                           (in_ctx_roots (c_name c) = true -> current_ctx t k born c).
Proof.
  intros Hu Hac Ha st'.
  destruct (reload_origin all_off born st t k a Hu) as [Hu' Horig]. split; [exact Hu'|].
  intros c' Hc'. destruct (Horig c' Hc') as (c & E & Ho). exists c. split; [exact E|]. intros Hroot.
  pose proof (plan_ok_full all_off st (discover t k) a Ha) as Eok. rewrite Eok in Ho.
  destruct (plan_exact st (discover t k) a Hac (discover_fresh t k) (discover_uniq t k) (ctx_all_uniq st Hu) Eok) as (_ & Hsame & Hd & HF).
  destruct Ho as [Hold|[Hm|Hauto]].
  - (* a survivor: not in the delete set, hence not Changed *)
    left. apply delete_phase_In in Hold. destruct Hold as [Hc Hn].
    assert (Hl : loaded st (c_name c)) by (apply loaded_of_In; [exact Hc|exact Hroot]).
    destruct Hn as [Hn|Hn]; [|tauto]. rewrite Hd in Hn.
    assert (Hnc : ~ Changed st (discover t k) a (c_name c)) by (intros H; apply Hn; left; left; exact H).
    destruct a as [| |n]; [| |exfalso; apply (Ha n); reflexivity]; unfold Changed in Hnc; [|tauto].
    destruct (sf_find (discover t k) (c_name c)) as [s|] eqn:Fs.
    + exists s. split; [reflexivity|]. destruct (changed all_off s c) eqn:Ec; [|reflexivity].
      exfalso. apply Hnc. split; [exact Hl|]. right. exists c, s. repeat split; auto. apply ctx_all_In. auto.
    + exfalso. apply Hnc. split; [exact Hl|]. left. unfold on_disk. intros H. apply sf_find_has in H. destruct H as (s & H). congruence.
  - right. exact Hm.
  - left. destruct Hauto as (_ & _ & _ & s' & Hs' & En & Eg & Em & Ec & _).
    apply load_list_In in Hs'. destruct Hs' as (Hs' & _).
    destruct (same_files_In _ _ _ Hsame Hs') as (s & b & Hs & ->). exists s. cbn in En, Eg, Em, Ec.
    split; [rewrite En; apply sf_find_uniq; [apply discover_uniq|exact Hs]|].
    unfold changed. rewrite Eg, Em, Ec, !N.eqb_refl. unfold cfg_same. cbn [d_null_cfg all_off].
    assert (Ho : option_eqb N.eqb (sf_cfg s) (sf_cfg s) = true) by (destruct (sf_cfg s); cbn; [apply N.eqb_refl|reflexivity]).
    rewrite Ho. cbn [negb]. rewrite !andb_false_r. reflexivity.
Qed.

(* a '*' reload keeps nothing *)
Theorem star_discards_all born st t k c' :
  uniq_ctx st -> acyclic st ->
  In c' (r_st (reload all_off born st t k RAll)) ->
  exists c, (c' = c \/ c' = set_started c) /\ (in_ctx_roots (c_name c) = true -> c_born c = born).
Proof.
  intros Hu Hac Hc'.
  destruct (reload_origin all_off born st t k RAll Hu) as [_ Horig]. destruct (Horig c' Hc') as (c & E & Ho). exists c. split; [exact E|]. intros Hroot.
  assert (Eok : p_ok (plan all_off st (discover t k) RAll) = true) by (apply plan_ok_full; discriminate). rewrite Eok in Ho.
  destruct (plan_exact st (discover t k) RAll Hac (discover_fresh t k) (discover_uniq t k) (ctx_all_uniq st Hu) Eok) as (_ & _ & Hd & _).
  destruct Ho as [Hold|[Hm|Hauto]]; [|apply Hm|apply Hauto].
  exfalso. apply delete_phase_In in Hold. destruct Hold as [Hc Hn].
  assert (Hl : loaded st (c_name c)) by (apply loaded_of_In; [exact Hc|exact Hroot]).
  destruct Hn as [Hn|Hn]; [|tauto]. apply Hn. apply Hd. left. left. exact Hl.
Qed.

(* C10, "re-executes those of them that are auto-loaded": every auto-loaded file the plan forces is executed (its
   load event, with its current source generation, is among the events of the reload) *)
Lemma load_one_ev dv t born w s :
  incl (w_ev w) (w_ev (load_one dv t born w s)) /\ In (sf_name s, sf_gen s) (w_ev (load_one dv t born w s)).
Proof.
  unfold load_one.
  pose proof (exec_body_ev dv t (exec_fuel t) born false (sf_name s) (sf_rel s) (sf_imps s)
                (st_del (w_st w) (sf_name s)) (w_ev w ++ [(sf_name s, sf_gen s)])) as H.
  destruct (exec_body _ dv t born false (sf_name s) (sf_rel s) (sf_imps s) _ _); cbn in H |- *.
  - split; [intros x Hx|]; apply H; apply in_or_app; cbn; auto.
  - split; [intros x Hx|]; apply H; apply in_or_app; cbn; auto.
  - split; [intros x Hx|]; apply in_or_app; cbn; auto.
Qed.

Theorem reload_reexecutes dv born st t k a s :
  let pl := plan dv st (discover t k) a in
  p_ok pl = true -> In s (load_list (p_files pl)) -> In (sf_name s, sf_gen s) (r_ev (reload dv born st t k a)).
Proof.
  intros pl Hok Hs. unfold reload. fold pl. rewrite Hok. cbn [negb r_ev].
  generalize {| w_st := delete_phase st (p_del pl); w_ev := []; w_fuel := true |}.
  revert Hs. generalize (load_list (p_files pl)). intros l. induction l as [|x l IH]; intros Hs w; [destruct Hs|].
  cbn [fold_left]. destruct Hs as [->|Hs]; [|apply IH; exact Hs].
  assert (Hmono : forall l' w', incl (w_ev w') (w_ev (fold_left (load_one dv t born) l' w'))).
  { induction l' as [|y l' IHl]; intros w'; cbn [fold_left]; [apply incl_refl|].
    eapply incl_tran; [apply (load_one_ev dv t born w' y)|apply IHl]. }
  apply Hmono. apply (load_one_ev dv t born w s).
Qed.

(* C10, lower bound of the post-state: after a default or '*' reload every discovered auto-loaded file is either
   executed by this reload (at its current generation) or was loaded before and is outside the discard set (then
   C10_untouched keeps it) *)
Lemma same_files_fwd fs fs' s : same_files fs fs' -> In s fs -> exists b, In (sf_set_force b s) fs'.
Proof.
  induction 1 as [|x x' fs fs' [b ->] H IH]; intros HI; [destruct HI|].
  destruct HI as [->|HI]; [exists b; cbn; auto|]. destruct (IH HI) as (b' & Hb). exists b'. cbn; auto.
Qed.

Lemma InWidened_under st fs a n : InWidened st fs a n -> under_roots widen_roots n = true.
Proof.
  intros (r & (n0 & Hu0 & <- & _) & Hp). apply (prefix_root2 widen_roots n0 n Hu0) in Hp. apply Hp.
Qed.

Lemma autoload_cases (born : N) st t k a s :
  uniq_ctx st -> acyclic st -> (forall n, a <> RName n) -> In s (discover t k) -> sf_auto s = true ->
  In (sf_set_force true s) (load_list (p_files (plan all_off st (discover t k) a)))
  \/ (exists c, In c st /\ c_name c = sf_name s /\ in_ctx_roots (c_name c) = true
        /\ ~ Discard st (discover t k) a (sf_name s) /\ ~ Forced0 st (discover t k) a (sf_name s)).
Proof.
  intros Hu Hac Ha Hs Hau. set (fs := discover t k) in *. set (n := sf_name s).
  pose proof (plan_ok_full all_off st fs a Ha) as Eok.
  destruct (plan_exact st fs a Hac (discover_fresh t k) (discover_uniq t k) (ctx_all_uniq st Hu) Eok) as (_ & Hsame & Hd & HF).
  destruct (same_files_fwd _ _ s Hsame Hs) as (b & Hs').
  destruct b.
  - left. apply load_list_In. cbn. auto.
  - right. assert (HnF : ~ Forced st fs a (sf_set_force false s)).
    { intros H. apply (HF _ Hs') in H. discriminate. }
    assert (Hroot : InWidened st fs a n -> False).
    { intros HW. apply HnF. left. split; [exact HW|]. apply InWidened_under in HW.
      apply (auto_root_file t k s Hs Hau HW). }
    assert (HnF1 : ~ Forced1 st fs a n) by (intros H; apply HnF; right; split; [exact Hroot|exact H]).
    assert (HnF0 : ~ Forced0 st fs a n) by (intros H; apply HnF1; left; exact H).
    assert (Hdisk : sf_has fs n = true) by (apply sf_has_In; apply in_map; exact Hs).
    assert (Hfind : sf_find fs n = Some s) by (apply sf_find_uniq; [apply discover_uniq|exact Hs]).
    destruct (in_dec (list_eq_dec N.eq_dec) n (map c_name (ctx_all st))) as [Hl|Hnl].
    + apply in_map_iff in Hl. destruct Hl as (c & En & Hc). apply ctx_all_In in Hc. destruct Hc as [Hc Hr].
      exists c. split; [exact Hc|]. split; [exact En|]. split; [exact Hr|]. split; [|exact HnF0].
      intros [[Hch|Himp]|[HW _]]; [| |exact (Hroot HW)].
      * destruct a as [| |m]; [| |exfalso; apply (Ha m); reflexivity]; unfold Changed in Hch.
        -- destruct Hch as [_ [Hnd|(c2 & s2 & Hc2 & En2 & Fs2 & Hchg)]]; [apply Hnd; exact Hdisk|].
           apply HnF0. unfold Forced0. exists s2. split; [exact Fs2|]. left. exists c2. auto.
        -- apply HnF0. exact Hdisk.
      * apply HnF1. right. split; [exact Himp|exact Hdisk].
    + exfalso. apply HnF0. destruct a as [| |m]; [| |exfalso; apply (Ha m); reflexivity]; unfold Forced0.
      * exists s. split; [exact Hfind|]. right. split; [exact Hnl|exact Hau].
      * exact Hdisk.
Qed.

Theorem autoload_complete born st t k a s :
  uniq_ctx st -> acyclic st -> (forall n, a <> RName n) -> In s (discover t k) -> sf_auto s = true ->
  In (sf_name s, sf_gen s) (r_ev (reload all_off born st t k a))
  \/ (exists c, In c st /\ c_name c = sf_name s /\ in_ctx_roots (c_name c) = true
        /\ ~ Discard st (discover t k) a (sf_name s) /\ ~ Forced0 st (discover t k) a (sf_name s)).
Proof.
  intros Hu Hac Ha Hs Hau. destruct (autoload_cases born st t k a s Hu Hac Ha Hs Hau) as [H|H]; [left|right; exact H].
  apply (reload_reexecutes all_off born st t k a (sf_set_force true s) (plan_ok_full all_off st (discover t k) a Ha) H).
Qed.

(* ---------- histories: the per-reload theorems hold at every step of every sequence of reloads ---------- *)
Fixpoint hist_all (P : N -> state -> rstep -> rarg -> Prop) (born : N) (old : option N) (st : state) (steps : list rstep) : Prop :=
  match steps with
  | [] => True
  | s :: rest =>
      let a := eff_arg old s in       (* '*' when the global options changed since the previous reload *)
      P born st s a /\
      hist_all P (born + 1)%N (next_old born s) (ping (r_st (reload all_off born st (rs_tree s) (rs_cfg s) a))) rest
  end.

Definition step_thms (born : N) (st : state) (s : rstep) (a : rarg) : Prop :=
  let t := rs_tree s in let k := rs_cfg s in
  let fs := discover t k in
  let pl := plan all_off st fs a in
  let r := reload all_off born st t k a in
  uniq_ctx st
  /\ (p_ok pl = true -> p_fuel_ok pl = true /\ same_files fs (p_files pl)
        /\ (forall n, In n (p_del pl) <-> Discard st fs a n)
        /\ (forall s', In s' (load_list (p_files pl)) <-> In s' (p_files pl) /\ sf_auto s' = true /\ Forced st fs a s')
        /\ (forall s', In s' (load_list (p_files pl)) -> In (sf_name s', sf_gen s') (r_ev r)))
  /\ (forall c, In c st -> in_ctx_roots (c_name c) = true -> (c_ismod c = true \/ safe_name all_off t (c_name c)) ->
        ~ Discard st fs a (c_name c) -> ~ Forced0 st fs a (c_name c) -> In c (r_st r) \/ In (set_started c) (r_st r))
  /\ ((forall n, a <> RName n) -> forall c', In c' (r_st r) ->
        exists c, (c' = c \/ c' = set_started c) /\ (in_ctx_roots (c_name c) = true -> current_ctx t k born c)).

Theorem history_thms : forall steps born old st, uniq_ctx st ->
  hist_all (fun _ st _ _ => acyclic st) born old st steps -> hist_all step_thms born old st steps.
Proof.
  induction steps as [|s rest IH]; intros born old st Hu Hac; cbn [hist_all]; [exact I|].
  destruct Hac as [Hac Hrest]. set (a := eff_arg old s) in *. split.
  - unfold step_thms. split; [exact Hu|]. split; [|split].
    + intros Hok.
      destruct (plan_exact st (discover (rs_tree s) (rs_cfg s)) a Hac (discover_fresh _ _) (discover_uniq _ _) (ctx_all_uniq st Hu) Hok)
        as (H1 & H2 & H3 & H4).
      split; [exact H1|]. split; [exact H2|]. split; [exact H3|]. split.
      * intros s'. rewrite load_list_In. split; intros (A & B & C); (split; [exact A|split; [exact B|]]); apply (H4 s' A); exact C.
      * intros s' Hs'. apply reload_reexecutes; assumption.
    + intros c Hc Hr Hs Hd Hf. apply untouched_spec; assumption.
    + intros Ha c' Hc'. apply (post_state_current born st (rs_tree s) (rs_cfg s) a Hu Hac Ha). exact Hc'.
  - apply IH; [|exact Hrest]. apply ping_uniq. apply (reload_origin all_off born st (rs_tree s) (rs_cfg s) a Hu).
Qed.

(* C10, the exact re-execution set: whatever a reload executes is an auto-loaded file the plan forces, or a file an
   import statement resolved to (module_import only loads what is not loaded: see C10_untouched); with
   C10_reexecuted: executed = forced auto-loaded files + lazily imported modules, nothing else *)
Definition lazily_imported (dv : deviations) (t : tree) (e : event) : Prop :=
  exists sn sr i cs cnd f, candidates dv sn sr i = Some cs /\ In cnd cs /\ tree_get t (cd_path cnd) = Some f /\ e = (cd_name cnd, f_gen f).

Theorem reload_events_origin dv born st t k a e :
  In e (r_ev (reload dv born st t k a)) ->
  (exists s, In s (load_list (p_files (plan dv st (discover t k) a))) /\ e = (sf_name s, sf_gen s)) \/ lazily_imported dv t e.
Proof.
  unfold reload. set (pl := plan dv st (discover t k) a). destruct (p_ok pl); cbn [negb r_ev]; [|intros []].
  set (L := load_list (p_files pl)).
  set (E := fun e : event => (exists s, In s L /\ e = (sf_name s, sf_gen s)) \/ lazily_imported dv t e).
  assert (Hnew : forall cnd f self_name self_rel i cs, candidates dv self_name self_rel i = Some cs -> In cnd cs ->
             tree_get t (cd_path cnd) = Some f -> E (cd_name cnd, f_gen f)).
  { intros cnd f sn sr i cs Ec Hc Hf. right. exists sn, sr, i, cs, cnd, f. auto. }
  assert (Hfold : forall l w, incl l L -> all_E E (w_ev w) -> all_E E (w_ev (fold_left (load_one dv t born) l w))).
  { induction l as [|s l IH]; intros w Hl Hw; cbn [fold_left]; [exact Hw|].
    apply IH; [intros x Hx; apply Hl; cbn; auto|]. unfold load_one.
    assert (Hev : all_E E (w_ev w ++ [(sf_name s, sf_gen s)])).
    { intros x Hx. apply in_app_or in Hx. destruct Hx as [Hx|[<-|[]]]; [apply Hw; exact Hx|]. left. exists s. split; [apply Hl; cbn; auto|reflexivity]. }
    pose proof (exec_body_E dv t E Hnew (exec_fuel t) born false (sf_name s) (sf_rel s) (sf_imps s) (st_del (w_st w) (sf_name s)) _ Hev) as Hx.
    destruct (exec_body _ dv t born false (sf_name s) (sf_rel s) (sf_imps s) _ _); cbn in Hx |- *; [exact Hx|exact Hx|exact Hev]. }
  intros He. apply (Hfold L {| w_st := delete_phase st (p_del pl); w_ev := []; w_fuel := true |} (incl_refl _)); [intros x []|exact He].
Qed.
