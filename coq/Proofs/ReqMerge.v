(* Proofs/ReqMerge.v — highest-pin selection, order independence and ignored lines for the model of
   process_all_requirements (C20, first sentence).  Version order: any total preorder on valid strings. *)
From PV Require Import Common.Util Gen.ReqConsts Req.Merge Req.Install Req.Spec.
From Coq Require Import Lia Permutation.

(* ---------- strings ---------- *)
Lemma str_eqb_eq a b : str_eqb a b = true <-> a = b.
Proof. apply list_eqb_eq. intros; apply N.eqb_eq. Qed.
Lemma str_eqb_refl a : str_eqb a a = true.
Proof. apply str_eqb_eq. reflexivity. Qed.
Lemma str_eqb_neq a b : str_eqb a b = false <-> a <> b.
Proof.
  split.
  - intros H E. apply str_eqb_eq in E. congruence.
  - intros H. destruct (str_eqb a b) eqn:E; [apply str_eqb_eq in E; contradiction|reflexivity].
Qed.
Lemma str_eqb_sym a b : str_eqb a b = str_eqb b a.
Proof.
  destruct (str_eqb a b) eqn:E.
  - apply str_eqb_eq in E. subst. symmetry. apply str_eqb_refl.
  - symmetry. apply str_eqb_neq. apply str_eqb_neq in E. congruence.
Qed.

(* ---------- the table ---------- *)
Lemma tlookup_tset k k' e t : tlookup k' (tset k e t) = if str_eqb k' k then Some e else tlookup k' t.
Proof.
  induction t as [|[k0 e0] r IH]; cbn [tset tlookup].
  - reflexivity.
  - destruct (str_eqb k k0) eqn:E.
    + apply str_eqb_eq in E. subst k0. cbn [tlookup]. destruct (str_eqb k' k); reflexivity.
    + cbn [tlookup]. destruct (str_eqb k' k0) eqn:E0.
      * apply str_eqb_eq in E0. subst k0. rewrite str_eqb_sym, E. reflexivity.
      * exact IH.
Qed.

Lemma tset_keys k e t :
  map fst (tset k e t) = if existsb (str_eqb k) (map fst t) then map fst t else map fst t ++ [k].
Proof.
  induction t as [|[k0 e0] r IH]; cbn [tset map fst existsb]; [reflexivity|].
  destruct (str_eqb k k0) eqn:E; cbn [map fst orb].
  - reflexivity.
  - rewrite IH. destruct (existsb (str_eqb k) (map fst r)); reflexivity.
Qed.

Lemma NoDup_snoc {A} (l : list A) x : NoDup l -> ~ In x l -> NoDup (l ++ [x]).
Proof.
  induction l as [|a l IH]; intros ND Hx; cbn [app].
  - constructor; [intros []|constructor].
  - inversion ND as [|? ? Ha ND']; subst. constructor.
    + intros Hin. apply in_app_or in Hin. destruct Hin as [Hin|[Hin|[]]]; [exact (Ha Hin)|]. subst. apply Hx. left. reflexivity.
    + apply IH; [exact ND'|]. intros Hin. apply Hx. right. exact Hin.
Qed.

Lemma tset_NoDup k e t : NoDup (map fst t) -> NoDup (map fst (tset k e t)).
Proof.
  intros H. rewrite tset_keys. destruct (existsb (str_eqb k) (map fst t)) eqn:E; [exact H|].
  apply NoDup_snoc; [exact H|]. intros Hx.
  assert (existsb (str_eqb k) (map fst t) = true); [|congruence].
  apply existsb_exists. exists k. split; [exact Hx|apply str_eqb_refl].
Qed.

Lemma tlookup_In k e t : tlookup k t = Some e -> In (k, e) t.
Proof.
  induction t as [|[k0 e0] r IH]; cbn [tlookup]; [discriminate|].
  destruct (str_eqb k k0) eqn:E.
  - apply str_eqb_eq in E. subst. intros H; inversion H; left; reflexivity.
  - intros H. right. exact (IH H).
Qed.

Lemma In_tlookup k e t : NoDup (map fst t) -> In (k, e) t -> tlookup k t = Some e.
Proof.
  induction t as [|[k0 e0] r IH]; cbn [tlookup map fst]; intros ND HI; [destruct HI|].
  inversion ND as [|? ? Hn ND']; subst.
  destruct HI as [HI|HI].
  - inversion HI; subst. rewrite str_eqb_refl. reflexivity.
  - destruct (str_eqb k k0) eqn:E.
    + apply str_eqb_eq in E. subst k0. exfalso. apply Hn. apply in_map_iff. exists (k, e). split; [reflexivity|exact HI].
    + exact (IH ND' HI).
Qed.

(* ---------- requirements as parsed; the fold over them ---------- *)
Definition req := (N * str * option str)%type.       (* file, package key, version *)
Definition r_file (r : req) := fst (fst r).
Definition r_name (r : req) := snd (fst r).
Definition r_ver (r : req) := snd r.

Definition parse_reqs (sp : bool) (ls : list (N * str)) : list req :=
  flat_map (fun fl => match parse_line sp (snd fl) with PReq n v => [(fst fl, n, v)] | _ => [] end) ls.

Section MergeProofs.
  Variable vvalid : str -> bool.
  Variable vle : str -> str -> bool.
  Variable installed : str -> option str.
  Hypothesis vle_total : forall a b, vvalid a = true -> vvalid b = true -> vle a b = true \/ vle b a = true.
  Hypothesis vle_trans : forall a b c, vvalid a = true -> vvalid b = true -> vvalid c = true ->
    vle a b = true -> vle b c = true -> vle a c = true.
  Hypothesis vvalid_nil : vvalid [] = false.
  Hypothesis vvalid_marker : vvalid unpinned_version = false.

  Local Notation merge_req := (merge_req vvalid vle installed).
  Local Notation merge_core := (merge_core vvalid vle installed).
  Local Notation merge_line := (merge_line vvalid vle installed).
  Local Notation merge_lines := (merge_lines vvalid vle installed).
  Local Notation veq := (veq vle).
  Local Notation vlt := (vlt vle).

  Definition merge_reqs (d24 : bool) (rs : list req) (t : table) : table :=
    fold_left (fun t r => merge_req d24 t (r_file r) (r_name r) (r_ver r)) rs t.

  Lemma merge_lines_from cfg ls t :
    fold_left (merge_line cfg) ls t = merge_reqs (d24_unvalidated cfg) (parse_reqs (negb (d25_no_strip cfg)) ls) t.
  Proof.
    revert t. induction ls as [|[f l] r IH]; intros t; [reflexivity|].
    cbn [fold_left parse_reqs flat_map]. fold (parse_reqs (negb (d25_no_strip cfg)) r).
    unfold merge_reqs. rewrite fold_left_app. fold (merge_reqs (d24_unvalidated cfg)).
    rewrite IH. f_equal. unfold Merge.merge_line. cbn [fst snd].
    destruct (parse_line (negb (d25_no_strip cfg)) l); reflexivity.
  Qed.

  Lemma merge_lines_reqs cfg ls :
    merge_lines cfg ls = merge_reqs (d24_unvalidated cfg) (parse_reqs (negb (d25_no_strip cfg)) ls) [].
  Proof. apply merge_lines_from. Qed.

  (* every step leaves the table alone or sets the entry of its own package *)
  Lemma merge_core_shape t f n nv : merge_core t f n nv = t \/ exists e, merge_core t f n nv = tset n e t.
  Proof.
    unfold Merge.merge_core.
    destruct (tlookup n t) as [e|]; [|right; eexists; reflexivity].
    destruct (ver_falsy (e_ver e)); [right; eexists; reflexivity|].
    destruct nv as [v|], (e_ver e) as [c|]; try (right; eexists; reflexivity); try (left; reflexivity).
    destruct (negb (vvalid c) || negb (vvalid v)); [left; reflexivity|].
    destruct (veq c v); [right; eexists; reflexivity|].
    destruct (vlt c v); [right; eexists; reflexivity|left; reflexivity].
  Qed.

  Lemma merge_req_shape d t f n nv : merge_req d t f n nv = t \/ exists e, merge_req d t f n nv = tset n e t.
  Proof.
    unfold Merge.merge_req.
    destruct (negb d && match nv with Some v => negb (vvalid v) | None => false end); [left; reflexivity|].
    apply merge_core_shape.
  Qed.

  Lemma norm_ver_valid v : vvalid v = true -> norm_ver (Some v) = Some v.
  Proof.
    intros H. cbn [norm_ver]. destruct (str_eqb v unpinned_version) eqn:E; [|reflexivity].
    apply str_eqb_eq in E. subst. rewrite vvalid_marker in H. discriminate.
  Qed.

  Lemma merge_req_other d t f n nv p : p <> n -> tlookup p (merge_req d t f n nv) = tlookup p t.
  Proof.
    intros H. destruct (merge_req_shape d t f n nv) as [E|[e E]]; rewrite E; [reflexivity|].
    rewrite tlookup_tset. apply str_eqb_neq in H. rewrite H. reflexivity.
  Qed.

  Lemma merge_req_NoDup d t f n nv : NoDup (map fst t) -> NoDup (map fst (merge_req d t f n nv)).
  Proof.
    intros H. destruct (merge_req_shape d t f n nv) as [E|[e E]]; rewrite E; [exact H|apply tset_NoDup; exact H].
  Qed.

  Lemma merge_reqs_NoDup d rs : forall t, NoDup (map fst t) -> NoDup (map fst (merge_reqs d rs t)).
  Proof.
    induction rs as [|r rs IH]; intros t H; [exact H|]. cbn [merge_reqs fold_left]. apply IH. apply merge_req_NoDup. exact H.
  Qed.

  (* the conformant reading: what package p effectively requires, in order (unparsable pins dropped) *)
  Definition eff (p : str) (rs : list req) : list (option str) :=
    flat_map (fun r =>
      if str_eqb (r_name r) p then
        match r_ver r with
        | None => [None]
        | Some v => if vvalid v then [Some v] else []
        end
      else []) rs.

  Lemma eff_app p a b : eff p (a ++ b) = eff p a ++ eff p b.
  Proof. unfold eff. apply flat_map_app. Qed.

  Lemma eff_valid p rs v : In (Some v) (eff p rs) -> vvalid v = true.
  Proof.
    unfold eff. intros H. apply in_flat_map in H. destruct H as (r & _ & H).
    destruct (str_eqb (r_name r) p); [|destruct H].
    destruct (r_ver r) as [w|]; [|destruct H as [H|[]]; discriminate].
    destruct (vvalid w) eqn:E; [|destruct H]. destruct H as [H|[]]. inversion H; subst. exact E.
  Qed.

  Definition good_entry (p : str) (E : list (option str)) (oe : option entry) : Prop :=
    match oe with
    | None => E = []
    | Some e =>
        E <> [] /\ e_inst e = installed p /\
        match e_ver e with
        | None => forall v, ~ In (Some v) E
        | Some w => vvalid w = true /\ In (Some w) E /\ forall v, In (Some v) E -> vle v w = true
        end
    end.

  Definition inv (rs : list req) (t : table) : Prop := forall p, good_entry p (eff p rs) (tlookup p t).

  Lemma vle_refl a : vvalid a = true -> vle a a = true.
  Proof. intros H. destruct (vle_total a a H H); assumption. Qed.

  Lemma app_not_nil {A} (l : list A) x : l ++ [x] <> [].
  Proof. destruct l; discriminate. Qed.

  (* one conformant step preserves the invariant *)
  Lemma inv_step rs t f n nv : inv rs t -> inv (rs ++ [(f, n, nv)]) (merge_req false t f n nv).
  Proof.
    intros I p. rewrite eff_app.
    destruct (str_eqb n p) eqn:Enp.
    2:{ (* another package *)
      assert (Hne : p <> n) by (apply str_eqb_neq in Enp; congruence).
      rewrite merge_req_other by exact Hne.
      cbn [eff flat_map r_name r_ver fst snd]. rewrite Enp. cbn [app]. rewrite app_nil_r. apply I. }
    apply str_eqb_eq in Enp. subst p.
    specialize (I n). cbn [eff flat_map r_name r_ver fst snd]. rewrite str_eqb_refl. rewrite app_nil_r.
    unfold Merge.merge_req. cbn [negb andb].
    destruct nv as [v|].
    - (* a pinned line *)
      destruct (vvalid v) eqn:Ev; cbn [negb].
      2:{ rewrite app_nil_r. exact I. }
      rewrite (norm_ver_valid v Ev). unfold Merge.merge_core.
      destruct (tlookup n t) as [e|] eqn:El.
      + destruct I as (Hne & Hi & Hv).
        destruct (e_ver e) as [c|] eqn:Ec.
        * destruct Hv as (Hc & Hin & Hmax).
          assert (Hf : ver_falsy (Some c) = false).
          { destruct c; [rewrite vvalid_nil in Hc; discriminate|reflexivity]. }
          rewrite Hf, Hc, Ev. cbn [negb orb].
          destruct (veq c v) eqn:Eq.
          -- rewrite tlookup_tset, str_eqb_refl. cbn [good_entry add_src e_ver e_inst]. rewrite Ec.
             split; [apply app_not_nil|]. split; [exact Hi|]. split; [exact Hc|].
             split; [apply in_or_app; left; exact Hin|].
             intros v' Hv'. apply in_app_or in Hv'. destruct Hv' as [Hv'|[Hv'|[]]]; [apply Hmax; exact Hv'|].
             inversion Hv'; subst. unfold Merge.veq in Eq. apply andb_true_iff in Eq. tauto.
          -- destruct (vlt c v) eqn:Elt.
             ++ rewrite tlookup_tset, str_eqb_refl. cbn [good_entry e_ver e_inst].
                split; [apply app_not_nil|]. split; [exact Hi|]. split; [exact Ev|].
                split; [apply in_or_app; right; left; reflexivity|].
                unfold Merge.vlt in Elt. apply andb_true_iff in Elt. destruct Elt as [Hcv _].
                intros v' Hv'. apply in_app_or in Hv'. destruct Hv' as [Hv'|[Hv'|[]]].
                ** apply (vle_trans v' c v); try assumption; [exact (eff_valid _ _ _ Hv')|apply Hmax; exact Hv'].
                ** inversion Hv'; subst. apply vle_refl. exact Ev.
             ++ rewrite El. cbn [good_entry]. rewrite Ec.
                split; [apply app_not_nil|]. split; [exact Hi|]. split; [exact Hc|].
                split; [apply in_or_app; left; exact Hin|].
                intros v' Hv'. apply in_app_or in Hv'. destruct Hv' as [Hv'|[Hv'|[]]]; [apply Hmax; exact Hv'|].
                inversion Hv'; subst.
                destruct (vle_total c v' Hc Ev) as [H|H]; [|exact H].
                unfold Merge.veq in Eq. unfold Merge.vlt in Elt. rewrite H in Eq, Elt. cbn [andb] in Eq, Elt.
                destruct (vle v' c); [reflexivity|discriminate].
        * (* the entry was unpinned: the pin replaces it *)
          cbn [ver_falsy]. rewrite tlookup_tset, str_eqb_refl. cbn [good_entry e_ver e_inst].
          split; [apply app_not_nil|]. split; [reflexivity|]. split; [exact Ev|].
          split; [apply in_or_app; right; left; reflexivity|].
          intros v' Hv'. apply in_app_or in Hv'. destruct Hv' as [Hv'|[Hv'|[]]]; [exfalso; exact (Hv v' Hv')|].
          inversion Hv'; subst. apply vle_refl. exact Ev.
      + (* first requirement of this package *)
        cbn [good_entry] in I. rewrite I. cbn [app].
        rewrite tlookup_tset, str_eqb_refl. cbn [good_entry e_ver e_inst].
        split; [discriminate|]. split; [reflexivity|]. split; [exact Ev|]. split; [left; reflexivity|].
        intros v' [Hv'|[]]. inversion Hv'; subst. apply vle_refl. exact Ev.
    - (* an unpinned line *)
      cbn [norm_ver]. unfold Merge.merge_core.
      destruct (tlookup n t) as [e|] eqn:El.
      + destruct I as (Hne & Hi & Hv).
        destruct (e_ver e) as [c|] eqn:Ec.
        * destruct Hv as (Hc & Hin & Hmax).
          assert (Hf : ver_falsy (Some c) = false).
          { destruct c; [rewrite vvalid_nil in Hc; discriminate|reflexivity]. }
          rewrite Hf. rewrite El. cbn [good_entry]. rewrite Ec.
          split; [apply app_not_nil|]. split; [exact Hi|]. split; [exact Hc|].
          split; [apply in_or_app; left; exact Hin|].
          intros v' Hv'. apply in_app_or in Hv'. destruct Hv' as [Hv'|[Hv'|[]]]; [apply Hmax; exact Hv'|discriminate].
        * cbn [ver_falsy]. rewrite tlookup_tset, str_eqb_refl. cbn [good_entry add_src e_ver e_inst]. rewrite Ec.
          split; [apply app_not_nil|]. split; [exact Hi|].
          intros v' Hv'. apply in_app_or in Hv'. destruct Hv' as [Hv'|[Hv'|[]]]; [exact (Hv v' Hv')|discriminate].
      + cbn [good_entry] in I. rewrite I. cbn [app].
        rewrite tlookup_tset, str_eqb_refl. cbn [good_entry e_ver e_inst].
        split; [discriminate|]. split; [reflexivity|]. intros v' [Hv'|[]]. discriminate.
  Qed.

  Lemma merge_reqs_snoc d rs r t : merge_reqs d (rs ++ [r]) t = merge_req d (merge_reqs d rs t) (r_file r) (r_name r) (r_ver r).
  Proof. unfold merge_reqs. rewrite fold_left_app. reflexivity. Qed.

  Theorem merge_reqs_inv rs : inv rs (merge_reqs false rs []).
  Proof.
    induction rs as [|[[f n] nv] rs IH] using rev_ind.
    - intros p. reflexivity.
    - rewrite merge_reqs_snoc. cbn [r_file r_name r_ver fst snd]. apply inv_step. exact IH.
  Qed.

  (* when every pin parses, validating first (conformant) and not validating (D24) coincide *)
  Definition pins_valid (rs : list req) : Prop := forall r v, In r rs -> r_ver r = Some v -> vvalid v = true.

  Lemma merge_req_d24 t f n nv : (forall v, nv = Some v -> vvalid v = true) -> merge_req true t f n nv = merge_req false t f n nv.
  Proof.
    intros H. unfold Merge.merge_req. cbn [negb andb].
    destruct nv as [v|]; [rewrite (H v eq_refl)|]; reflexivity.
  Qed.

  Lemma merge_reqs_d24 rs : forall t, pins_valid rs -> merge_reqs true rs t = merge_reqs false rs t.
  Proof.
    induction rs as [|r rs IH]; intros t H; [reflexivity|].
    cbn [merge_reqs fold_left]. fold (merge_reqs true rs). fold (merge_reqs false rs).
    rewrite merge_req_d24.
    - apply IH. intros r' v Hr. apply H. right. exact Hr.
    - intros v Hv. apply (H r v); [left; reflexivity|exact Hv].
  Qed.

  Definition cfg_ok (cfg : deviations) (ls : list (N * str)) : Prop :=
    d24_unvalidated cfg = true -> pins_valid (parse_reqs (negb (d25_no_strip cfg)) ls).

  Lemma merge_lines_inv cfg ls : cfg_ok cfg ls ->
    inv (parse_reqs (negb (d25_no_strip cfg)) ls) (merge_lines cfg ls).
  Proof.
    intros H. rewrite merge_lines_reqs. destruct (d24_unvalidated cfg) eqn:E.
    - rewrite merge_reqs_d24 by (apply H; exact E). apply merge_reqs_inv.
    - apply merge_reqs_inv.
  Qed.

  (* ---------- the statements on lines ---------- *)
  (* line-level reading: some line of [ls] requires package key p with version ov *)
  Definition requires (sp : bool) (p : str) (ov : option str) (ls : list (N * str)) : Prop :=
    exists f l, In (f, l) ls /\ parse_line sp l = PReq p ov.

  Lemma in_parse_reqs sp ls f n ov : In (f, n, ov) (parse_reqs sp ls) <-> exists l, In (f, l) ls /\ parse_line sp l = PReq n ov.
  Proof.
    unfold parse_reqs. rewrite in_flat_map. split.
    - intros ([f' l] & Hin & H). cbn [fst snd] in H. destruct (parse_line sp l) eqn:E; [destruct H|destruct H|].
      destruct H as [H|[]]. inversion H; subst. exists l. split; [exact Hin|exact E].
    - intros (l & Hin & E). exists (f, l). split; [exact Hin|]. cbn [fst snd]. rewrite E. left. reflexivity.
  Qed.

  Lemma in_eff sp p ls ov :
    In ov (eff p (parse_reqs sp ls)) <-> requires sp p ov ls /\ (forall v, ov = Some v -> vvalid v = true).
  Proof.
    unfold eff. rewrite in_flat_map. split.
    - intros ([[f n] nv] & Hin & H). cbn [r_name r_ver fst snd] in H.
      destruct (str_eqb n p) eqn:E; [|destruct H]. apply str_eqb_eq in E. subst n.
      apply in_parse_reqs in Hin. destruct Hin as (l & Hl & Hp).
      destruct nv as [v|].
      + destruct (vvalid v) eqn:Ev; [|destruct H]. destruct H as [H|[]]. subst ov.
        split; [exists f, l; tauto|]. intros v' Hv'. inversion Hv'; subst. exact Ev.
      + destruct H as [H|[]]. subst ov. split; [exists f, l; tauto|]. discriminate.
    - intros ((f & l & Hl & Hp) & Hv). exists (f, p, ov). split; [apply in_parse_reqs; exists l; tauto|].
      cbn [r_name r_ver fst snd]. rewrite str_eqb_refl. destruct ov as [v|].
      + rewrite (Hv v eq_refl). left. reflexivity.
      + left. reflexivity.
  Qed.

  (* C20, selection: the entry of p is the highest valid pin; unpinned only if there is no valid pin;
     absent only if nothing (valid) requires p *)
  Theorem merge_max cfg ls p : cfg_ok cfg ls ->
    let sp := negb (d25_no_strip cfg) in
    match tlookup p (merge_lines cfg ls) with
    | None => forall ov, requires sp p ov ls -> exists v, ov = Some v /\ vvalid v = false
    | Some e =>
        e_inst e = installed p /\
        match e_ver e with
        | Some w => vvalid w = true /\ requires sp p (Some w) ls /\
                    forall v, requires sp p (Some v) ls -> vvalid v = true -> vle v w = true
        | None => requires sp p None ls /\ forall v, requires sp p (Some v) ls -> vvalid v = false
        end
    end.
  Proof.
    intros H sp. pose proof (merge_lines_inv cfg ls H p) as I. fold sp in I.
    destruct (tlookup p (merge_lines cfg ls)) as [e|]; cbn [good_entry] in I.
    - destruct I as (Hne & Hi & Hv). split; [exact Hi|].
      destruct (e_ver e) as [w|].
      + destruct Hv as (Hw & Hin & Hmax). split; [exact Hw|]. split; [apply in_eff in Hin; tauto|].
        intros v Hr Hvv. apply Hmax. apply in_eff. split; [exact Hr|]. intros v' Hv'. inversion Hv'; subst. exact Hvv.
      + split.
        * destruct (eff p (parse_reqs sp ls)) as [|[v|] E] eqn:EE; [congruence| |].
          -- exfalso. apply (Hv v). left. reflexivity.
          -- assert (Hin : In None (eff p (parse_reqs sp ls))) by (rewrite EE; left; reflexivity).
             apply in_eff in Hin. tauto.
        * intros v Hr. destruct (vvalid v) eqn:Ev; [|reflexivity]. exfalso. apply (Hv v). apply in_eff.
          split; [exact Hr|]. intros v' Hv'. inversion Hv'; subst. exact Ev.
    - intros ov Hr. destruct ov as [v|].
      + exists v. split; [reflexivity|]. destruct (vvalid v) eqn:Ev; [|reflexivity]. exfalso.
        assert (Hin : In (Some v) (eff p (parse_reqs sp ls))).
        { apply in_eff. split; [exact Hr|]. intros v' Hv'. inversion Hv'; subst. exact Ev. }
        rewrite I in Hin. destruct Hin.
      + exfalso. assert (Hin : In None (eff p (parse_reqs sp ls))) by (apply in_eff; split; [exact Hr|discriminate]).
        rewrite I in Hin. destruct Hin.
  Qed.

  (* ---------- order independence ---------- *)
  Definition ver_equiv_p (a b : option str) : Prop :=
    match a, b with
    | None, None => True
    | Some x, Some y => vvalid x = true /\ vvalid y = true /\ veq x y = true
    | _, _ => False
    end.
  Definition table_equiv (t1 t2 : table) : Prop :=
    forall p, match tlookup p t1, tlookup p t2 with
              | None, None => True
              | Some e1, Some e2 => e_inst e1 = e_inst e2 /\ ver_equiv_p (e_ver e1) (e_ver e2)
              | _, _ => False
              end.

  Lemma good_entry_equiv p E E' o o' : (forall x, In x E <-> In x E') ->
    good_entry p E o -> good_entry p E' o' ->
    match o, o' with
    | None, None => True
    | Some e1, Some e2 => e_inst e1 = e_inst e2 /\ ver_equiv_p (e_ver e1) (e_ver e2)
    | _, _ => False
    end.
  Proof.
    intros HE G G'. destruct o as [e|], o' as [e'|]; cbn [good_entry] in G, G'.
    - destruct G as (_ & Hi & Hv), G' as (_ & Hi' & Hv'). split; [congruence|].
      destruct (e_ver e) as [a|], (e_ver e') as [b|]; cbn [ver_equiv_p].
      + destruct Hv as (Ha & Hina & Hma), Hv' as (Hb & Hinb & Hmb).
        split; [exact Ha|]. split; [exact Hb|]. unfold Merge.veq. apply andb_true_iff. split.
        * apply Hmb. apply HE. exact Hina.
        * apply Hma. apply HE. exact Hinb.
      + destruct Hv as (_ & Hina & _). apply (Hv' a). apply HE. exact Hina.
      + destruct Hv' as (_ & Hinb & _). apply (Hv b). apply HE. exact Hinb.
      + exact I.
    - destruct G as (Hne & _). subst E'. destruct E as [|x E]; [congruence|]. apply (HE x). left. reflexivity.
    - destruct G' as (Hne & _). subst E. destruct E' as [|x E']; [congruence|]. apply (HE x). left. reflexivity.
    - exact I.
  Qed.

  Lemma cfg_ok_perm cfg ls ls' : Permutation ls ls' -> cfg_ok cfg ls -> cfg_ok cfg ls'.
  Proof.
    intros P H E r v Hr Hv. apply (H E r v); [|exact Hv].
    unfold parse_reqs in *. eapply Permutation_in; [|exact Hr]. apply Permutation_flat_map. apply Permutation_sym. exact P.
  Qed.

  Theorem merge_perm cfg ls ls' : cfg_ok cfg ls -> Permutation ls ls' ->
    table_equiv (merge_lines cfg ls) (merge_lines cfg ls').
  Proof.
    intros H P p.
    pose proof (merge_lines_inv cfg ls H p) as G.
    pose proof (merge_lines_inv cfg ls' (cfg_ok_perm cfg ls ls' P H) p) as G'.
    refine (good_entry_equiv p _ _ _ _ _ G G').
    intros x. unfold eff, parse_reqs. split; intros Hx; (eapply Permutation_in; [|exact Hx]);
      apply Permutation_flat_map, Permutation_flat_map; [exact P|apply Permutation_sym; exact P].
  Qed.

  (* ---------- ignored lines ---------- *)
  Theorem merge_ignored cfg pre post f l :
    (forall n v, parse_line (negb (d25_no_strip cfg)) l <> PReq n v) ->
    merge_lines cfg (pre ++ (f, l) :: post) = merge_lines cfg (pre ++ post).
  Proof.
    intros H. unfold Merge.merge_lines. rewrite !fold_left_app. cbn [fold_left]. f_equal.
    unfold Merge.merge_line at 1. cbn [fst snd].
    destruct (parse_line (negb (d25_no_strip cfg)) l) eqn:E; try reflexivity. exfalso. exact (H _ _ eq_refl).
  Qed.

  (* table facts needed by the installer proofs *)
  Lemma merge_lines_NoDup cfg ls : NoDup (map fst (merge_lines cfg ls)).
  Proof. rewrite merge_lines_reqs. apply merge_reqs_NoDup. constructor. Qed.

  Lemma merge_core_inst t f n nv :
    (forall k e, tlookup k t = Some e -> e_inst e = installed k) ->
    forall k e, tlookup k (merge_core t f n nv) = Some e -> e_inst e = installed k.
  Proof.
    intros H k e. unfold Merge.merge_core.
    assert (Hfresh : forall x, tlookup k (tset n {| e_ver := x; e_src := [f]; e_inst := installed n |} t) = Some e -> e_inst e = installed k).
    { intros x. rewrite tlookup_tset. destruct (str_eqb k n) eqn:E; [|apply H].
      apply str_eqb_eq in E. subst k. intros Hx. inversion Hx; subst. reflexivity. }
    destruct (tlookup n t) as [e0|] eqn:El; [|apply Hfresh].
    assert (Hadd : tlookup k (tset n (add_src e0 f) t) = Some e -> e_inst e = installed k).
    { rewrite tlookup_tset. destruct (str_eqb k n) eqn:E; [|apply H].
      apply str_eqb_eq in E. subst k. intros Hx. inversion Hx; subst. cbn [add_src e_inst]. apply (H n e0 El). }
    destruct (ver_falsy (e_ver e0)); [apply Hfresh|].
    destruct nv as [v|], (e_ver e0) as [c|]; try apply Hfresh; try apply H; try exact Hadd.
    destruct (negb (vvalid c) || negb (vvalid v)); [apply H|].
    destruct (veq c v); [exact Hadd|].
    destruct (vlt c v); [|apply H].
    rewrite tlookup_tset. destruct (str_eqb k n) eqn:E; [|apply H].
    apply str_eqb_eq in E. subst k. intros Hx. inversion Hx; subst. cbn [e_inst]. apply (H n e0 El).
  Qed.

  Lemma merge_req_inst d t f n nv :
    (forall k e, tlookup k t = Some e -> e_inst e = installed k) ->
    forall k e, tlookup k (merge_req d t f n nv) = Some e -> e_inst e = installed k.
  Proof.
    intros H k e. unfold Merge.merge_req.
    destruct (negb d && match nv with Some v => negb (vvalid v) | None => false end); [apply H|].
    apply merge_core_inst. exact H.
  Qed.

  Lemma merge_lines_inst cfg ls k e : tlookup k (merge_lines cfg ls) = Some e -> e_inst e = installed k.
  Proof.
    rewrite merge_lines_reqs. generalize (parse_reqs (negb (d25_no_strip cfg)) ls). intros rs.
    assert (G : forall t, (forall k e, tlookup k t = Some e -> e_inst e = installed k) ->
                forall k e, tlookup k (merge_reqs (d24_unvalidated cfg) rs t) = Some e -> e_inst e = installed k).
    { induction rs as [|r rs IH]; intros t Ht; [exact Ht|]. cbn [merge_reqs fold_left]. apply IH. apply merge_req_inst. exact Ht. }
    apply G. intros k' e'. discriminate.
  Qed.
End MergeProofs.

(* ---------- the Spec's reading of a line agrees with the model's (constants from Gen) ---------- *)
Lemma reject_chars_spec s :
  existsb (fun c => contains c s) req_reject_chars = contains 44 s || contains 60 s || contains 62 s.
Proof. cbn [req_reject_chars existsb]. destruct (contains 44 s), (contains 60 s), (contains 62 s); reflexivity. Qed.

(* every line the property ignores (blank, comment, one of , < >, more than one "==") adds no requirement *)
Lemma spec_line_none sp l : spec_line l = None -> forall n v, parse_line sp l <> PReq n v.
Proof.
  unfold spec_line, parse_line. change req_comment_char with 35%N. change req_sep with [61; 61]%N.
  intros H n v. destruct (strip (cut_at 35 l)) as [|c s] eqn:Es; [discriminate|].
  rewrite reject_chars_spec.
  destruct (contains 44 (c :: s) || contains 60 (c :: s) || contains 62 (c :: s)); [rewrite orb_true_r; discriminate|].
  rewrite orb_false_r.
  destruct (split [61; 61]%N (c :: s)) as [|a [|b [|x r]]]; try discriminate.
  cbn [length]. change req_max_parts with 2%N.
  assert (E : (2 <? N.of_nat (S (S (S (length r)))))%N = true) by (apply N.ltb_lt; lia).
  rewrite E. discriminate.
Qed.

(* ... and a requirement read by the model (conformant: both sides stripped) is the one the property reads *)
Lemma spec_line_some l n v : parse_line true l = PReq n v -> spec_line l = Some (n, v).
Proof.
  unfold spec_line, parse_line. change req_comment_char with 35%N. change req_sep with [61; 61]%N.
  destruct (strip (cut_at 35 l)) as [|c s] eqn:Es; [discriminate|].
  rewrite reject_chars_spec.
  destruct (contains 44 (c :: s) || contains 60 (c :: s) || contains 62 (c :: s)); [rewrite orb_true_r; discriminate|].
  rewrite orb_false_r.
  destruct (split [61; 61]%N (c :: s)) as [|a [|b [|x r]]]; try discriminate.
  - cbn [length]. change req_max_parts with 2%N. cbn. intros H. inversion H; subst. reflexivity.
  - cbn [length]. change req_max_parts with 2%N. cbn -[strip]. intros H. inversion H; subst. reflexivity.
  - cbn [length]. change req_max_parts with 2%N.
    assert (E : (2 <? N.of_nat (S (S (S (length r)))))%N = true) by (apply N.ltb_lt; lia).
    rewrite E. discriminate.
Qed.

(* REQUIREMENTS_PATHS finds exactly the files at the places the property counts *)
Lemma discover_counts dir : existsb (fun pat => dir_match pat dir) req_paths = spec_counts dir.
Proof.
  unfold req_paths, spec_counts. cbn [existsb].
  destruct dir as [|top [|sub [|x r]]].
  - reflexivity.
  - cbn [dir_match]. rewrite !andb_false_r. reflexivity.
  - cbn [dir_match comp_match]. rewrite !andb_true_r. rewrite orb_false_r.
    fold s_apps. fold s_modules. fold s_scripts.
    rewrite (str_eqb_sym s_apps top), (str_eqb_sym s_modules top), (str_eqb_sym s_scripts top).
    destruct (str_eqb top s_apps), (str_eqb top s_modules), (str_eqb top s_scripts), sub; cbn; try reflexivity;
      destruct (N.eqb n 46); reflexivity.
  - cbn [dir_match]. rewrite !andb_false_r. reflexivity.
Qed.

(* ---------- strip is idempotent; split without a separator returns the string ---------- *)
Lemma lstrip_head s : lstrip s = [] \/ exists c r, lstrip s = c :: r /\ is_ws c = false.
Proof.
  induction s as [|c r IH]; [left; reflexivity|]. cbn [lstrip].
  destruct (is_ws c) eqn:E; [exact IH|]. right. exists c, r. split; [reflexivity|exact E].
Qed.

Lemma lstrip_idem s : lstrip (lstrip s) = lstrip s.
Proof.
  destruct (lstrip_head s) as [H|(c & r & H & E)]; rewrite H; [reflexivity|]. cbn [lstrip]. rewrite E. reflexivity.
Qed.

Lemma lstrip_snoc b c : is_ws c = false -> lstrip (b ++ [c]) = lstrip b ++ [c].
Proof.
  intros E. induction b as [|x b IH]; cbn [app lstrip]; [rewrite E; reflexivity|].
  destruct (is_ws x); [exact IH|reflexivity].
Qed.

Lemma rstrip_idem a : rstrip (rstrip a) = rstrip a.
Proof. unfold rstrip. rewrite rev_involutive, lstrip_idem. reflexivity. Qed.

Lemma lstrip_rstrip a : lstrip a = a -> lstrip (rstrip a) = rstrip a.
Proof.
  intros H. destruct a as [|c r]; [reflexivity|].
  assert (E : is_ws c = false).
  { cbn [lstrip] in H. destruct (is_ws c) eqn:E; [|reflexivity]. exfalso.
    assert (L : forall s, length (lstrip s) <= length s).
    { induction s as [|x s IH]; cbn [lstrip]; [lia|]. destruct (is_ws x); cbn [length] in *; lia. }
    specialize (L r). rewrite H in L. cbn [length] in L. lia. }
  unfold rstrip. cbn [rev]. rewrite (lstrip_snoc (rev r) c E). rewrite rev_app_distr. cbn [rev app lstrip]. rewrite E. reflexivity.
Qed.

Lemma strip_idem s : strip (strip s) = strip s.
Proof.
  unfold strip. rewrite (lstrip_rstrip (lstrip s)) by apply lstrip_idem. apply rstrip_idem.
Qed.

Lemma split_go_nonempty sep s : forall skip cur, split_go sep skip cur s <> [].
Proof.
  induction s as [|c r IH]; intros skip cur; cbn [split_go]; [discriminate|].
  destruct skip; [|apply IH]. destruct (is_prefix sep (c :: r)); [discriminate|apply IH].
Qed.

Lemma split_go_single sep s : forall cur x, split_go sep 0 cur s = [x] -> x = rev cur ++ s.
Proof.
  induction s as [|c r IH]; intros cur x; cbn [split_go].
  - intros H. inversion H. rewrite app_nil_r. reflexivity.
  - destruct (is_prefix sep (c :: r)).
    + intros H. inversion H as [[H1 H2]]. exfalso. exact (split_go_nonempty sep r _ _ H2).
    + intros H. rewrite (IH _ _ H). cbn [rev]. rewrite <- app_assoc. reflexivity.
Qed.

Lemma split_single sep s x : split sep s = [x] -> x = s.
Proof. unfold split. intros H. apply split_go_single in H. exact H. Qed.

(* conformant reading: package keys carry no surrounding white space, pins are not the unpinned marker *)
Lemma parse_name_stripped l n v : parse_line true l = PReq n v -> strip n = n.
Proof.
  unfold parse_line. destruct (strip (cut_at req_comment_char l)) as [|c s] eqn:Es; [discriminate|].
  destruct ((req_max_parts <? N.of_nat (length (split req_sep (c :: s))))%N || existsb (fun ch => contains ch (c :: s)) req_reject_chars);
    [discriminate|].
  destruct (split req_sep (c :: s)) as [|a [|b r]] eqn:Ep; [discriminate| |].
  - intros H. inversion H; subst. apply split_single in Ep. subst n. rewrite <- Es. apply strip_idem.
  - intros H. inversion H; subst. apply strip_idem.
Qed.

Section MergeKeys.
  Variable vvalid : str -> bool.
  Variable vle : str -> str -> bool.
  Variable installed : str -> option str.
  Local Notation merge_req := (Merge.merge_req vvalid vle installed).
  Local Notation merge_lines := (Merge.merge_lines vvalid vle installed).
  Local Notation merge_reqs := (merge_reqs vvalid vle installed).

  Lemma merge_req_keys d t f n nv k : In k (map fst (merge_req d t f n nv)) -> In k (map fst t) \/ k = n.
  Proof.
    destruct (merge_req_shape vvalid vle installed d t f n nv) as [E|[e E]]; rewrite E; [tauto|].
    rewrite tset_keys. destruct (existsb (str_eqb n) (map fst t)); [tauto|].
    intros H. apply in_app_or in H. destruct H as [H|[H|[]]]; [tauto|right; symmetry; exact H].
  Qed.

  Lemma merge_reqs_keys d rs : forall t k, In k (map fst (merge_reqs d rs t)) -> In k (map fst t) \/ In k (map r_name rs).
  Proof.
    induction rs as [|r rs IH]; intros t k H; [left; exact H|].
    cbn [ReqMerge.merge_reqs fold_left] in H. apply IH in H. destruct H as [H|H]; [|right; right; exact H].
    apply merge_req_keys in H. destruct H as [H|H]; [left; exact H|right; left; symmetry; exact H].
  Qed.

  (* D25 off: every key of the table is a stripped name *)
  Lemma merge_lines_keys_stripped cfg ls k : d25_no_strip cfg = false ->
    In k (map fst (merge_lines cfg ls)) -> strip k = k.
  Proof.
    intros Hd H. rewrite merge_lines_reqs in H. apply merge_reqs_keys in H. destruct H as [[]|H].
    apply in_map_iff in H. destruct H as ([[f n] v] & E & H). cbn [r_name fst snd] in E. subst n.
    apply in_parse_reqs in H. destruct H as (l & _ & Hp). rewrite Hd in Hp. cbn [negb] in Hp.
    exact (parse_name_stripped l k v Hp).
  Qed.

  Lemma merge_core_pins t f n nv :
    (forall w, nv = Some w -> str_eqb w unpinned_version = false) ->
    (forall k e w, tlookup k t = Some e -> e_ver e = Some w -> str_eqb w unpinned_version = false) ->
    forall k e w, tlookup k (Merge.merge_core vvalid vle installed t f n nv) = Some e -> e_ver e = Some w -> str_eqb w unpinned_version = false.
  Proof.
    intros Hn H k e w. unfold Merge.merge_core.
    assert (Hfresh : forall src i, tlookup k (tset n {| e_ver := nv; e_src := src; e_inst := i |} t) = Some e ->
                     e_ver e = Some w -> str_eqb w unpinned_version = false).
    { intros src i. rewrite tlookup_tset. destruct (str_eqb k n) eqn:E; [|apply H].
      intros Hx. inversion Hx; subst. cbn [e_ver]. apply Hn. }
    destruct (tlookup n t) as [e0|] eqn:El; [|apply Hfresh].
    assert (Hadd : tlookup k (tset n (add_src e0 f) t) = Some e -> e_ver e = Some w -> str_eqb w unpinned_version = false).
    { rewrite tlookup_tset. destruct (str_eqb k n) eqn:E; [|apply H].
      intros Hx. inversion Hx; subst. cbn [add_src e_ver]. apply (H n e0 w El). }
    destruct (ver_falsy (e_ver e0)); [apply Hfresh|].
    destruct nv as [v|], (e_ver e0) as [c|]; try apply Hfresh; try apply H; try exact Hadd.
    destruct (negb (vvalid c) || negb (vvalid v)); [apply H|].
    destruct (Merge.veq vle c v); [exact Hadd|].
    destruct (Merge.vlt vle c v); [apply Hfresh|apply H].
  Qed.

  Lemma merge_req_pins d t f n nv :
    (forall k e w, tlookup k t = Some e -> e_ver e = Some w -> str_eqb w unpinned_version = false) ->
    forall k e w, tlookup k (merge_req d t f n nv) = Some e -> e_ver e = Some w -> str_eqb w unpinned_version = false.
  Proof.
    intros H k e w. unfold Merge.merge_req.
    destruct (negb d && match nv with Some v => negb (vvalid v) | None => false end); [apply H|].
    apply merge_core_pins; [|exact H].
    intros w'. destruct nv as [v|]; cbn [norm_ver]; [|discriminate].
    destruct (str_eqb v unpinned_version) eqn:E; [discriminate|]. intros Hw. inversion Hw; subst. exact E.
  Qed.

  Lemma merge_lines_pins cfg ls k e w :
    tlookup k (merge_lines cfg ls) = Some e -> e_ver e = Some w -> str_eqb w unpinned_version = false.
  Proof.
    rewrite merge_lines_reqs. generalize (parse_reqs (negb (d25_no_strip cfg)) ls). intros rs.
    assert (G : forall t, (forall k e w, tlookup k t = Some e -> e_ver e = Some w -> str_eqb w unpinned_version = false) ->
                forall k e w, tlookup k (merge_reqs (d24_unvalidated cfg) rs t) = Some e -> e_ver e = Some w -> str_eqb w unpinned_version = false).
    { induction rs as [|r rs IH]; intros t Ht; [exact Ht|]. cbn [ReqMerge.merge_reqs fold_left]. apply IH.
      apply merge_req_pins. exact Ht. }
    apply G. intros k' e' w'. discriminate.
  Qed.
End MergeKeys.

(* every line the property's reading ignores can be deleted without changing the result *)
Lemma merge_ignored_spec vvalid vle installed cfg pre post f l : spec_line l = None ->
  merge_lines vvalid vle installed cfg (pre ++ (f, l) :: post) = merge_lines vvalid vle installed cfg (pre ++ post).
Proof. intros H. apply merge_ignored. apply spec_line_none. exact H. Qed.

(* order independence stated on requirement trees: any two trees whose discovered (file, line) lists are
   permutations of each other (files reordered, lines reordered within or across files) *)
Lemma process_all_perm vvalid vle installed :
  (forall a b, vvalid a = true -> vvalid b = true -> vle a b = true \/ vle b a = true) ->
  (forall a b c, vvalid a = true -> vvalid b = true -> vvalid c = true -> vle a b = true -> vle b c = true -> vle a c = true) ->
  vvalid [] = false -> vvalid unpinned_version = false ->
  forall cfg files files',
  cfg_ok vvalid cfg (flat_lines (discover files)) ->
  Permutation (flat_lines (discover files)) (flat_lines (discover files')) ->
  table_equiv vvalid vle (process_all vvalid vle installed cfg files) (process_all vvalid vle installed cfg files').
Proof. intros T R Nl Nm cfg files files' H P. unfold process_all. apply merge_perm; assumption. Qed.
