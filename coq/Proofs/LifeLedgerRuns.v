(* Proofs/LifeLedgerRuns.v — C09: which functions an operation can run and whose tasks it hands to the reaper;
   consequence: once a function is stopped and the reaper has cancelled its tasks, no occurrence runs it. *)
From Coq Require Import List NArith Bool Lia.
From PV Require Import Common.Util Gen.LedgerConsts Life.Ledger Life.LedgerCheck Proofs.LifeLedger Proofs.LifeLedgerSys.
Import ListNotations.
Local Open Scope N_scope.

Local Arguments memp : simpl never.
Local Arguments delp : simpl never.
Local Arguments addp : simpl never.
Local Arguments memn : simpl never.
Local Arguments deln : simpl never.
Local Arguments addn : simpl never.
Local Arguments has_fst : simpl never.
Local Arguments pair_eqb : simpl never.

(* [eff W W' fs]: going from W to W' only appended runs of units of the functions [fs] to the log, and only queued
   tasks of units of [fs] for the reaper *)
Definition unit_of (fs : list func) (P : unit_ -> Prop) : Prop := exists f u, In f fs /\ In u (f_units f) /\ P u.
Definition eff (W W' : world) (fs : list func) : Prop :=
  (exists rs, w_log W' = w_log W ++ rs /\ forall r, In r rs -> unit_of fs (fun u => r_gen r = u_gen u)) /\
  (forall t, In t (l_reap (w_led W')) -> In t (l_reap (w_led W)) \/ unit_of fs (fun u => u_id u = t)).

Lemma unit_of_mono fs fs' P : (forall f, In f fs -> In f fs') -> unit_of fs P -> unit_of fs' P.
Proof. intros H [f [u [A B]]]. exists f, u. split; [apply H; exact A|exact B]. Qed.

Lemma eff_refl W fs : eff W W fs.
Proof. split; [exists []; rewrite app_nil_r; split; [reflexivity|intros r []]|auto]. Qed.

Lemma eff_trans A B C fs1 fs2 : eff A B fs1 -> eff B C fs2 -> eff A C (fs1 ++ fs2).
Proof.
  intros [[r1 [E1 P1]] R1] [[r2 [E2 P2]] R2]. split.
  - exists (r1 ++ r2). rewrite E2, E1, app_assoc. split; [reflexivity|].
    intros r Hr. apply in_app_or in Hr. destruct Hr as [Hr|Hr].
    + eapply unit_of_mono; [|apply P1; exact Hr]. intros f Hf. apply in_or_app. left; exact Hf.
    + eapply unit_of_mono; [|apply P2; exact Hr]. intros f Hf. apply in_or_app. right; exact Hf.
  - intros t Ht. destruct (R2 t Ht) as [H|H].
    + destruct (R1 t H) as [H'|H']; [left; exact H'|right].
      eapply unit_of_mono; [|exact H']. intros f Hf. apply in_or_app. left; exact Hf.
    + right. eapply unit_of_mono; [|exact H]. intros f Hf. apply in_or_app. right; exact Hf.
Qed.

Lemma eff_mono W W' fs fs' : (forall f, In f fs -> In f fs') -> eff W W' fs -> eff W W' fs'.
Proof.
  intros H [[rs [E P]] R]. split.
  - exists rs. split; [exact E|]. intros r Hr. eapply unit_of_mono; [exact H|apply P; exact Hr].
  - intros t Ht. destruct (R t Ht) as [X|X]; [left; exact X|right; eapply unit_of_mono; [exact H|exact X]].
Qed.

(* worlds that differ from W only in status lists / ledger fields other than the reaper queue *)
Lemma eff_same W W' fs : w_log W' = w_log W -> l_reap (w_led W') = l_reap (w_led W) -> eff W W' fs.
Proof.
  intros E R. split; [exists []; rewrite app_nil_r; split; [exact E|intros r []]|]. intros t Ht. left. rewrite <- R. exact Ht.
Qed.

Lemma startup_run_gen u r : In r (startup_run u) -> r_gen r = u_gen u.
Proof. unfold startup_run. destruct (u_startup u && negb (u_crash u)); [intros [<-|[]]; reflexivity|intros []]. Qed.
Lemma shutdown_run_gen u r : In r (shutdown_run u) -> r_gen r = u_gen u.
Proof. unfold shutdown_run. destruct (u_shutdown u); [intros [<-|[]]; reflexivity|intros []]. Qed.

(* ---- unit level -------------------------------------------------------------------------------- *)
Lemma ev_del_reap ev q L : l_reap (ev_del ev q L) = l_reap L.
Proof. destruct (ev_del_proj ev q L) as [_ [_ [_ [_ [R _]]]]]. exact R. Qed.

Lemma leg_unit_stop_eff cfg W f u : In u (f_units f) -> eff W (leg_unit_stop cfg W u) [f].
Proof.
  intros Hu. unfold leg_unit_stop.
  assert (UO : forall P : unit_ -> Prop, P u -> unit_of [f] P).
  { intros P HP. exists f, u. split; [left; reflexivity|split; assumption]. }
  assert (LG : forall r, In r (shutdown_run u) -> unit_of [f] (fun u0 => r_gen r = u_gen u0)).
  { intros r Hr. apply UO. apply shutdown_run_gen. exact Hr. }
  destruct (memn (u_id u) (w_pending W)).
  - assert (X : eff W (set_pending (led_log W (leg_stop_pending u (w_led W))) (deln (u_id u) (w_pending W))) [f]).
    { split; [exists (shutdown_run u); split; [reflexivity|exact LG]|].
      intros t Ht. wsimpl. unfold leg_stop_pending in Ht. wsimpl. apply In_addn in Ht.
      destruct Ht as [Ht| ->]; [|right; apply UO; reflexivity].
      left. destruct (u_event u); [rewrite ev_del_reap in Ht|]; exact Ht. }
    destruct (d91_pending_subscribes cfg); [|exact X].
    destruct X as [X1 X2]. split; [exact X1|exact X2].
  - destruct (memn (u_id u) (w_running W)).
    + split; [exists (shutdown_run u); split; [reflexivity|exact LG]|].
      intros t Ht. wsimpl. destruct (leg_stop_running_proj cfg u (w_led W)) as [_ [_ [_ [_ [R _]]]]]. rewrite R in Ht.
      apply In_addn in Ht. destruct Ht as [Ht| ->]; [left; exact Ht|right; apply UO; reflexivity].
    + split; [exists (shutdown_run u); split; [reflexivity|exact LG]|]. intros t Ht. left. exact Ht.
Qed.

Lemma dec_unit_stop_eff cfg W f u : In u (f_units f) -> eff W (dec_unit_stop cfg W u) [f].
Proof.
  intros Hu. unfold dec_unit_stop. split.
  - exists (snd (dec_stop cfg u (w_led W))). split; [reflexivity|]. intros r Hr. exists f, u. split; [left; reflexivity|split; [exact Hu|]].
    unfold dec_stop in Hr. cbn [snd] in Hr. destruct (u_crash u); [destruct Hr|]. apply shutdown_run_gen. exact Hr.
  - intros t Ht. wsimpl. destruct (dec_stop_proj cfg u (w_led W)) as [_ [_ [_ [_ [R _]]]]]. rewrite R in Ht. left; exact Ht.
Qed.

Lemma dec_unit_start_eff W f u : In u (f_units f) -> eff W (dec_unit_start W u) [f].
Proof.
  intros Hu. unfold dec_unit_start. split.
  - exists (snd (dec_start u (w_led W))). split; [reflexivity|]. intros r Hr. exists f, u. split; [left; reflexivity|split; [exact Hu|]].
    unfold dec_start in Hr. cbn [snd] in Hr. apply startup_run_gen. exact Hr.
  - intros t Ht. wsimpl. destruct (dec_start_proj u (w_led W)) as [_ [_ [_ [_ [R _]]]]]. rewrite R in Ht. left; exact Ht.
Qed.

Lemma leg_unit_start_eff W u fs : eff W (leg_unit_start W u) fs.
Proof. apply eff_same; reflexivity. Qed.

Lemma fold_eff (g : world -> unit_ -> world) f :
  (forall W u, In u (f_units f) -> eff W (g W u) [f]) ->
  forall us W, (forall u, In u us -> In u (f_units f)) -> eff W (fold_left g us W) [f].
Proof.
  intros H us. induction us as [|a r IH]; intros W HU; cbn [fold_left]; [apply eff_refl|].
  apply (eff_mono _ _ ([f] ++ [f])); [intros x [<-|[<-|[]]]; left; reflexivity|].
  eapply eff_trans; [apply H; apply HU; left; reflexivity|]. apply IH. intros u Hu. apply HU. right; exact Hu.
Qed.

(* ---- function level ----------------------------------------------------------------------------- *)
Lemma eff_status W W' fs (X : world -> world) :
  (forall V, w_log (X V) = w_log V /\ l_reap (w_led (X V)) = l_reap (w_led V)) -> eff W W' fs -> eff W (X W') fs.
Proof.
  intros HX [[rs [E P]] R]. destruct (HX W') as [E1 R1]. split.
  - exists rs. split; [rewrite E1; exact E|exact P].
  - intros t Ht. rewrite R1 in Ht. exact (R t Ht).
Qed.

Lemma svc_remove_eff W W' f fs : eff W W' fs -> eff W (svc_remove W' f) fs.
Proof.
  intros [[rs [E P]] R]. destruct (svc_remove_fields W' f) as [[_ [_ [_ [_ [_ [_ [_ [_ [_ RP]]]]]]]]] [_ [_ [LG _]]]]. split.
  - exists rs. split; [rewrite LG; exact E|exact P].
  - intros t Ht. rewrite RP in Ht. exact (R t Ht).
Qed.
Lemma svc_register_eff W W' f fs : eff W W' fs -> eff W (svc_register W' f) fs.
Proof.
  intros [[rs [E P]] R]. destruct (svc_register_fields W' f) as [[_ [_ [_ [_ [_ [_ [_ [_ [_ RP]]]]]]]]] [_ [_ [LG _]]]]. split.
  - exists rs. split; [rewrite LG; exact E|exact P].
  - intros t Ht. rewrite RP in Ht. exact (R t Ht).
Qed.

Lemma leg_func_stop_eff cfg W f : eff W (leg_func_stop cfg W f) (if memn (f_gen f) (w_active W) then [f] else []).
Proof.
  unfold leg_func_stop. destruct (memn (f_gen f) (w_active W)); [|apply eff_refl].
  pose proof (fold_eff (leg_unit_stop cfg) f (fun W u Hu => leg_unit_stop_eff cfg W f u Hu) (f_units f) W (fun u H => H)) as E.
  apply (svc_remove_eff _ _ f) in E. cbv zeta.
  destruct E as [[rs [E P]] R]. split; [exists rs; split; [exact E|exact P]|exact R].
Qed.

Lemma stop_if_running_eff cfg W f u : In u (f_units f) -> eff W (stop_if_running cfg W u) [f].
Proof. intros Hu. unfold stop_if_running. destruct (memn (u_id u) (w_running W)); [apply dec_unit_stop_eff; exact Hu|apply eff_refl]. Qed.
Lemma start_if_idle_eff W f u : In u (f_units f) -> eff W (start_if_idle W u) [f].
Proof. intros Hu. unfold start_if_idle. destruct (memn (u_id u) (w_running W)); [apply eff_refl|apply dec_unit_start_eff; exact Hu]. Qed.

Lemma dm_stop_eff cfg W f : eff W (dm_stop cfg W f) [f].
Proof.
  unfold dm_stop.
  pose proof (fold_eff (stop_if_running cfg) f (fun W u Hu => stop_if_running_eff cfg W f u Hu) (f_units f) W (fun u H => H)) as E.
  set (W1 := fold_left (stop_if_running cfg) (f_units f) W) in *. cbv zeta.
  assert (E2 : eff W (if memn (f_gen f) (l_svc (w_led W1)) then svc_remove W1 f else W1) [f]).
  { destruct (memn (f_gen f) (l_svc (w_led W1))); [apply svc_remove_eff; exact E|exact E]. }
  destruct E2 as [[rs [E2 P]] R]. split; [exists rs; split; [exact E2|exact P]|exact R].
Qed.

Lemma dm_begin_eff cfg W f : eff W (dm_begin cfg W f) [f].
Proof.
  unfold dm_begin. set (W0 := set_delayed W (deln (f_gen f) (w_delayed W))).
  assert (E0 : eff W W0 [f]) by (apply eff_same; reflexivity).
  assert (FN : forall u, In u (firstn (f_pos f) (f_units f)) -> In u (f_units f)) by (intros u Hu; apply (firstn_In _ _ _ Hu)).
  assert (M : forall x, In x ([f] ++ [f]) -> In x [f]) by (intros x [<-|[<-|[]]]; left; reflexivity).
  destruct (f_svc f).
  - pose proof (fold_eff dec_unit_start f (fun W u Hu => dec_unit_start_eff W f u Hu) (firstn (f_pos f) (f_units f)) W0 FN) as E1.
    set (W1 := fold_left dec_unit_start (firstn (f_pos f) (f_units f)) W0) in *.
    assert (E01 : eff W W1 [f]) by (apply (eff_mono _ _ _ _ M); exact (eff_trans W W0 W1 [f] [f] E0 E1)).
    destruct (svc_refused W1 f).
    + pose proof (fold_eff (stop_if_running cfg) f (fun W u Hu => stop_if_running_eff cfg W f u Hu) (f_units f) W1 (fun u H => H)) as E2.
      cbv zeta. apply (eff_mono _ _ _ _ M). eapply eff_trans; [exact E01|].
      destruct E2 as [[rs [E2 P]] R]. split; [exists rs; split; [exact E2|exact P]|exact R].
    + cbv zeta. apply (svc_register_eff _ _ f) in E01. destruct E01 as [[rs [E2 P]] R]. split; [exists rs; split; [exact E2|exact P]|exact R].
  - pose proof (fold_eff dec_unit_start f (fun W u Hu => dec_unit_start_eff W f u Hu) (f_units f) W0 (fun u H => H)) as E1.
    apply (eff_mono _ _ _ _ M). exact (eff_trans _ _ _ [f] [f] E0 E1).
Qed.

Lemma leg_func_start_eff W f fs : eff W (leg_func_start W f) fs.
Proof.
  unfold leg_func_start. generalize W. induction (f_units f) as [|a r IH]; intros W0; cbn [fold_left]; [apply eff_refl|].
  destruct (IH (leg_unit_start W0 a)) as [[rs [E P]] R]. split.
  - exists rs. split; [exact E|exact P].
  - exact R.
Qed.

(* ---- context level: the functions acted on were registered and active when the operation began ------- *)
Lemma ctx_start_func_eff cfg W f : exists fs, eff W (ctx_start_func cfg W f) fs /\ forall f', In f' fs -> f' = f /\ In (f_gen f) (w_active W).
Proof.
  unfold ctx_start_func. destruct (memn (f_gen f) (w_active W) && memn (f_gen f) (w_delayed W)) eqn:C.
  - apply andb_true_iff in C. destruct C as [C _]. apply memn_In in C. exists [f]. split.
    + destruct (f_new f); [apply dm_begin_eff|].
      pose proof (leg_func_start_eff (set_delayed W (deln (f_gen f) (w_delayed W))) f [f]) as [[rs [E P]] R].
      split; [exists rs; split; [exact E|exact P]|exact R].
    + intros f' [<-|[]]. split; [reflexivity|exact C].
  - exists []. split; [apply eff_refl|intros f' []].
Qed.

Lemma ctx_stop_func_eff cfg W f : exists fs, eff W (ctx_stop_func cfg W f) fs /\ forall f', In f' fs -> f' = f /\ In (f_gen f) (w_active W).
Proof.
  unfold ctx_stop_func. destruct (f_new f).
  - destruct (memn (f_gen f) (w_active W)) eqn:MA.
    + apply memn_In in MA. destruct (memn (f_gen f) (w_delayed W)).
      * exists []. split; [apply eff_same; reflexivity|intros f' []].
      * exists [f]. split; [apply dm_stop_eff|]. intros f' [<-|[]]. auto.
    + exists []. split; [apply eff_refl|intros f' []].
  - pose proof (leg_func_stop_eff cfg W f) as E. destruct (memn (f_gen f) (w_active W)) eqn:MA.
    + apply memn_In in MA. exists [f]. split; [exact E|]. intros f' [<-|[]]. auto.
    + exists []. split; [exact E|intros f' []].
Qed.

Definition effA (W0 W W' : world) : Prop :=
  exists fs, eff W W' fs /\ forall f, In f fs -> In f (w_funcs W0) /\ In (f_gen f) (w_active W0).

Lemma effA_refl W0 W : effA W0 W W.
Proof. exists []. split; [apply eff_refl|intros f []]. Qed.
Lemma effA_trans W0 A B C : effA W0 A B -> effA W0 B C -> effA W0 A C.
Proof.
  intros [f1 [E1 P1]] [f2 [E2 P2]]. exists (f1 ++ f2). split; [eapply eff_trans; eassumption|].
  intros f Hf. apply in_app_or in Hf. destruct Hf as [Hf|Hf]; [apply P1|apply P2]; exact Hf.
Qed.
Lemma effA_status W0 W W' (X : world -> world) :
  (forall V, w_log (X V) = w_log V /\ l_reap (w_led (X V)) = l_reap (w_led V)) -> effA W0 W W' -> effA W0 W (X W').
Proof. intros HX [fs [E P]]. exists fs. split; [apply eff_status; assumption|exact P]. Qed.

(* a world reached from W0 by operations that keep the tables and only shrink the active set *)
Definition below (W0 W : world) : Prop := w_funcs W = w_funcs W0 /\ forall x, In x (w_active W) -> In x (w_active W0).
Lemma below_refl W : below W W.
Proof. split; [reflexivity|auto]. Qed.
Lemma below_shrink W0 W W' : below W0 W -> shrink W W' -> below W0 W'.
Proof. intros [F A] [[T _] S]. split; [congruence|auto]. Qed.

Lemma fold_ctx_stop_eff cfg c W0 : all_off cfg -> forall fs W, Inv W -> below W0 W -> (forall f, In f fs -> In f (w_funcs W0)) ->
  effA W0 W (fold_left (fun W f => if N.eqb (f_ctx f) c then ctx_stop_func cfg W f else W) fs W).
Proof.
  intros AO fs. induction fs as [|a r IH]; intros W HI HB HF; cbn [fold_left]; [apply effA_refl|].
  set (W1 := if N.eqb (f_ctx a) c then ctx_stop_func cfg W a else W).
  assert (Ha : In a (w_funcs W)) by (destruct HB as [F _]; rewrite F; apply HF; left; reflexivity).
  assert (X : Inv W1 /\ shrink W W1 /\ effA W0 W W1).
  { unfold W1. destruct (N.eqb (f_ctx a) c).
    - destruct (ctx_stop_func_inv cfg W a AO HI Ha) as [A [B _]]. split; [exact A|split; [exact B|]].
      destruct (ctx_stop_func_eff cfg W a) as [fs' [E P]]. exists fs'. split; [exact E|].
      intros f Hf. destruct (P f Hf) as [-> Q]. split; [apply HF; left; reflexivity|]. destruct HB as [_ HA]. apply HA. exact Q.
    - split; [exact HI|split; [apply shrink_refl|apply effA_refl]]. }
  destruct X as [H1 [S1 E1]].
  eapply effA_trans; [exact E1|]. apply IH; [exact H1|exact (below_shrink _ _ _ HB S1)|].
  intros f Hf. apply HF. right; exact Hf.
Qed.

Lemma ctx_stop_eff cfg c W0 W : all_off cfg -> Inv W -> below W0 W -> effA W0 W (ctx_stop cfg c W).
Proof.
  intros AO HI HB. unfold ctx_stop. apply (effA_status W0 W _ (fun V => set_auto V (deln c (w_auto V)))); [intros V; split; reflexivity|].
  apply fold_ctx_stop_eff; try assumption. intros f Hf. destruct HB as [F _]. rewrite <- F. exact Hf.
Qed.

Lemma fold_ctx_start_eff cfg c W0 : all_off cfg -> forall fs W, Inv W -> below W0 W -> (forall f, In f fs -> In f (w_funcs W0)) ->
  effA W0 W (fold_left (fun W f => if N.eqb (f_ctx f) c then ctx_start_func cfg W f else W) fs W).
Proof.
  intros AO. induction fs as [|a r IH]; intros W HI HB HF; cbn [fold_left]; [apply effA_refl|].
  set (W1 := if N.eqb (f_ctx a) c then ctx_start_func cfg W a else W).
  assert (Ha : In a (w_funcs W)) by (destruct HB as [F _]; rewrite F; apply HF; left; reflexivity).
  assert (X : Inv W1 /\ shrink W W1 /\ effA W0 W W1).
  { unfold W1. destruct (N.eqb (f_ctx a) c).
    - destruct (ctx_start_func_inv cfg W a AO HI Ha) as [A [T B]]. split; [exact A|split; [split; assumption|]].
      destruct (ctx_start_func_eff cfg W a) as [fs' [E P]]. exists fs'. split; [exact E|].
      intros f Hf. destruct (P f Hf) as [-> Q]. split; [apply HF; left; reflexivity|]. destruct HB as [_ HA]. apply HA. exact Q.
    - split; [exact HI|split; [apply shrink_refl|apply effA_refl]]. }
  destruct X as [H1 [S1 E1]].
  eapply effA_trans; [exact E1|]. apply IH; [exact H1|exact (below_shrink _ _ _ HB S1)|].
  intros f Hf. apply HF. right; exact Hf.
Qed.

Lemma ctx_start_eff cfg c ord W : all_off cfg -> Inv W -> effA W W (ctx_start cfg c ord W).
Proof.
  intros AO HI. unfold ctx_start. apply (effA_status W W _ (fun V => set_auto V (addn c (w_auto V)))); [intros V; split; reflexivity|].
  apply fold_ctx_start_eff; try assumption; [apply below_refl|apply order_funcs_In].
Qed.

Lemma dm_resume_eff g W : effA W W (dm_resume g W).
Proof.
  unfold dm_resume. destruct (find_func W g) as [f|] eqn:FF; [|apply effA_refl].
  destruct (find_func_some W g f FF) as [Hf EG]. subst g.
  destruct (memn (f_gen f) (w_starting W) && f_new f); [|apply effA_refl]. cbv zeta.
  set (W0 := set_starting W (deln (f_gen f) (w_starting W))).
  assert (E0 : eff W W0 [f]) by (apply eff_same; reflexivity).
  destruct (memn (f_gen f) (w_active W) && negb (memn (f_gen f) (w_delayed W))) eqn:C.
  - apply andb_true_iff in C. destruct C as [CA _]. apply memn_In in CA. exists [f]. split; [|intros f' [<-|[]]; auto].
    pose proof (fold_eff start_if_idle f (fun W u Hu => start_if_idle_eff W f u Hu) (f_units f) W0 (fun u H => H)) as E1.
    apply (eff_mono _ _ ([f] ++ [f])); [intros x [<-|[<-|[]]]; left; reflexivity|]. exact (eff_trans _ _ _ [f] [f] E0 E1).
  - exists []. split; [apply eff_same; reflexivity|intros f' []].
Qed.

Lemma fold_resume_eff W0 : forall gs W, Inv W -> below W0 W -> effA W0 W (fold_left (fun W g => dm_resume g W) gs W).
Proof.
  induction gs as [|a r IH]; intros W HI HB; cbn [fold_left]; [apply effA_refl|].
  destruct (dm_resume_inv a W HI) as [H1 [[T1 _] [A1 _]]].
  eapply effA_trans; [|apply IH; [exact H1|]].
  - destruct (dm_resume_eff a W) as [fs [E P]]. exists fs. split; [exact E|]. intros f Hf. destruct HB as [HF HA].
    destruct (P f Hf) as [X Y]. split; [rewrite <- HF; exact X|apply HA; exact Y].
  - destruct HB as [HF HA]. split; [congruence|]. intros x Hx. apply HA. rewrite <- A1. exact Hx.
Qed.
Lemma resume_all_eff W0 W : Inv W -> below W0 W -> effA W0 W (resume_all W).
Proof. apply fold_resume_eff. Qed.

Lemma dropped_eff cfg g W : effA W W (dropped cfg g W).
Proof.
  unfold dropped. destruct (find_func W g) as [f|] eqn:FF; [|apply effA_refl].
  destruct (find_func_some W g f FF) as [Hf EG]. subst g.
  destruct (f_new f).
  - destruct (memn (f_gen f) (w_active W)) eqn:MA; [|apply effA_refl]. apply memn_In in MA.
    destruct (memn (f_gen f) (w_delayed W)).
    + destruct (d90_dropped_dm_started cfg); [apply effA_refl|]. exists []. split; [apply eff_same; reflexivity|intros f' []].
    + destruct (d93_fault_pins_function cfg && pinned f); [apply effA_refl|].
      exists [f]. split; [apply dm_stop_eff|]. intros f' [<-|[]]. auto.
  - pose proof (leg_func_stop_eff cfg W f) as E. destruct (memn (f_gen f) (w_active W)) eqn:MA.
    + apply memn_In in MA. exists [f]. split; [exact E|]. intros f' [<-|[]]. auto.
    + exists []. split; [exact E|intros f' []].
Qed.

Lemma prologue_eff id W : Inv W -> effA W W (prologue id W).
Proof.
  intros [I [S L]]. unfold prologue. destruct (find_unit W id) as [un|] eqn:FU; [|apply effA_refl].
  destruct (find_unit_some W id un FU) as [[f0 O0] EID].
  destruct (memn id (w_pending W)) eqn:MP.
  2:{ rewrite (so_zomb W S). cbn [memn existsb]. apply effA_refl. }
  apply memn_In in MP. destruct (so_pend W S id MP) as [f [u [O [E [NF [A ND]]]]]].
  assert (un = u). { destruct (io_uniq W I f0 un f u O0 O) as [_ X]; [congruence|exact X]. } subst un.
  exists [f]. split; [|intros f' [<-|[]]; split; [apply O|exact A]].
  split.
  - exists (snd (leg_prologue u (w_led W))). split; [reflexivity|]. intros r Hr. exists f, u. split; [left; reflexivity|split; [apply O|]].
    unfold leg_prologue in Hr. cbn [snd] in Hr. apply startup_run_gen. exact Hr.
  - intros t Ht. wsimpl. destruct (leg_prologue_proj u (w_led W)) as [_ [_ [_ [_ [R _]]]]]. rewrite R in Ht. left; exact Ht.
Qed.

Lemma do_reap_eff W fs : eff W (do_reap W) fs.
Proof. split; [exists []; rewrite app_nil_r; split; [reflexivity|intros r []]|]. intros t Ht. destruct Ht. Qed.

Lemma fold_prologue_eff W0 : forall ids W, Inv W -> below W0 W ->
  effA W0 W (fold_left (fun W u => prologue u W) ids W).
Proof.
  induction ids as [|a r IH]; intros W HI HB; cbn [fold_left]; [apply effA_refl|].
  destruct (prologue_inv a W HI) as [H1 [[T1 _] [A1 _]]].
  eapply effA_trans; [|apply IH; [exact H1|]].
  - destruct (prologue_eff a W HI) as [fs [E P]]. exists fs. split; [exact E|]. intros f Hf. destruct HB as [HF HA].
    destruct (P f Hf) as [X Y]. split; [rewrite <- HF; exact X|apply HA; exact Y].
  - destruct HB as [HF HA]. split; [congruence|]. intros x Hx. apply HA. rewrite <- A1. exact Hx.
Qed.

Lemma settle_eff W0 W : Inv W -> below W0 W -> effA W0 W (settle W).
Proof.
  intros HI HB. unfold settle.
  eapply effA_trans; [apply fold_prologue_eff; eassumption|]. exists []. split; [apply do_reap_eff|intros f []].
Qed.

Lemma fold_unload_eff cfg W0 : all_off cfg -> forall cs W, Inv W -> below W0 W ->
  effA W0 W (fold_left (fun W c => ctx_stop cfg c W) cs W).
Proof.
  intros AO cs. induction cs as [|c r IH]; intros W HI HB; cbn [fold_left]; [apply effA_refl|].
  destruct (ctx_stop_inv cfg c W AO HI) as [H1 [S1 _]].
  apply (effA_trans W0 W (ctx_stop cfg c W)); [apply ctx_stop_eff; assumption|]. apply IH; [exact H1|exact (below_shrink _ _ _ HB S1)].
Qed.

Lemma unload_eff cfg W : all_off cfg -> Inv W -> effA W W (unload cfg W).
Proof.
  intros AO HI. unfold unload.
  destruct (fold_unload cfg AO (all_ctxs W) W HI) as [H1 [S1 _]].
  set (W1 := fold_left (fun W c => ctx_stop cfg c W) (all_ctxs W) W) in *.
  pose proof (below_shrink _ _ _ (below_refl W) S1) as B1.
  destruct (resume_all_inv W1 H1) as [H2 [[T2 _] [A2 _]]].
  eapply effA_trans; [apply (fold_unload_eff cfg W AO (all_ctxs W) W HI (below_refl W))|].
  eapply effA_trans; [apply resume_all_eff; eassumption|].
  apply settle_eff; [exact H2|]. destruct B1 as [F B]. split; [congruence|]. intros x Hx. apply B. rewrite <- A2. exact Hx.
Qed.

(* ---- what one step can do ----------------------------------------------------------------------- *)
Definition is_occ (o : op) : bool := match o with OState _ | OEvent _ | OTick | OCall _ => true | _ => false end.

(* structural: no unit-level operation touches the function table, the id counter or the active set *)
Definition tbl (W W' : world) : Prop := w_funcs W' = w_funcs W /\ w_next W' = w_next W /\ w_active W' = w_active W.
Lemma tbl_fold (g : world -> unit_ -> world) : (forall W u, tbl W (g W u)) -> forall us W, tbl W (fold_left g us W).
Proof.
  intros H us. induction us as [|a r IH]; intros W; cbn [fold_left]; [repeat split; reflexivity|].
  destruct (H W a) as [A1 [A2 A3]]. destruct (IH (g W a)) as [B1 [B2 B3]]. repeat split; congruence.
Qed.
Lemma stop_if_running_tbl cfg W u : tbl W (stop_if_running cfg W u).
Proof. unfold stop_if_running. destruct (memn (u_id u) (w_running W)); repeat split; reflexivity. Qed.
Lemma ctx_start_func_tables cfg W f : w_funcs (ctx_start_func cfg W f) = w_funcs W /\ w_next (ctx_start_func cfg W f) = w_next W /\
  forall x, In x (w_active (ctx_start_func cfg W f)) -> In x (w_active W).
Proof.
  unfold ctx_start_func. destruct (memn (f_gen f) (w_active W) && memn (f_gen f) (w_delayed W)); [|repeat split; auto].
  set (W0 := set_delayed W (deln (f_gen f) (w_delayed W))).
  destruct (f_new f).
  - unfold dm_begin. fold W0. destruct (f_svc f).
    + destruct (tbl_fold dec_unit_start (fun W u => conj eq_refl (conj eq_refl eq_refl)) (firstn (f_pos f) (f_units f)) W0) as [A1 [A2 A3]].
      set (W1 := fold_left dec_unit_start (firstn (f_pos f) (f_units f)) W0) in *.
      destruct (svc_refused W1 f).
      * destruct (tbl_fold (stop_if_running cfg) (fun W u => stop_if_running_tbl cfg W u) (f_units f) W1) as [B1 [B2 B3]].
        cbv zeta. wsimpl. rewrite B1, B2, B3, A1, A2, A3. repeat split. intros x Hx. apply In_deln in Hx. tauto.
      * cbv zeta. destruct (svc_register_fields W1 f) as [[F _] [SA _]]. pose proof (svc_register_next W1 f) as Nx. wsimpl. rewrite F, Nx, SA, A1, A2, A3. repeat split. auto.
    + destruct (tbl_fold dec_unit_start (fun W u => conj eq_refl (conj eq_refl eq_refl)) (f_units f) W0) as [A1 [A2 A3]].
      rewrite A1, A2, A3. repeat split. auto.
  - unfold leg_func_start. destruct (tbl_fold leg_unit_start (fun W u => conj eq_refl (conj eq_refl eq_refl)) (f_units f) W0) as [A1 [A2 A3]].
    rewrite A1, A2, A3. repeat split. auto.
Qed.

Lemma define_tables cfg c n s W :
  (w_funcs (define cfg c n s W) = w_funcs W \/
   exists fnew, w_funcs (define cfg c n s W) = w_funcs W ++ [fnew] /\ f_gen fnew = w_next W) /\
  w_next W <= w_next (define cfg c n s W) /\
  (forall x, In x (w_active (define cfg c n s W)) -> In x (w_active W) \/ x = w_next W) /\
  exists fs, eff W (define cfg c n s W) fs /\ forall f, In f fs -> In f (w_funcs (define cfg c n s W)) /\ f_gen f = w_next W.
Proof.
  unfold define.
  set (gen := w_next W).
  set (units := number_units (s_crash s) gen (gen + 1) (if n then new_protos s else legacy_protos s)).
  set (f := {| f_gen := gen; f_ctx := c; f_new := n; f_units := units; f_svc := s_svc s; f_pos := s_pos s; f_inline := memn c (w_auto W) |}).
  set (Wf := {| w_led := w_led W; w_funcs := w_funcs W ++ [f]; w_active := w_active W; w_delayed := w_delayed W;
                w_pending := w_pending W; w_zombie := w_zombie W; w_running := w_running W; w_starting := w_starting W;
                w_hdl := w_hdl W; w_auto := w_auto W; w_next := gen + 1 + N.of_nat (length units); w_log := w_log W |}).
  cbv zeta.
  assert (EF : eff W Wf []) by (apply eff_same; reflexivity).
  destruct (negb n && svc_refused Wf f).
  { split; [left; reflexivity|split; [cbn; lia|split; [auto|]]]. exists []. split; [apply eff_same; reflexivity|intros f' []]. }
  set (Ws := if n then Wf else svc_register Wf f).
  assert (XS : w_funcs Ws = w_funcs Wf /\ w_next Ws = w_next Wf /\ w_active Ws = w_active Wf /\ eff W Ws []).
  { unfold Ws. destruct n; [split; [reflexivity|split; [reflexivity|split; [reflexivity|exact EF]]]|].
    destruct (svc_register_fields Wf f) as [[F _] [SA _]].
    split; [exact F|split; [apply svc_register_next|split; [exact SA|apply svc_register_eff; exact EF]]]. }
  destruct XS as [F1 [N1 [A1 E1]]].
  set (W1 := set_delayed (set_active Ws (w_active Ws ++ [gen])) (w_delayed Ws ++ [gen])).
  assert (E2 : eff W W1 []) by (destruct E1 as [[rs [E P]] R]; split; [exists rs; split; [exact E|exact P]|exact R]).
  assert (AC1 : forall x, In x (w_active W1) -> In x (w_active W) \/ x = gen).
  { intros x Hx. unfold W1 in Hx. wsimpl. rewrite A1 in Hx. apply in_app_or in Hx. destruct Hx as [Hx|[<-|[]]]; auto. }
  assert (FW1 : w_funcs W1 = w_funcs W ++ [f]) by (unfold W1; wsimpl; rewrite F1; reflexivity).
  assert (NW1 : w_next W <= w_next W1) by (unfold W1; wsimpl; rewrite N1; cbn; lia).
  destruct (memn c (w_auto W)).
  - destruct (ctx_start_func_tables cfg W1 f) as [T1 [T2 T3]]. rewrite T1, T2.
    split; [right; exists f; split; [exact FW1|reflexivity]|split; [exact NW1|split]].
    + intros x Hx. apply AC1. apply T3. exact Hx.
    + destruct (ctx_start_func_eff cfg W1 f) as [fs [E P]]. exists fs. split.
      * apply (eff_mono _ _ ([] ++ fs)); [intros x Hx; exact Hx|]. eapply eff_trans; [exact E2|exact E].
      * intros f' Hf'. destruct (P f' Hf') as [-> _]. split; [rewrite FW1; apply in_or_app; right; left; reflexivity|reflexivity].
  - split; [right; exists f; split; [exact FW1|reflexivity]|split; [exact NW1|split; [exact AC1|]]].
    exists []. split; [exact E2|intros f' []].
Qed.

Lemma step_frame cfg W o : all_off cfg -> Inv W -> is_occ o = false ->
  (w_funcs (step cfg W o) = w_funcs W \/ exists fnew, w_funcs (step cfg W o) = w_funcs W ++ [fnew] /\ f_gen fnew = w_next W) /\
  w_next W <= w_next (step cfg W o) /\
  (forall x, In x (w_active (step cfg W o)) -> In x (w_active W) \/ x = w_next W) /\
  exists fs, eff W (step cfg W o) fs /\
    forall f, In f fs -> In f (w_funcs (step cfg W o)) /\ (In (f_gen f) (w_active W) \/ f_gen f = w_next W).
Proof.
  intros AO HI NO.
  assert (FromA : forall W', w_funcs W' = w_funcs W -> w_next W' = w_next W -> (forall x, In x (w_active W') -> In x (w_active W)) ->
            effA W W W' ->
            (w_funcs W' = w_funcs W \/ exists fnew, w_funcs W' = w_funcs W ++ [fnew] /\ f_gen fnew = w_next W) /\
            w_next W <= w_next W' /\ (forall x, In x (w_active W') -> In x (w_active W) \/ x = w_next W) /\
            exists fs, eff W W' fs /\ forall f, In f fs -> In f (w_funcs W') /\ (In (f_gen f) (w_active W) \/ f_gen f = w_next W)).
  { intros W' F Nx A [fs [E P]]. split; [left; exact F|split; [lia|split; [intros x Hx; left; apply A; exact Hx|]]].
    exists fs. split; [exact E|]. intros f Hf. destruct (P f Hf) as [X Y]. split; [rewrite F; exact X|left; exact Y]. }
  destruct o; cbn [is_occ] in NO; try discriminate; cbn [step].
  - (* define *)
    destruct (define_tables cfg c newsys s W) as [F [Nx [A [fs [E P]]]]].
    split; [exact F|split; [exact Nx|split; [exact A|]]].
    exists fs. split; [exact E|]. intros f Hf. destruct (P f Hf) as [X Y]. split; [exact X|right; exact Y].
  - destruct (dropped_inv cfg g W AO HI) as [_ [[T1 T2] S]]. apply FromA; try assumption. apply dropped_eff.
  - apply FromA; try reflexivity; [auto|]. exists []. split; [apply eff_same; reflexivity|intros f []].
  - destruct (ctx_start_inv cfg c ord W AO HI) as [_ [[T1 T2] S]]. apply FromA; try assumption. apply ctx_start_eff; assumption.
  - destruct (ctx_stop_inv cfg c W AO HI) as [_ [[[T1 T2] S] _]]. apply FromA; try assumption.
    apply ctx_stop_eff; [exact AO|exact HI|apply below_refl].
  - unfold unload. destruct (fold_unload cfg AO (all_ctxs W) W HI) as [H1 [[[T1 T2] S1] _]].
    destruct (resume_all_inv _ H1) as [H2 [[T3 T4] [A3 _]]].
    destruct (settle_inv _ H2) as [_ [[T5 T6] [A5 _]]].
    apply FromA; try congruence; [intros x Hx; apply S1; rewrite <- A3, <- A5; exact Hx|]. apply unload_eff; assumption.
  - destruct (prologue_inv u W HI) as [_ [[T1 T2] [A _]]]. apply FromA; try assumption; [intros x Hx; rewrite <- A; exact Hx|].
    apply prologue_eff. exact HI.
  - destruct (dm_resume_inv g W HI) as [_ [[T1 T2] [A _]]]. apply FromA; try assumption; [intros x Hx; rewrite <- A; exact Hx|].
    apply dm_resume_eff.
  - destruct (resume_all_inv W HI) as [_ [[T1 T2] [A _]]]. apply FromA; try assumption; [intros x Hx; rewrite <- A; exact Hx|].
    apply resume_all_eff; [exact HI|apply below_refl].
  - apply FromA; try reflexivity; [auto|]. exists []. split; [apply do_reap_eff|intros f []].
  - destruct (settle_inv W HI) as [_ [[T1 T2] [A _]]]. apply FromA; try assumption; [intros x Hx; rewrite <- A; exact Hx|].
    apply settle_eff; [exact HI|apply below_refl].
  - destruct (crash_all_inv cfg (crashers_startup W) AO W HI) as [_ [F [Nx [A [_ [_ [_ [_ [_ [LG [RP _]]]]]]]]]]].
    apply FromA; try assumption; [intros x Hx; rewrite <- A; exact Hx|]. exists []. split; [apply eff_same; assumption|intros f []].
  - pose proof AO as [_ [_ [_ [_ [D92 _]]]]]. rewrite D92.
    destruct (ctx_start_inv cfg m ord W AO HI) as [_ [[T1 T2] S]]. apply FromA; try assumption. apply ctx_start_eff; assumption.
Qed.

(* ---- occurrences run only functions that are active --------------------------------------------- *)
Lemma gen_of_owns W f u : Inv W -> owns W f u -> gen_of W (u_id u) = f_gen f.
Proof.
  intros [I [S L]] O. unfold gen_of. destruct (find_unit W (u_id u)) as [u'|] eqn:FU.
  - destruct (find_unit_some W _ _ FU) as [[f' O'] E]. destruct (io_uniq W I f' u' f u O' O E) as [_ ->].
    apply (io_unit W I f u O).
  - exfalso. unfold find_unit in FU. assert (X : In u (all_units W)) by (apply In_all_units; exists f; exact O).
    pose proof (find_none _ _ FU u X) as C. cbn in C. rewrite N.eqb_refl in C. discriminate.
Qed.

Lemma occ_active cfg W o : all_off cfg -> Inv W -> is_occ o = true ->
  exists rs, w_log (step cfg W o) = w_log W ++ rs /\ l_reap (w_led (step cfg W o)) = l_reap (w_led W) /\
    w_funcs (step cfg W o) = w_funcs W /\
    w_active (step cfg W o) = w_active W /\ w_next (step cfg W o) = w_next W /\
    forall r, In r rs -> In (r_gen r) (w_active W) \/
      exists f u, owns W f u /\ f_gen f = r_gen r /\ In (u_id u) (l_reap (w_led W)).
Proof.
  intros AO HI OC. pose proof HI as [I [S L]].
  assert (RUN : forall id, In id (w_running W) -> In (gen_of W id) (w_active W)).
  { intros id H. destruct (so_run W S id H) as [f [u [O [E [A _]]]]]. rewrite <- E, (gen_of_owns W f u HI O). exact A. }
  assert (CR : forall ids rs, exists rs', rs' = rs /\
            w_log (crash_all cfg ids (add_log W rs)) = w_log W ++ rs' /\
            l_reap (w_led (crash_all cfg ids (add_log W rs))) = l_reap (w_led W) /\
            w_funcs (crash_all cfg ids (add_log W rs)) = w_funcs W /\ w_active (crash_all cfg ids (add_log W rs)) = w_active W /\
            w_next (crash_all cfg ids (add_log W rs)) = w_next W).
  { intros ids rs. exists rs. split; [reflexivity|].
    destruct (crash_all_inv cfg ids AO (add_log W rs) (Inv_log W rs HI)) as [_ [F [Nx [A [_ [_ [_ [_ [_ [LG [RP _]]]]]]]]]]].
    rewrite LG, RP, F, A, Nx. repeat split; reflexivity. }
  destruct o; cbn [is_occ] in OC; try discriminate; cbn [step].
  - destruct (CR (crashers_state e W) (occ_state e W)) as [rs [-> [E1 [E2 [E3 [E4 E5]]]]]].
    exists (occ_state e W). repeat split; try assumption. intros r Hr. left. unfold occ_state in Hr. apply in_map_iff in Hr.
    destruct Hr as [[e' q] [<- Hp]]. apply filter_In in Hp. destruct Hp as [Hp _]. cbn [r_gen snd].
    apply RUN. exact (proj1 (ok_state W L e' q Hp)).
  - destruct (CR (crashers_event ev W) (occ_event ev W)) as [rs [-> [E1 [E2 [E3 [E4 E5]]]]]].
    exists (occ_event ev W). repeat split; try assumption. intros r Hr. left. unfold occ_event in Hr. apply in_app_or in Hr.
    destruct Hr as [Hr|Hr].
    + destruct (memp (ev, 0) (l_bus (w_led W))); [|destruct Hr]. apply in_map_iff in Hr.
      destruct Hr as [[e' q] [<- Hp]]. apply filter_In in Hp. destruct Hp as [Hp _]. cbn [r_gen snd].
      apply RUN. exact (proj1 (ok_event W L e' q Hp)).
    + apply in_map_iff in Hr. destruct Hr as [[e' q] [<- Hp]]. apply filter_In in Hp. destruct Hp as [Hp C]. cbn [r_gen snd].
      apply andb_true_iff in C. destruct C as [C _]. apply andb_true_iff in C. destruct C as [_ C]. apply negb_true_iff, N.eqb_neq in C. cbn in C.
      destruct (ok_bus W L e' q Hp) as [[Z _]|[R _]]; [contradiction|]. apply RUN. exact R.
  - destruct (CR (crashers_tick W) (occ_tick W)) as [rs [-> [E1 [E2 [E3 [E4 E5]]]]]].
    exists (occ_tick W). repeat split; try assumption. intros r Hr. unfold occ_tick in Hr. apply in_flat_map in Hr.
    destruct Hr as [t [Ht Hr]]. destruct (find_unit W t) as [u|] eqn:FU; [|destruct Hr].
    destruct (u_periodic u && negb (memn t (w_pending W)) && negb (memn t (w_zombie W)) && negb (u_crash u)) eqn:C; [|destruct Hr].
    destruct Hr as [<-|[]]. cbn [r_gen]. apply andb_true_iff in C. destruct C as [C _]. apply andb_true_iff in C. destruct C as [C _].
    apply andb_true_iff in C. destruct C as [_ C]. apply negb_true_iff, memn_false in C.
    destruct (find_unit_some W t u FU) as [[f O] E].
    destruct (ok_tasks W L t Ht) as [H|[H|H]]; [|contradiction|].
    + right. exists f, u. split; [exact O|split; [symmetry; apply (io_unit W I f u O)|rewrite E; exact H]].
    + left. rewrite (proj1 (io_unit W I f u O)).
      destruct (so_run W S t H) as [f' [u' [O' [E' [A _]]]]]. destruct (io_uniq W I f' u' f u O' O) as [-> _]; [congruence|].
      exact A.
  - exists (occ_call cfg n W). repeat split; try reflexivity. intros r Hr. left. unfold occ_call, handler in Hr.
    destruct AO as [_ [_ [_ [D21 _]]]]. rewrite D21 in Hr.
    destruct (rev (filter (has_name W n) (l_svc (w_led W)))) as [|g r0] eqn:RV; [destruct Hr|]. destruct Hr as [<-|[]]. cbn [r_gen].
    assert (Hg : In g (l_svc (w_led W))).
    { assert (X : In g (rev (filter (has_name W n) (l_svc (w_led W))))) by (rewrite RV; left; reflexivity).
      apply in_rev in X. apply filter_In in X. tauto. }
    exact (proj1 (ok_svc W L g Hg)).
Qed.

(* ---- no run after stop --------------------------------------------------------------------------- *)
(* generation g was defined, its triggers have been stopped, and the reaper has processed its tasks *)
Definition Dead (g : N) (W : world) : Prop :=
  ~ In g (w_active W) /\ g < w_next W /\
  forall f u, owns W f u -> f_gen f = g -> ~ In (u_id u) (l_reap (w_led W)).

Lemma step_dead cfg W o g : all_off cfg -> Inv W -> Dead g W ->
  Dead g (step cfg W o) /\ exists rs, w_log (step cfg W o) = w_log W ++ rs /\ forall r, In r rs -> r_gen r <> g.
Proof.
  intros AO HI [DA [DN DR]]. pose proof (step_inv cfg W o AO HI) as HI'.
  destruct (is_occ o) eqn:OC.
  - destruct (occ_active cfg W o AO HI OC) as [rs [EL [EW [EF [EA [EN P]]]]]]. split.
    + split; [rewrite EA; exact DA|split; [rewrite EN; exact DN|]]. intros f u O E. rewrite EW. apply (DR f u); [|exact E].
      apply (owns_same W (step cfg W o) f u EF). exact O.
    + exists rs. split; [exact EL|]. intros r Hr. destruct (P r Hr) as [H|[f [u [O [E H]]]]].
      * intros C. rewrite C in H. exact (DA H).
      * intros C. apply (DR f u O); [congruence|exact H].
  - destruct (step_frame cfg W o AO HI OC) as [TF [NX [AC [fs [[[rs [EL PL]] ER] PF]]]]].
    set (W' := step cfg W o) in *. destruct HI' as [I' [S' L']].
    assert (OLD : forall f, In f (w_funcs W') -> f_gen f = g -> In f (w_funcs W)).
    { intros f Hf E. destruct TF as [TF|[fnew [TF G]]]; [rewrite <- TF; exact Hf|].
      rewrite TF in Hf. apply in_app_or in Hf. destruct Hf as [Hf|[<-|[]]]; [exact Hf|]. lia. }
    assert (NG : forall f, In f fs -> f_gen f <> g).
    { intros f Hf E. destruct (PF f Hf) as [_ [H|H]]; [rewrite E in H; exact (DA H)|lia]. }
    split.
    + split; [|split; [lia|]].
      * intros C. destruct (AC g C) as [H|H]; [exact (DA H)|lia].
      * intros f u [Hf Hu] E Ht. destruct (ER _ Ht) as [H|[f' [u' [Hf' [Hu' E']]]]].
        -- apply (DR f u); [split; [apply OLD; assumption|exact Hu]|exact E|exact H].
        -- destruct (PF f' Hf') as [Hf'' _].
           destruct (io_uniq W' I' f' u' f u (conj Hf'' Hu') (conj Hf Hu) E') as [-> _]. exact (NG f Hf' E).
    + exists rs. split; [exact EL|]. intros r Hr. destruct (PL r Hr) as [f [u [Hf [Hu E]]]].
      destruct (PF f Hf) as [Hf' _]. rewrite E, (proj1 (io_unit W' I' f u (conj Hf' Hu))). apply NG. exact Hf.
Qed.

Theorem no_run_after_stop cfg : all_off cfg -> forall ops W g, Inv W -> Dead g W ->
  exists rs, w_log (run_ops cfg ops W) = w_log W ++ rs /\ forall r, In r rs -> r_gen r <> g.
Proof.
  intros AO. unfold run_ops. induction ops as [|o r IH]; intros W g HI HD; cbn [fold_left].
  - exists []. rewrite app_nil_r. split; [reflexivity|intros x []].
  - destruct (step_dead cfg W o g AO HI HD) as [HD' [rs1 [E1 P1]]].
    destruct (IH (step cfg W o) g (step_inv cfg W o AO HI) HD') as [rs2 [E2 P2]].
    exists (rs1 ++ rs2). rewrite E2, E1, app_assoc. split; [reflexivity|].
    intros x Hx. apply in_app_or in Hx. destruct Hx as [Hx|Hx]; [apply P1|apply P2]; exact Hx.
Qed.

(* a stopped function becomes [Dead] as soon as the reaper has run *)
Lemma dead_after_reap W g : Inv W -> ~ In g (w_active W) -> g < w_next W -> Dead g (do_reap W).
Proof.
  intros HI A N. split; [exact A|split; [exact N|]]. intros f u O E H. destruct H.
Qed.

Lemma dead_after_settle W g : ~ In g (w_active W) -> g < w_next W -> Dead g (settle W).
Proof.
  intros A N.
  assert (K : forall ids V, w_active (fold_left (fun W u => prologue u W) ids V) = w_active V /\
                            w_next (fold_left (fun W u => prologue u W) ids V) = w_next V).
  { induction ids as [|a r IH]; intros V; cbn [fold_left]; [split; reflexivity|].
    destruct (IH (prologue a V)) as [X1 X2]. rewrite X1, X2. unfold prologue.
    destruct (find_unit V a); [|split; reflexivity]. destruct (memn a (w_pending V)); [split; reflexivity|].
    destruct (memn a (w_zombie V)); split; reflexivity. }
  unfold settle. destruct (K (w_pending W ++ w_zombie W) W) as [X1 X2].
  split; [unfold do_reap; wsimpl; rewrite X1; exact A|split; [unfold do_reap; wsimpl; rewrite X2; exact N|]].
  intros f u O E H. destruct H.
Qed.

(* reachable worlds satisfy the invariant *)
Lemma reachable_inv cfg ops : all_off cfg -> Inv (run_ops cfg ops world0).
Proof. intros AO. apply run_ops_inv; [exact AO|exact Inv0]. Qed.

Theorem no_run_after_stop_reachable cfg : all_off cfg -> forall ops0 ops g,
  let W := run_ops cfg ops0 world0 in
  Dead g W -> exists rs, w_log (run_ops cfg ops W) = w_log W ++ rs /\ forall r, In r rs -> r_gen r <> g.
Proof. intros AO ops0 ops g W HD. apply no_run_after_stop; [exact AO|apply reachable_inv; exact AO|exact HD]. Qed.

(* ============================================================================================== *)
(* the deviations of today's code, on witnesses                                                    *)
(* ============================================================================================== *)
Definition cfg_only16 := {| d16_notify_del_return := true; d90_dropped_dm_started := false; d91_pending_subscribes := false; d21_handler_stays := false;
  d92_cell_import_not_started := false; d93_fault_pins_function := false |}.
Definition cfg_only90 := {| d16_notify_del_return := false; d90_dropped_dm_started := true; d91_pending_subscribes := false; d21_handler_stays := false;
  d92_cell_import_not_started := false; d93_fault_pins_function := false |}.
Definition cfg_only91 := {| d16_notify_del_return := false; d90_dropped_dm_started := false; d91_pending_subscribes := true; d21_handler_stays := false;
  d92_cell_import_not_started := false; d93_fault_pins_function := false |}.
Definition cfg_only21 := {| d16_notify_del_return := false; d90_dropped_dm_started := false; d91_pending_subscribes := false; d21_handler_stays := true;
  d92_cell_import_not_started := false; d93_fault_pins_function := false |}.

(* the three names {a.b, a.b.old, c.d}: entity 1 with two names, entity 2 with one *)
Definition w_ab := {| i_ent := 1; i_parts := 2; i_tag := 0 |}.
Definition w_ab_old := {| i_ent := 1; i_parts := 3; i_tag := 1 |}.
Definition w_cd := {| i_ent := 2; i_parts := 2; i_tag := 0 |}.
Definition w_unit (order : list ident) : unit_ :=
  {| u_id := 5; u_gen := 4; u_state := Some order; u_event := None; u_periodic := false; u_startup := false; u_shutdown := false; u_crash := false |}.

Lemma wit_fresh : id_fresh 5 ledger0 /\ ledger_wf ledger0.
Proof.
  split.
  - unfold id_fresh. repeat split; cbn; try discriminate; try (intros ? []); try (intros []).
  - unfold ledger_wf. cbn. split; [|split; [reflexivity|repeat split; constructor]].
    intros ev. split; [intros []|]. unfold has_fst. cbn. discriminate.
Qed.

(* with the early `return`, the entity iterated after both names of the first entity keeps its queue ... *)
Lemma refuted_D16_cycle : leg_cycle cfg_only16 (w_unit [w_ab; w_ab_old; w_cd]) ledger0 <> ledger0 /\
                          dec_cycle cfg_only16 (w_unit [w_ab; w_ab_old; w_cd]) ledger0 <> ledger0.
Proof. split; vm_compute; discriminate. Qed.
(* ... while another iteration order of the same set releases everything: the leak depends on the hash seed *)
Lemma D16_order_dependent : leg_cycle cfg_only16 (w_unit [w_cd; w_ab; w_ab_old]) ledger0 = ledger0 /\
                            leg_cycle cfg_only16 (w_unit [w_ab; w_cd; w_ab_old]) ledger0 = ledger0.
Proof. split; vm_compute; reflexivity. Qed.

Definition wit_spec_svc (order : list ident) (svc : option N) (pos : nat) : fspec :=
  {| s_states := [order]; s_events := [1]; s_times := [{| ts_periodic := false; ts_startup := true; ts_shutdown := true |}];
     s_svc := svc; s_pos := pos; s_crash := false |}.
Definition wit_spec (order : list ident) : fspec := wit_spec_svc order (Some 7) 3.

(* D16 at system level: define in one cell, delete in the next, unload: entity 2 keeps a dead queue *)
Lemma refuted_D16_baseline :
  w_led (unload cfg_only16 (run_ops cfg_only16
     [OCtxAuto 0 false; ODefine 0 false (wit_spec [w_ab; w_ab_old; w_cd]); OCtxStart 0 []; OSettle; ODropped 1; OSettle] world0)) <> ledger0.
Proof. vm_compute. discriminate. Qed.

(* D90: new subsystem, a function redefined in the cell that defined it: the dropped generation 1 still runs *)
Definition ops_D90 : list op :=
  [OCtxAuto 0 false; ODefine 0 true (wit_spec [w_ab]); ODefine 0 true (wit_spec [w_ab]); ODropped 1; OCtxStart 0 []; OResumeAll; OSettle; OState 1].
Lemma refuted_D90 :
  existsb (fun r => N.eqb (r_gen r) 1 && N.eqb (rkind_code (r_kind r)) 0) (w_log (run_ops cfg_only90 ops_D90 world0)) = true /\
  existsb (fun r => N.eqb (r_gen r) 1 && N.eqb (rkind_code (r_kind r)) 0) (w_log (run_ops cfg_off ops_D90 world0)) = false.
Proof. split; vm_compute; reflexivity. Qed.

(* D91: legacy, a function defined and dropped before its trigger task ran: subscriptions survive even unload *)
Definition ops_D91 : list op := [OCtxAuto 0 true; ODefine 0 false (wit_spec [w_ab]); ODropped 1; OSettle].
Lemma refuted_D91 :
  w_led (unload cfg_only91 (run_ops cfg_only91 ops_D91 world0)) <> ledger0 /\
  w_led (unload cfg_off (run_ops cfg_off ops_D91 world0)) = ledger0.
Proof. split; vm_compute; [discriminate|reflexivity]. Qed.

(* D21: two live functions of one context declare service 7; the newer one is dropped: a call still reaches it *)
Definition svc_only (n : N) : fspec := {| s_states := []; s_events := []; s_times := []; s_svc := Some n; s_pos := 0; s_crash := false |}.
Definition ops_D21 : list op := [OCtxAuto 0 true; ODefine 0 false (svc_only 7); ODefine 0 false (svc_only 7); ODropped 2; OSettle; OCall 7].
Lemma refuted_D21 :
  map r_gen (w_log (run_ops cfg_only21 ops_D21 world0)) = [2] /\ map r_gen (w_log (run_ops cfg_off ops_D21 world0)) = [1].
Proof. split; vm_compute; reflexivity. Qed.

Definition ledger_eqb_empty (L : ledger) : bool :=
  match l_state L, l_event L, l_bus L, l_tasks L, l_reap L, l_svc L with [], [], [], [], [], [] => true | _, _, _, _, _, _ => false end.
(* the conformant model on the two scenarios of the seeded changes C09-1 and C09-3 *)
(* a registration of service 7 from context 2 is refused (both subsystems); when the owner's context stops, nothing of
   either function is left and a call runs nothing *)
Definition ops_refused (newsys : bool) : list op :=
  [ODefine 1 newsys (wit_spec [w_ab]); OCtxStart 1 []; OResumeAll; OSettle;
   ODefine 2 newsys (wit_spec [w_cd]); OCtxStart 2 []; OResumeAll; OSettle; OCall 7; OCtxStop 1; OResumeAll; OSettle; OCall 7; OState 2].
Example ex_refused : forall newsys,
  let W := run_ops cfg_off (ops_refused newsys) world0 in
  w_led W = ledger0 /\ svc_count W 7 = 0%nat /\ filter (fun r => N.eqb (rkind_code (r_kind r)) 5) (w_log W) =
     [{| r_gen := 1; r_kind := RService; r_unit := 1 |}].
Proof. intros [|]; vm_compute; repeat split; reflexivity. Qed.
(* new subsystem, @service in front of the triggers: the context is stopped while start() is suspended behind the
   service registration; when start() resumes it starts nothing, whatever comes later runs nothing *)
Definition ops_overtake (pos : nat) : list op :=
  [ODefine 1 true (wit_spec_svc [w_ab] (Some 7) pos); OCtxStart 1 []; OEvent 1; OCtxStop 1; OResumeAll; OSettle; OEvent 1; OState 1; OCall 7].
Example ex_overtake :
  map (fun pos => let W := run_ops cfg_off (ops_overtake pos) world0 in
                  (ledger_eqb_empty (w_led W), map (fun r => rkind_code (r_kind r)) (w_log W))) [0%nat; 1%nat; 2%nat; 3%nat] =
  [(true, []); (true, []); (true, [1]); (true, [3; 1; 4])].
Proof. vm_compute. reflexivity. Qed.

(* D92: a module (context 11) imported inside a Jupyter cell (context 0): loaded with auto_start off, never started *)
Definition cfg_only92 := {| d16_notify_del_return := false; d90_dropped_dm_started := false; d91_pending_subscribes := false;
  d21_handler_stays := false; d92_cell_import_not_started := true; d93_fault_pins_function := false |}.
Definition ops_D92 (newsys : bool) : list op :=
  [OCtxAuto 0 false; OCtxAuto 11 false; ODefine 11 newsys (wit_spec [w_ab]); OCtxStart 0 []; OCellImportStart 11 []; OResumeAll; OSettle;
   OState 1; OEvent 1].
Lemma refuted_D92 : forall newsys,
  map r_gen (w_log (run_ops cfg_only92 (ops_D92 newsys) world0)) = [] /\
  map r_gen (w_log (run_ops cfg_off (ops_D92 newsys) world0)) = [1; 1; 1].
Proof. intros [|]; split; vm_compute; reflexivity. Qed.

(* D93: new subsystem, function defined in a started context, startup dispatch raises: dropping it stops nothing *)
Definition cfg_only93 := {| d16_notify_del_return := false; d90_dropped_dm_started := false; d91_pending_subscribes := false;
  d21_handler_stays := false; d92_cell_import_not_started := false; d93_fault_pins_function := true |}.
Definition pin_spec : fspec :=
  {| s_states := [[w_ab]]; s_events := []; s_times := [{| ts_periodic := false; ts_startup := true; ts_shutdown := false |}];
     s_svc := None; s_pos := 0; s_crash := true |}.
Definition ops_D93 : list op :=
  [OCtxAuto 0 true; ODefine 0 true pin_spec; OResume 1; OResumeAll; OSettle; OStartupCrash; ODropped 1; OResumeAll; OSettle].
Lemma refuted_D93 :
  l_state (w_led (run_ops cfg_only93 ops_D93 world0)) = [(1, 2)] /\ w_led (run_ops cfg_off ops_D93 world0) = ledger0.
Proof. split; vm_compute; reflexivity. Qed.

(* a function whose every dispatch raises: its watchers die at the first occurrence, it never runs through a trigger,
   and stopping its context still leaves the empty ledger (seeded change C09-9), in both subsystems *)
Definition crash_spec : fspec :=
  {| s_states := [[w_ab; w_cd]]; s_events := [1]; s_times := [{| ts_periodic := true; ts_startup := false; ts_shutdown := true |}];
     s_svc := Some 7; s_pos := 3; s_crash := true |}.
Definition ops_crash (newsys : bool) : list op :=
  [ODefine 1 newsys crash_spec; OCtxStart 1 []; OResumeAll; OSettle; OStartupCrash; OState 1; OEvent 1; OTick; OCall 7;
   OCtxStop 1; OResumeAll; OSettle; OState 2].
Example ex_crash : forall newsys, let W := run_ops cfg_off (ops_crash newsys) world0 in
  w_led W = ledger0 /\ map (fun r => rkind_code (r_kind r)) (w_log W) = (if newsys then [5] else [5; 4]).
Proof. intros [|]; vm_compute; split; reflexivity. Qed.

(* ============================================================================================== *)
(* examples: the hypotheses of the theorems are inhabited by non-trivial instances                 *)
(* ============================================================================================== *)
Definition ex_ledger : ledger :=
  {| l_state := [(1, 7); (2, 7); (1, 9)]; l_event := [(1, 7)]; l_bus := [(1, 0); (2, 9)]; l_tasks := [7; 9]; l_reap := []; l_svc := [3] |}.
Example ex_inverse_hyps : id_fresh 5 ex_ledger /\ ledger_wf ex_ledger.
Proof.
  split.
  - repeat split; cbn; try discriminate.
    + intros p [<-|[<-|[<-|[]]]]; cbn; discriminate.
    + intros p [<-|[]]; cbn; discriminate.
    + intros p [<-|[<-|[]]]; cbn; discriminate.
    + intros [H|[H|[]]]; discriminate.
    + intros [].
  - repeat split; cbn.
    + intros [H|[H|[]]]; inversion H; subst; reflexivity.
    + intros H. destruct (N.eqb_spec ev 1) as [->|NE]; [left; reflexivity|].
      apply has_fst_In in H. destruct H as [q [H|[]]]. inversion H. congruence.
    + repeat constructor; cbn; intuition discriminate.
    + repeat constructor; cbn; intuition discriminate.
    + repeat constructor; cbn; intuition discriminate.
Qed.
Example ex_inverse_instance :
  leg_cycle cfg_off (w_unit [w_ab; w_ab_old; w_cd]) ex_ledger = ex_ledger /\
  fst (leg_prologue (w_unit [w_ab; w_ab_old; w_cd]) (leg_start (w_unit [w_ab; w_ab_old; w_cd]) ex_ledger)) <> ex_ledger.
Proof. split; vm_compute; [reflexivity|discriminate]. Qed.

(* a reachable world in which generation 1 is Dead and generation 3 still runs *)
Definition ex_ops0 : list op :=
  [OCtxAuto 0 true; ODefine 0 false (wit_spec [w_ab; w_cd]); ODefine 0 false (wit_spec_svc [w_ab] (Some 8) 3); OSettle; OState 1; ODropped 1; OSettle].
Example ex_dead : Dead 1 (run_ops cfg_off ex_ops0 world0) /\
  map r_gen (w_log (run_ops cfg_off (ex_ops0 ++ [OState 1; OEvent 1]) world0)) = [1; 3; 1; 3; 1; 3; 3].
Proof.
  split; [|vm_compute; reflexivity].
  assert (E : run_ops cfg_off ex_ops0 world0 =
    settle (run_ops cfg_off [OCtxAuto 0 true; ODefine 0 false (wit_spec [w_ab; w_cd]); ODefine 0 false (wit_spec_svc [w_ab] (Some 8) 3); OSettle; OState 1; ODropped 1] world0))
    by (vm_compute; reflexivity).
  rewrite E.
  apply dead_after_settle; vm_compute; [intros [H|[]]; discriminate|reflexivity].
Qed.
