(* Time/DtExpr.v — the *parsed* form of pyscript's date-time expressions and [denote_dt], the executable model of
   trigger.py TrigTime.parse_date_time (l.610-720) AFTER its regular-expression stage, plus parse_time_offset's
   number*unit arithmetic (l.37-57).  Instants are Z microseconds of the naive local clock (Common/Civil.v).
   The string -> parsed form step (regexes, float()) is not modelled: the correspondence generates (string, parsed
   form) pairs from the documented grammar, hands the string to the real code and the parsed form to this model.
   No proofs here (Proofs/TimeNext.v). *)
From Coq Require Import ZArith List Bool.
From PV Require Import Common.Civil.
Import ListNotations.
Local Open Scope Z_scope.

(* ---------- results ---------- *)
Inductive res (A : Type) :=
  | ROk (a : A)
  | RExc          (* the real code raises (e.g. datetime(2025, 2, 29) -> ValueError) *)
  | RUnsup.       (* outside the modelled fragment (non-integral microsecond period, sun table miss, out of fuel) *)
Arguments ROk {A} a.
Arguments RExc {A}.
Arguments RUnsup {A}.

Definition rbind {A B} (r : res A) (f : A -> res B) : res B :=
  match r with ROk a => f a | RExc => RExc | RUnsup => RUnsup end.

(* ---------- parsed forms ---------- *)
Inductive dspec :=
  | DFull (y m d : Z)          (* 2024/3/5 *)
  | DMonthDay (m d : Z)        (* 3/5: the year is taken from the reference instant *)
  | DDow (w : Z)               (* day-of-week name, 0 = Sunday: the next such day, today included *)
  | DToday | DTomorrow
  | DNone.                     (* date omitted *)

Inductive tpart :=
  | THMS (h m : Z) (snum : Z) (sexp : N)   (* h:m[:s] with s = snum / 10^sexp seconds *)
  | TNoon | TMidnight | TSunrise | TSunset
  | TNow                                   (* the word "now" (only without a date part) *)
  | TNone.                                 (* time omitted: midnight *)

(* number * unit, number = num / 10^exp; the unit is an index into the documented unit-name list
   (the scale of each name is regenerated from parse_time_offset's source: Gen/TimeConsts.v) *)
Record amount := { am_num : Z; am_exp : N; am_unit : N }.

Record dtexpr := { de_date : dspec; de_time : tpart; de_off : option amount }.

Definition pow10 (e : N) : Z := Z.pow 10 (Z.of_N e).

Section Denote.
  Variable scale : N -> Z.                 (* seconds per unit, by unit-name index *)
  Variable sun : Z -> bool -> option Z.    (* day number -> sunset? -> that day's sunrise/sunset as a naive local instant
                                              truncated to whole seconds (astral); None = not defined at this latitude *)

  (* value * scale seconds, rounded to microseconds the way timedelta(seconds=float) does *)
  Definition amount_us (a : amount) : Z :=
    div_rhe (am_num a * scale (am_unit a) * USEC) (pow10 (am_exp a)).

  (* an interval must be a whole number of microseconds to be in the modelled fragment *)
  Definition amount_us_exact (a : amount) : option Z :=
    let n := am_num a * scale (am_unit a) * USEC in
    if n mod pow10 (am_exp a) =? 0 then Some (n / pow10 (am_exp a)) else None.

  Definition off_us (o : option amount) : Z := match o with Some a => amount_us a | None => 0 end.

  Definition hms_part (h m snum : Z) (sexp : N) : Z :=
    div_rhe ((snum + (60 * (m + 60 * h)) * pow10 sexp) * USEC) (pow10 sexp).

  (* "now" is the only form that ignores the date computation altogether *)
  Definition uses_now (e : dtexpr) : bool := match de_time e with TNow => true | _ => false end.

  (* the [fixed_date] flag returned by parse_date_time *)
  Definition fixed_date (e : dtexpr) : bool :=
    match de_date e with
    | DNone => uses_now e
    | _ => true
    end.

  (* the date stage: day number of the resulting date.  [yshift] is 0 in the real code (the year of [now]); the
     conformant variant of once(month/day) also looks at neighbouring years (deviation D61). *)
  Definition date_day (d : dspec) (is_now : bool) (yshift day_offset now : Z) : res Z :=
    let today := day_of now in
    match d with
    | DFull y m dd => if valid_date y m dd then ROk (days_from_civil y m dd) else RExc
    | DMonthDay m dd =>
        let y := year_of_day today + yshift in
        if valid_date y m dd then ROk (days_from_civil y m dd) else RExc
    | DDow w =>
        let cur := weekday_sun0 today in
        ROk (today + (if cur <=? w then w - cur else 7 + w - cur))
    | DToday => ROk today
    | DTomorrow => ROk (today + 1)
    | DNone => ROk (today + (if is_now then 0 else day_offset))
    end.

  (* parse_date_time(date_time_str, day_offset, now, startup_time) -> (datetime, fixed_date) *)
  Definition denote_gen (e : dtexpr) (yshift day_offset now su : Z) : res (Z * bool) :=
    rbind (date_day (de_date e) (uses_now e) yshift day_offset now) (fun day =>
    let base := midnight day in
    let fx := fixed_date e in
    match de_time e with
    | THMS h m snum sexp => ROk (base + hms_part h m snum sexp + off_us (de_off e), fx)
    | TNoon => ROk (base + 12 * HOUR + off_us (de_off e), fx)
    | TMidnight | TNone => ROk (base + off_us (de_off e), fx)
    | TNow => ROk (su + off_us (de_off e), fx)
    | TSunrise =>
        match sun day false with
        | Some t => ROk (t + off_us (de_off e), fx)
        | None => ROk (base - 100 * DAY, fx)         (* "return something in the past so it is ignored" *)
        end
    | TSunset =>
        match sun day true with
        | Some t => ROk (t + off_us (de_off e), fx)
        | None => ROk (base - 100 * DAY, fx)
        end
    end).

  Definition denote_dt (e : dtexpr) (day_offset now su : Z) : res (Z * bool) := denote_gen e 0 day_offset now su.
End Denote.

(* ---------- the documented unit table (reference.rst "datetime ... optional offset") ---------- *)
(* index into the documented unit-name list, in this order:
   0 ""  1 s  2 sec  3 second  4 seconds  5 m  6 min  7 mins  8 minute  9 minutes  10 h  11 hr  12 hour  13 hours
   14 d  15 day  16 days  17 w  18 week  19 weeks *)
Definition doc_scale (u : N) : Z :=
  if (u <=? 4)%N then 1 else if (u <=? 9)%N then 60 else if (u <=? 13)%N then 3600 else if (u <=? 16)%N then 86400
  else if (u <=? 19)%N then 604800 else 1.

Definition doc_scale_table : list Z := map doc_scale (map N.of_nat (seq 0 20)).

Definition table_scale (tbl : list Z) (u : N) : Z := if (u <? 20)%N then nth (N.to_nat u) tbl 1 else 1.
