(* Time/Next.v — executable model of trigger.py TrigTime.timer_trigger_next (l.772-880) on parsed specifications,
   and the Spec [denotes] (which instants a specification denotes, from docs/reference.rst @time_trigger).
   External behaviour enters as Section variables: the unit table (regenerated from the source), astral's sunrise /
   sunset, croniter's successor function, and the local<->UTC maps of the configured time zone.
   No proofs here (Proofs/TimeNext.v). *)
From Coq Require Import ZArith List Bool.
From PV Require Import Common.Civil Time.DtExpr Gen.TimeConsts.
Import ListNotations.
Local Open Scope Z_scope.

(* ---------- deviations of the unchanged code (switch on = what the code does today; all off = conformant) ---------- *)
Record deviations := {
  d_period_wallclock : bool;   (* D60: period() instants are spaced in naive local time, not in elapsed time *)
  d_once_md_this_year : bool;  (* D61: once(month/day ...) only ever looks at the current year *)
  d_float_floor : bool;        (* D63: binary floating point in period*(1.0+floor(dt/period)) lands ON the current instant *)
  d_su_coincidence : bool;     (* D64: a time-only once() whose instant today equals startup_time is not moved to the next day *)
  d_newsub_adj_recheck : bool; (* D62: (running trigger, default subsystem) the wake-up re-check uses the DST-adjusted time *)
  d_legacy_gap_recheck : bool; (* D66: (running trigger, legacy subsystem) an early wake-up is re-armed with a naive difference *)
  d_md_invalid_raises : bool;  (* D65: once(2/29 ...) raises ValueError in a year without that day instead of skipping the year *)
  d_legacy_stop_fault : bool   (* D67: (removal, legacy subsystem) an unsubscribe callback that raises aborts TrigInfo.stop before the
                                  trigger task is cancelled and the "shutdown" entry runs *)
}.
Definition all_off : deviations :=
  {| d_period_wallclock := false; d_once_md_this_year := false; d_float_floor := false; d_su_coincidence := false;
     d_newsub_adj_recheck := false; d_legacy_gap_recheck := false; d_md_invalid_raises := false;
     d_legacy_stop_fault := false |}.
Definition as_code : deviations :=
  {| d_period_wallclock := true; d_once_md_this_year := true; d_float_floor := true; d_su_coincidence := true;
     d_newsub_adj_recheck := true; d_legacy_gap_recheck := true; d_md_invalid_raises := true;
     d_legacy_stop_fault := true |}.

(* ---------- cron(min hr dom mon dow): every field already expanded to its value set; None = "*" ---------- *)
Record cronx := { c_min : option (list Z); c_hour : option (list Z); c_dom : option (list Z);
                  c_mon : option (list Z); c_dow : option (list Z) }.

Definition zmem (x : Z) (l : list Z) : bool := existsb (Z.eqb x) l.
Definition fmatch (f : option (list Z)) (x : Z) : bool := match f with None => true | Some l => zmem x l end.

(* Linux crontab day rule: if both day-of-month and day-of-week are restricted, either may match *)
Definition cron_day_match (c : cronx) (day : Z) : bool :=
  let '(_, m, d) := civil_from_days day in
  let w := weekday_sun0 day in
  fmatch (c_mon c) m &&
  match c_dom c, c_dow c with
  | Some ds, Some ws => zmem d ds || zmem w ws
  | _, _ => fmatch (c_dom c) d && fmatch (c_dow c) w
  end.

Definition cron_match (c : cronx) (t : Z) : bool :=
  (tod_of t mod MINUTE =? 0) &&
  cron_day_match c (day_of t) && fmatch (c_hour c) (tod_of t / HOUR) && fmatch (c_min c) ((tod_of t mod HOUR) / MINUTE).

Inductive tspec :=
  | Once (e : dtexpr)
  | Period (s : dtexpr) (iv : amount) (e : option dtexpr)
  | Cron (c : cronx).

Definition cand := option (Z * Z).     (* (next_time, next_time_adj) *)

(* `if next_time is None or val < next_time` *)
Definition upd (acc c : cand) : cand :=
  match c with
  | None => acc
  | Some (t, a) => match acc with
                   | None => Some (t, a)
                   | Some (t0, _) => if t <? t0 then Some (t, a) else acc
                   end
  end.

Section Next.
  Variable scale : N -> Z.
  Variable sun : Z -> bool -> option Z.
  Variable cron_next : cronx -> Z -> Z.      (* croniter(expr, t).get_next() on naive datetimes *)
  Variable lu : Z -> Z.                      (* naive local instant -> UTC instant (dt_util.as_local(..).astimezone(UTC)) *)
  Variable ul : Z -> Z.                      (* UTC instant -> naive local instant *)
  Variable cfg : deviations.
  Variable fl : bool.                        (* this evaluation's float quotient fell just short of an exact integer *)

  Let denote := denote_dt scale sun.
  Let denote_y := denote_gen scale sun.

  Definition startup_eq (now t su : Z) : bool := (now =? t) && (now =? su).

  Definition fires (now t su : Z) : cand :=
    if (now <? t) || startup_eq now t su then Some (t, t) else None.

  (* first year shift whose instant is still to come; a year in which the month/day does not exist is skipped
     (conformant) or raises (D65) *)
  Fixpoint first_year (e : dtexpr) (shifts : list Z) (now su : Z) : res cand :=
    match shifts with
    | [] => ROk None
    | ys :: rest =>
        match denote_y e ys 0 now su with
        | RExc => if d_md_invalid_raises cfg then RExc else first_year e rest now su
        | r => rbind r (fun '(t, _) =>
               match fires now t su with
               | Some c => ROk (Some c)
               | None => first_year e rest now su
               end)
        end
    end.

  Definition is_monthday (e : dtexpr) : bool := match de_date e with DMonthDay _ _ => true | _ => false end.

  Definition year_shifts : list Z := [-1; 0; 1; 2; 3; 4; 5; 6; 7; 8].

  (* the once(...) branch *)
  Definition once_next (e : dtexpr) (now su : Z) : res cand :=
    if is_monthday e && negb (d_once_md_this_year cfg) then first_year e year_shifts now su
    else
    match denote e 0 now su with
    | RExc => if is_monthday e && negb (d_md_invalid_raises cfg) then ROk None else RExc
    | r0 =>
    rbind r0 (fun '(t0, _) =>
    let k := (now - t0) / DAY + 1 in                       (* (now - this_t).days + 1 *)
    let retry := negb (k =? 0) && (negb (d_su_coincidence cfg) || negb (t0 =? su)) in
    rbind (if retry then denote e k now su else ROk (t0, false)) (fun '(t, _) =>
    ROk (fires now t su)))
    end.

  (* start + period * (1 + floor((now - start) / period)) *)
  Definition grid_next (start P now : Z) : Z :=
    let '(s, n) := if d_period_wallclock cfg then (start, now) else (lu start, lu now) in
    let q := (n - s) / P in
    (* the float quotient can only fall short of an exact multiple when the interval in seconds is not a binary fraction
       (P/10^6 s is dyadic iff 5^6 = 15625 divides P): 60 s, 0.25 s are exact, 0.1 s, 1.1 s, 43200.36 s are not *)
    let k := if d_float_floor cfg && fl && ((n - s) mod P =? 0) && negb (P mod 15625 =? 0) then q else q + 1 in
    if d_period_wallclock cfg then start + P * k else ul (s + P * k).

  Definition period_open (s : dtexpr) (P now su : Z) : res cand :=
    rbind (denote s 0 now su) (fun '(start, _) =>
    if (now <? start) || startup_eq now start su then ROk (Some (start, start))
    else
      let this := grid_next start P now in
      ROk (if now <? this then Some (this, this) else None)).

  Fixpoint dither_loop (days : list Z) (s e : dtexpr) (P eoff now su : Z) : res cand :=
    match days with
    | [] => ROk None
    | day :: rest =>
        rbind (denote s day now su) (fun '(start, _) =>
        rbind (denote e (day + eoff) now su) (fun '(end_, _) =>
        if ((now <? start) || startup_eq now start su) && (start <=? end_) then ROk (Some (start, start))
        else
          let this := grid_next start P now in
          if (start <=? this) && (this <=? end_) then ROk (Some (this, this))
          else dither_loop rest s e P eoff now su))
    end.

  Definition period_closed (s e : dtexpr) (P now su : Z) : res cand :=
    rbind (denote s 0 now su) (fun '(start, fs) =>
    rbind (denote e 0 now su) (fun '(end_, fe) =>
    if negb fs && negb fe
    then dither_loop dither_undated s e P (if end_ <? start then 1 else 0) now su
    else dither_loop dither_dated s e P 0 now su)).

  (* fetch croniter times until the UTC distance from now is positive *)
  Fixpoint cron_loop (fuel : nat) (c : cronx) (now cur : Z) : res cand :=
    match fuel with
    | O => RUnsup
    | S f =>
        let v := cron_next c cur in
        let delta := lu v - lu now in
        if delta <=? 0 then cron_loop f c now v else ROk (Some (v, now + delta))
    end.

  Definition next_one (s : tspec) (now su : Z) : res cand :=
    match s with
    | Once e => once_next e now su
    | Period st iv en =>
        match amount_us_exact scale iv with
        | None => RUnsup
        | Some P =>
            if P <=? 0 then ROk None                         (* "Invalid non-positive period": spec skipped *)
            else match en with
                 | None => period_open st P now su
                 | Some e => period_closed st e P now su
                 end
        end
    | Cron c => cron_loop 200 c now now
    end.

  Fixpoint next_fold (specs : list tspec) (now su : Z) (acc : cand) : res cand :=
    match specs with
    | [] => ROk acc
    | s :: rest => rbind (next_one s now su) (fun c => next_fold rest now su (upd acc c))
    end.

  Definition next_list (specs : list tspec) (now su : Z) : res cand := next_fold specs now su None.
End Next.

(* ---------- after the wait: how the two subsystems decide that the trigger time has come ---------- *)
(* [u] is the UTC instant of a wake-up, [ul u] what dt_now() reads then; result: the UTC instant at which the function runs *)
Section Wake.
  Variable lu ul : Z -> Z.
  Variable wall : Z -> Z.     (* what the wall clock shows (as a UTC instant) at true (monotonic) instant u; the identity for
                                 a perfect clock, behind it after a step back or while the clock is slewed *)
  Variable cfg : deviations.

  (* legacy trigger_watch: `if actual_now < time_next: timeout = <distance to time_next>; continue` (loops until reached) *)
  Fixpoint legacy_wake (fuel : nat) (t u : Z) : option Z :=
    match fuel with
    | O => None
    | S f =>
        let w := wall u in
        let l := ul w in
        if l <? t
        then legacy_wake f t (u + (if d_legacy_gap_recheck cfg then t - l else lu t - w))
        else Some u
    end.

  (* default subsystem _cycle: `while True: now = dt_now(); if now >= time_next: break; timeout = <distance>;
     if timeout <= 1e-6: break; await asyncio.sleep(timeout)` (D62: compared and re-armed with time_next_adj) *)
  Fixpoint default_wake (fuel : nat) (t adj u : Z) : option Z :=
    match fuel with
    | O => None
    | S f =>
        let w := wall u in
        let l := ul w in
        if d_newsub_adj_recheck cfg
        then (if adj - l <=? 1 then Some u else default_wake f t adj (u + (adj - l)))
        else (if (t <=? l) || (lu t - w <=? 1) then Some u else default_wake f t adj (u + (lu t - w)))
    end.
End Wake.

(* ---------- removal ---------- *)
(* TrigInfo.stop (legacy) / DecoratorManager.stop (default): unsubscribe the sibling triggers, cancel the timer task, run the
   "shutdown" entry.  [true] = the last two steps happen although a sibling's unsubscribe callback raises. *)
Definition stop_completes (cfg : deviations) (legacy unsubscribe_raises : bool) : bool :=
  negb (legacy && unsubscribe_raises && d_legacy_stop_fault cfg).

(* ================================================================================================ *)
(* Spec: the instants a specification denotes at current time [now] for a trigger started at [su]    *)
(* (docs/reference.rst, @time_trigger).  Dates that are relative (today, tomorrow, a weekday name,   *)
(* a month/day inside period()) are relative to the current time.                                    *)
(* ================================================================================================ *)
Section Spec.
  Variable scale : N -> Z.
  Variable sun : Z -> bool -> option Z.
  Variable lu : Z -> Z.
  Variable ul : Z -> Z.
  Variable elapsed : bool.     (* period() spacing: true = elapsed time (documentation), false = naive local time *)

  (* the day numbers a date part may stand for; [yearly]: month/day names that day of every year (once()) *)
  Definition day_denoted (d : dspec) (yearly : bool) (now day : Z) : Prop :=
    match d with
    | DFull y m dd => valid_date y m dd = true /\ day = days_from_civil y m dd
    | DMonthDay m dd =>
        exists y, valid_date y m dd = true /\ day = days_from_civil y m dd /\
                  (yearly = false -> y = year_of_day (day_of now))
    | DDow w => day_of now <= day < day_of now + 7 /\ weekday_sun0 day = w
    | DToday => day = day_of now
    | DTomorrow => day = day_of now + 1
    | DNone => True
    end.

  (* the instant a time part names on a given day *)
  Definition time_on (e : dtexpr) (su day : Z) (t : Z) : Prop :=
    match de_time e with
    | THMS h m snum sexp => t = midnight day + hms_part h m snum sexp + off_us scale (de_off e)
    | TNoon => t = midnight day + 12 * HOUR + off_us scale (de_off e)
    | TMidnight | TNone => t = midnight day + off_us scale (de_off e)
    | TNow => t = su + off_us scale (de_off e)
    | TSunrise => exists x, sun day false = Some x /\ t = x + off_us scale (de_off e)
    | TSunset => exists x, sun day true = Some x /\ t = x + off_us scale (de_off e)
    end.

  Definition inst (e : dtexpr) (yearly : bool) (su now t : Z) : Prop :=
    exists day, day_denoted (de_date e) yearly now day /\ time_on e su day t.

  (* same, with an omitted date read as one given day (used for period windows) *)
  Definition inst_on (e : dtexpr) (dflt : Z) (su now t : Z) : Prop :=
    exists day, (match de_date e with DNone => uses_now e = true \/ day = dflt | d => day_denoted d false now day end)
                /\ time_on e su day t.

  Definition grid (S P t : Z) : Prop :=
    exists k, 0 <= k /\ (if elapsed then t = ul (lu S + P * k) else t = S + P * k).

  Definition denotes (s : tspec) (su now t : Z) : Prop :=
    match s with
    | Once e => inst e true su now t
    | Period st iv None =>
        exists P S, amount_us_exact scale iv = Some P /\ 0 < P /\ inst st false su now S /\ grid S P t
    | Period st iv (Some en) =>
        exists P, amount_us_exact scale iv = Some P /\ 0 < P /\
        if fixed_date st || fixed_date en
        then (* a dated side anchors the window; an undated side means "today" *)
             exists S E, inst_on st (day_of now) su now S /\ inst_on en (day_of now) su now E /\
                         grid S P t /\ t <= E
        else (* both undated: one window per day, ending the next day if the end time is not later than the start *)
             exists D S E0 E, inst_on st D su now S /\ inst_on en D su now E0 /\
                              E = (if E0 <? S then E0 + DAY else E0) /\ grid S P t /\ t <= E
    | Cron c => cron_match c t = true
    end.

  Definition denotes_any (specs : list tspec) (su now t : Z) : Prop := exists s, In s specs /\ denotes s su now t.
End Spec.

(* ================================================================================================ *)
(* The fragment of specifications for which Properties/C06.v proves the successor property           *)
(* (everything else - sunrise/sunset, month/day 2/29 - is covered by the correspondence only).       *)
(* ================================================================================================ *)
Section Fragment.
  Variable scale : N -> Z.

  Definition no_sun (e : dtexpr) : bool := match de_time e with TSunrise | TSunset => false | _ => true end.

  Definition date_ok (d : dspec) : bool :=
    match d with
    | DFull y m dd => valid_date y m dd
    | DMonthDay m dd => valid_date 2023 m dd           (* exists in every year *)
    | DDow w => (0 <=? w) && (w <=? 6)
    | _ => true
    end.

  (* the word "now" stands alone (parse_date_time only honours it without a date part) *)
  Definition now_ok (e : dtexpr) : bool :=
    match de_time e, de_date e with
    | TNow, DNone => true
    | TNow, _ => false
    | _, _ => true
    end.

  Definition expr_ok (e : dtexpr) : bool := no_sun e && date_ok (de_date e) && now_ok e.

  (* time of day plus offset *)
  Definition tod_off (e : dtexpr) : Z :=
    match de_time e with
    | THMS h m snum sexp => hms_part h m snum sexp + off_us scale (de_off e)
    | TNoon => 12 * HOUR + off_us scale (de_off e)
    | _ => off_us scale (de_off e)
    end.

  Definition in_day (x : Z) : bool := (0 <=? x) && (x <? DAY).

  Definition in_fragment (s : tspec) : bool :=
    match s with
    | Once e =>
        expr_ok e && (if is_monthday e then (- (365 * DAY) <=? tod_off e) && (tod_off e <=? 365 * DAY) else true)
    | Period st iv None =>
        expr_ok st &&
        match amount_us_exact scale iv with
        | None => false
        | Some P => if fixed_date st then true
                    else (* the quantifier's self-consistency condition: start < interval and interval divides 24 h *)
                         (P <=? 0) || ((0 <=? tod_off st) && (tod_off st <? P) && (DAY mod P =? 0))
        end
    | Period st iv (Some en) =>
        expr_ok st && expr_ok en &&
        match amount_us_exact scale iv with
        | None => false
        | Some _ => if fixed_date st || fixed_date en then true else in_day (tod_off st) && in_day (tod_off en)
        end
    | Cron _ => true
    end.
End Fragment.

(* [r] is the earliest instant strictly after [now] in the set [D] (or the startup instant itself, in the one documented
   case where a specification based on "now" fires at definition time), or None if [D] has nothing after [now] *)
Definition successor_of (D : Z -> Prop) (now su : Z) (r : cand) : Prop :=
  match r with
  | Some (t, _) => (now < t \/ (t = now /\ now = su)) /\ D t /\ forall t', now < t' -> t' < t -> ~ D t'
  | None => forall t', now < t' -> ~ D t'
  end.

(* a time zone without transitions: local time is UTC plus a constant *)
Definition tz_const (lu ul : Z -> Z) : Prop := exists c, forall x, lu x = x - c /\ ul x = x + c.

(* croniter's contract for one expression: the value returned for t is the earliest matching minute strictly after t *)
Definition cron_ok (cron_next : cronx -> Z -> Z) (c : cronx) : Prop :=
  forall t, let v := cron_next c t in
            t < v /\ cron_match c v = true /\ forall t', t < t' -> t' < v -> cron_match c t' = false.

(* the current time is a real reading of the local clock: everything later on the naive scale is later in UTC too
   (false only for a naive time inside the hour skipped by a change to summer time) *)
Definition real_now (lu : Z -> Z) (now : Z) : Prop := forall t', now < t' -> lu now < lu t'.

Definition is_cron (s : tspec) : bool := match s with Cron _ => true | _ => false end.

(* the hypotheses under which Properties/C06.v proves the successor property for a list of specifications *)
Definition specs_ok (scale : N -> Z) (cron_next : cronx -> Z -> Z) (lu : Z -> Z) (specs : list tspec) (now : Z) : Prop :=
  (forall s, In s specs -> in_fragment scale s = true) /\
  (forall c, In (Cron c) specs -> cron_ok cron_next c /\ real_now lu now).
