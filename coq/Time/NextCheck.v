(* Time/NextCheck.v — what the generated correspondence files evaluate for C06.
   [ncase_model_ok]: the Model (under the measured deviation switches) reproduces what the real
   TrigTime.timer_trigger_next returned (tie T2).  [ncase_spec_ok]: what the real code returned is what the
   conformant Model (all switches off, documented unit table) computes, i.e. - by the theorems of Properties/C06.v -
   the earliest denoted instant strictly after the current time.
   Also: concrete instances of the Section variables (time-zone table, a Gallina crontab successor, the sun table
   shipped with each case), and the checks for running triggers ([rcase]).  No proofs here. *)
From Coq Require Import ZArith List Bool.
From PV Require Import Common.Util Common.Civil Time.DtExpr Time.Next Gen.TimeConsts.
Import ListNotations.
Local Open Scope Z_scope.

(* ---------- time zone as data: UTC transition instants with the offsets before/after (zoneinfo) ---------- *)
Record tzdata := { tz_default : Z; tz_trans : list (Z * Z * Z) }.

Fixpoint off_utc (tr : list (Z * Z * Z)) (cur u : Z) : Z :=
  match tr with
  | [] => cur
  | (x, _, a) :: r => if x <=? u then off_utc r a u else cur
  end.
(* naive local time with fold=0: the pre-transition offset applies until the later of the two wall-clock readings *)
Fixpoint off_local (tr : list (Z * Z * Z)) (cur l : Z) : Z :=
  match tr with
  | [] => cur
  | (x, b, a) :: r => if x + Z.max b a <=? l then off_local r a l else cur
  end.
Definition tz_ul (tz : tzdata) (u : Z) : Z := u + off_utc (tz_trans tz) (tz_default tz) u.
Definition tz_lu (tz : tzdata) (l : Z) : Z := l - off_local (tz_trans tz) (tz_default tz) l.

(* ---------- a Gallina crontab successor (instance of the [cron_next] Section variable) ---------- *)
Definition minute_match (c : cronx) (m : Z) : bool := fmatch (c_hour c) (m / 60) && fmatch (c_min c) (m mod 60).

Fixpoint find_minute (c : cronx) (fuel : nat) (m : Z) : option Z :=
  match fuel with
  | O => None
  | S f => if 1440 <=? m then None else if minute_match c m then Some m else find_minute c f (m + 1)
  end.

Fixpoint cron_days (c : cronx) (fuel : nat) (day lo : Z) : option Z :=
  match fuel with
  | O => None
  | S f =>
      if cron_day_match c day
      then match find_minute c 1441 lo with
           | Some m => Some (midnight day + m * MINUTE)
           | None => cron_days c f (day + 1) 0
           end
      else cron_days c f (day + 1) 0
  end.

(* the first matching minute boundary strictly after t (searching at most ~8 years ahead; t itself if none) *)
Definition cron_next_impl (c : cronx) (t : Z) : Z :=
  let m0 := t / MINUTE + 1 in
  match cron_days c 3000 (m0 / 1440) (m0 mod 1440) with
  | Some v => v
  | None => t
  end.

(* ---------- cases of the "next" stream ---------- *)
Inductive nobs := OExc | ORes (r : cand).

Record ncase := {
  nc_specs : list tspec;
  nc_now : Z;
  nc_su : Z;
  nc_sun : list (Z * bool * option Z);     (* (day, sunset?, instant) : what astral returned to the real code *)
  nc_obs : nobs
}.

Fixpoint sun_lookup (tbl : list (Z * bool * option Z)) (day : Z) (k : bool) : option Z :=
  match tbl with
  | [] => None
  | (d, k', v) :: r => if (d =? day) && Bool.eqb k k' then v else sun_lookup r day k
  end.

Definition cand_eqb (a b : cand) : bool :=
  match a, b with
  | None, None => true
  | Some (t, x), Some (t', x') => (t =? t') && (x =? x')
  | _, _ => false
  end.

Definition obs_matches (o : nobs) (r : res cand) : bool :=
  match o, r with
  | OExc, RExc => true
  | ORes a, ROk b => cand_eqb a b
  | _, _ => false
  end.

Definition gen_scale : N -> Z := table_scale unit_scale_table.

Definition run_next (sc : N -> Z) (tz : tzdata) (cfg : deviations) (fl : bool) (c : ncase) : res cand :=
  next_list sc (sun_lookup (nc_sun c)) cron_next_impl (tz_lu tz) (tz_ul tz) cfg fl (nc_specs c) (nc_now c) (nc_su c).

Definition ncase_model_ok (tz : tzdata) (cfg : deviations) (c : ncase) : bool :=
  obs_matches (nc_obs c) (run_next gen_scale tz cfg false c)
  || (d_float_floor cfg && obs_matches (nc_obs c) (run_next gen_scale tz cfg true c)).

(* never in the past; equal to now only in the documented startup case *)
Definition obs_sane (c : ncase) : bool :=
  match nc_obs c with
  | ORes (Some (t, _)) => (nc_now c <? t) || ((t =? nc_now c) && (nc_now c =? nc_su c))
  | _ => true
  end.

Definition ncase_spec_ok (tz : tzdata) (c : ncase) : bool :=
  obs_matches (nc_obs c) (run_next (table_scale doc_scale_table) tz all_off false c) && obs_sane c.

Definition set_off (k : nat) (cfg : deviations) : deviations :=
  {| d_period_wallclock := if Nat.eqb k 60 then false else d_period_wallclock cfg;
     d_once_md_this_year := if Nat.eqb k 61 then false else d_once_md_this_year cfg;
     d_float_floor := if Nat.eqb k 63 then false else d_float_floor cfg;
     d_su_coincidence := if Nat.eqb k 64 then false else d_su_coincidence cfg;
     d_newsub_adj_recheck := if Nat.eqb k 62 then false else d_newsub_adj_recheck cfg;
     d_legacy_gap_recheck := if Nat.eqb k 66 then false else d_legacy_gap_recheck cfg;
     d_md_invalid_raises := if Nat.eqb k 65 then false else d_md_invalid_raises cfg;
     d_legacy_stop_fault := if Nat.eqb k 67 then false else d_legacy_stop_fault cfg |}.

Definition res_eqb (a b : res cand) : bool :=
  match a, b with
  | ROk x, ROk y => cand_eqb x y
  | RExc, RExc => true
  | RUnsup, RUnsup => true
  | _, _ => false
  end.

(* the deviations that make a difference on this case (only meaningful when the Model reproduces the observation) *)
Definition ncase_attrib (tz : tzdata) (cfg : deviations) (c : ncase) : list nat :=
  let base := run_next gen_scale tz cfg false c in
  let rel k := negb (res_eqb (run_next gen_scale tz (set_off k cfg) false c) base) in
  (if d_period_wallclock cfg && rel 60%nat then [60%nat] else []) ++
  (if d_once_md_this_year cfg && rel 61%nat then [61%nat] else []) ++
  (if d_su_coincidence cfg && rel 64%nat then [64%nat] else []) ++
  (if d_md_invalid_raises cfg && rel 65%nat then [65%nat] else []) ++
  (if d_float_floor cfg && negb (obs_matches (nc_obs c) base) && obs_matches (nc_obs c) (run_next gen_scale tz cfg true c)
   then [63%nat] else []).

Definition ncase_explain (tz : tzdata) (cfg : deviations) (c : ncase) :=
  (run_next gen_scale tz cfg false c, run_next (table_scale doc_scale_table) tz all_off false c).

(* ---------- the calendar library against CPython's datetime ---------- *)
Record ccase := { cc_day : Z; cc_y : Z; cc_m : Z; cc_d : Z; cc_wd : Z; cc_leap : bool }.
Definition ccase_ok (c : ccase) : bool :=
  let '(y, m, d) := civil_from_days (cc_day c) in
  (y =? cc_y c) && (m =? cc_m c) && (d =? cc_d c) && (days_from_civil (cc_y c) (cc_m c) (cc_d c) =? cc_day c)
  && (weekday_sun0 (cc_day c) =? cc_wd c) && Bool.eqb (is_leap (cc_y c)) (cc_leap c) && valid_date y m d.

(* ---------- running triggers on the virtual clock ---------- *)
Inductive rkind := RStartup | RShutdown | RTime (t : Z).

Record rcase := {
  rc_legacy : bool;
  rc_specs : list tspec;                        (* the time specifications (without "startup"/"shutdown") *)
  rc_startup : bool;                            (* "startup" (or no argument) given *)
  rc_shutdown : bool;                           (* "shutdown" given *)
  rc_su : Z;                                    (* startup_time the trigger used (naive local) *)
  rc_def_utc : Z;                               (* instant of the definition (monotonic time line, as UTC) *)
  rc_remove_utc : Z;                            (* instant at which the function was removed (end of observation) *)
  rc_sun : list (Z * bool * option Z);
  rc_calls : list (Z * Z * nobs);               (* every timer_trigger_next call: (monotonic instant, now, result) *)
  rc_runs : list (Z * rkind);                   (* every run of the function: (monotonic instant of the run, trigger_time) *)
  rc_wellformed : bool;                         (* harness: one startup_time for all calls, trigger_type "time", parsable times *)
  (* the wall clock relative to the monotonic clock: equal at rc_base, then losing rc_ppm microseconds per second (slewing)
     and stepped by the given amounts (negative = set back) at the given monotonic instants *)
  rc_base : Z;
  rc_ppm : Z;
  rc_steps : list (Z * Z);
  rc_stop_fault : bool;                         (* at removal the unsubscribe callback of a sibling trigger (MQTT) raises *)
  rc_end_utc : Z                                (* end of the observation after the removal (monotonic) *)
}.

(* what the wall clock shows (as a UTC instant) at monotonic instant u *)
Definition rc_wall (c : rcase) (u : Z) : Z :=
  rc_base c + (u - rc_base c) * (1000000 - rc_ppm c) / 1000000
  + fold_left (fun acc s => if fst s <=? u then acc + snd s else acc) (rc_steps c) 0.

Definition rcall_case (c : rcase) (call : Z * Z * nobs) : ncase :=
  {| nc_specs := rc_specs c; nc_now := snd (fst call); nc_su := rc_su c; nc_sun := rc_sun c; nc_obs := snd call |}.

(* the computation that produced instant t: (monotonic instant of the call, now, next_time_adj) *)
Definition call_for (c : rcase) (t : Z) : option (Z * Z * Z) :=
  match find (fun call => match snd call with ORes (Some (t', _)) => t' =? t | _ => false end) (rc_calls c) with
  | Some (m, now, ORes (Some (_, adj))) => Some (m, now, adj)
  | _ => None
  end.

(* when the Model's wake-up loop runs the function, if the first wait ends [e] microseconds off its target *)
Definition predicted_run (tz : tzdata) (cfg : deviations) (c : rcase) (m now t adj e : Z) : option Z :=
  let u0 := m + (adj - now) + e in
  if rc_legacy c then legacy_wake (tz_lu tz) (tz_ul tz) (rc_wall c) cfg 14 t u0
  else default_wake (tz_lu tz) (tz_ul tz) (rc_wall c) cfg 14 t adj u0.

Definition WAKE_JITTER : list Z := [0; -1; 1; -2; 2; -3; 3].    (* float rounding of the virtual clock, in microseconds *)

Definition mono_runs (c : rcase) : list (Z * Z) :=
  flat_map (fun r => match snd r with RTime t => [(fst r, t)] | _ => [] end) (rc_runs c).

Definition run_predicted (tz : tzdata) (cfg : deviations) (c : rcase) (r : Z * Z) : bool :=
  match call_for c (snd r) with
  | Some (m, now, adj) =>
      existsb (fun e => match predicted_run tz cfg c m now (snd r) adj e with
                        | Some u => Z.abs (u - fst r) <=? 5
                        | None => false
                        end) WAKE_JITTER
  | None => false
  end.

(* tie: every next-time computation the running trigger made, and the moment of every run, is reproduced by the Model *)
Definition rcase_model_ok (tz : tzdata) (cfg : deviations) (c : rcase) : bool :=
  rc_wellformed c &&
  forallb (fun call => ncase_model_ok tz cfg (rcall_case c call)) (rc_calls c) &&
  forallb (run_predicted tz cfg c) (mono_runs c).

(* the instants that must fire: the chain of conformant successors from startup_time up to the removal *)
Fixpoint expected_until (fuel : nat) (tz : tzdata) (c : rcase) (limit now : Z) : option (list Z) :=
  match fuel with
  | O => None
  | S f =>
      match next_list (table_scale doc_scale_table) (sun_lookup (rc_sun c)) cron_next_impl (tz_lu tz) (tz_ul tz) all_off false
                      (rc_specs c) now (rc_su c) with
      | ROk (Some (t, _)) =>
          if tz_lu tz t <? rc_wall c limit
          then match expected_until f tz c limit (if t =? now then t + 1 else t) with
               | Some l => Some (t :: l)
               | None => None
               end
          else Some []
      | ROk None => Some []
      | _ => None
      end
  end.

Definition expected_instants (fuel : nat) (tz : tzdata) (c : rcase) (now : Z) : option (list Z) :=
  expected_until fuel tz c (rc_remove_utc c) now.

(* (what the wall clock showed when the function ran, trigger_time) *)
Definition time_runs (c : rcase) : list (Z * Z) :=
  flat_map (fun r => match snd r with RTime t => [(rc_wall c (fst r), t)] | _ => [] end) (rc_runs c).

Definition RUN_TOLERANCE : Z := 1000.     (* microseconds late: virtual-clock float rounding, never a whole second *)
Definition RUN_EARLY : Z := 5.            (* microseconds early: the default subsystem's own 1 us tolerance plus float rounding *)

(* not before the instant on the wall clock, and on time *)
Definition on_time (tz : tzdata) (r : Z * Z) : bool :=
  let d := fst r - tz_lu tz (snd r) in (- RUN_EARLY <=? d) && (d <=? RUN_TOLERANCE).

Definition count_kind (c : rcase) (f : rkind -> bool) : nat := length (filter (fun r => f (snd r)) (rc_runs c)).

Definition is_startup (k : rkind) : bool := match k with RStartup => true | _ => false end.
Definition is_shutdown (k : rkind) : bool := match k with RShutdown => true | _ => false end.

(* once per instant, trigger_time equal to it, in order, on time; startup/shutdown exactly once at definition/removal *)
Definition rcase_spec_ok (tz : tzdata) (c : rcase) : bool :=
  match expected_instants 400 tz c (rc_su c) with
  | None => false
  | Some exp =>
      list_eqb Z.eqb (map snd (time_runs c)) exp
      && forallb (on_time tz) (time_runs c)
      && Nat.eqb (count_kind c is_startup) (if rc_startup c then 1 else 0)
      && Nat.eqb (count_kind c is_shutdown) (if rc_shutdown c then 1 else 0)
      && forallb (fun r => match snd r with
                           | RStartup => Z.abs (fst r - rc_def_utc c) <=? RUN_TOLERANCE
                           | RShutdown => Z.abs (fst r - rc_remove_utc c) <=? RUN_TOLERANCE
                           | RTime _ => true
                           end) (rc_runs c)
  end.

(* Lateness of a run, and the deviations that explain it.
   D62 (default subsystem): the run of an instant reached across a change to winter time is late by the DST shift.
   D66 (legacy subsystem): an early wake-up just before a gap of the local clock (change to summer time) is re-armed
   with the naive difference to the trigger time, so the first instant after the gap runs late by the width of the gap. *)
Definition lateness (tz : tzdata) (r : Z * Z) : Z := fst r - tz_lu tz (snd r).
Definition about (a b : Z) : bool := (b - RUN_TOLERANCE <=? a) && (a <=? b + RUN_TOLERANCE).
Definition gap_before (tz : tzdata) (t : Z) : Z := t - 1 - tz_ul tz (tz_lu tz t - 1).

Definition late_explained (tz : tzdata) (cfg : deviations) (legacy : bool) (r : Z * Z) : list nat :=
  let d := lateness tz r in
  if legacy
  then (if d_legacy_gap_recheck cfg && (0 <? gap_before tz (snd r)) && about d (gap_before tz (snd r)) then [66%nat] else [])
  else (if d_newsub_adj_recheck cfg && about d HOUR then [62%nat] else []).

Fixpoint is_sublist (a b : list Z) : bool :=      (* a is a subsequence of b *)
  match a, b with
  | [], _ => true
  | _ :: _, [] => false
  | x :: a', y :: b' => if x =? y then is_sublist a' b' else is_sublist a b'
  end.

(* D67: legacy, failing unsubscribe at removal: exactly the conformant instants up to the END OF THE OBSERVATION run (the timer was
   not cancelled), each once and on time, and the "shutdown" entry does not run *)
Definition stop_fault_shape (tz : tzdata) (cfg : deviations) (c : rcase) : bool :=
  negb (stop_completes cfg (rc_legacy c) (rc_stop_fault c)) &&
  match expected_until 400 tz c (rc_end_utc c) (rc_su c) with
  | Some exp => list_eqb Z.eqb (map snd (time_runs c)) exp
  | None => false
  end &&
  forallb (on_time tz) (time_runs c) && Nat.eqb (count_kind c is_shutdown) 0 &&
  Nat.eqb (count_kind c is_startup) (if rc_startup c then 1 else 0).

Definition rcase_attrib (tz : tzdata) (cfg : deviations) (c : rcase) : list nat :=
  let calls_attr := flat_map (fun call => ncase_attrib tz cfg (rcall_case c call)) (rc_calls c) in
  let runs := time_runs c in
  let late := filter (fun r => negb (on_time tz r)) runs in
  let expl := map (late_explained tz cfg (rc_legacy c)) late in
  let all_late_explained := forallb (fun l => negb (Nat.eqb (length l) 0)) expl in
  (* instants that did not run must have been slept over by an explained late run *)
  let shadowed (m : Z) := existsb (fun r => (tz_lu tz (snd r) <? tz_lu tz m) && (tz_lu tz m <=? fst r + RUN_TOLERANCE)) late in
  let ok_shape :=
    match expected_instants 400 tz c (rc_su c) with
    | Some exp => is_sublist (map snd runs) exp
                  && forallb (fun m => zmem m (map snd runs) || shadowed m) exp
    | None => false
    end in
  if stop_fault_shape tz cfg c then nodup Nat.eq_dec (calls_attr ++ [67%nat])
  else if Nat.eqb (length late) 0 then nodup Nat.eq_dec calls_attr
  else if all_late_explained && ok_shape then nodup Nat.eq_dec (calls_attr ++ concat expl)
  else [].

Definition rcase_explain (tz : tzdata) (cfg : deviations) (c : rcase) :=
  (expected_instants 400 tz c (rc_su c), map snd (time_runs c),
   map (fun r => fst r - tz_lu tz (snd r)) (time_runs c)).
