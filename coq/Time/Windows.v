(* Time/Windows.v — executable model of trigger.py TrigTime.timer_active_check (l.723-769) on *parsed* specifications.
   Time is [Z] microseconds since 1970-01-01 00:00 (naive local time, as everywhere in pyscript).  A range end point is
   the parsed form of what parse_date_time reads (date part, time of day plus offset; "now"; sunrise/sunset); the
   regex parsing itself is exercised by the correspondence, not modelled.  cron() is given as the expanded value sets of
   its five fields.  Comparison operators and the any/all combination come from Gen/GuardConsts.v, which the translator
   regenerates from /repo on every run.  No proofs here (see Proofs/TimeWindows.v). *)
From PV Require Import Common.Util Gen.GuardConsts.

Local Open Scope Z_scope.

Definition DAY : Z := 86400000000.          (* microseconds per day *)
Definition MINUTE : Z := 60000000.
Definition HOUR : Z := 3600000000.

Definition cmpZ (c : cmpop) (a b : Z) : bool :=
  match c with
  | CmpLe => a <=? b | CmpLt => a <? b | CmpGe => b <=? a | CmpGt => b <? a
  | CmpEq => a =? b | CmpNe => negb (a =? b)
  end.

(* ---------- proleptic Gregorian calendar (Hinnant's algorithms; day 0 = 1970-01-01, a Thursday) ---------- *)
Definition days_from_civil (y m d : Z) : Z :=
  let y' := if m <=? 2 then y - 1 else y in
  let era := y' / 400 in
  let yoe := y' - era * 400 in
  let mp := if 2 <? m then m - 3 else m + 9 in
  let doy := (153 * mp + 2) / 5 + d - 1 in
  let doe := yoe * 365 + yoe / 4 - yoe / 100 + doy in
  era * 146097 + doe - 719468.

Definition civil_from_days (z0 : Z) : Z * Z * Z :=          (* (year, month, day) *)
  let z := z0 + 719468 in
  let era := z / 146097 in
  let doe := z - era * 146097 in
  let yoe := (doe - doe / 1460 + doe / 36524 - doe / 146096) / 365 in
  let doy := doe - (365 * yoe + yoe / 4 - yoe / 100) in
  let mp := (5 * doy + 2) / 153 in
  let d := doy - (153 * mp + 2) / 5 + 1 in
  let m := if mp <? 10 then mp + 3 else mp - 9 in
  let y := yoe + era * 400 in
  ((if m <=? 2 then y + 1 else y), m, d).

Definition day_of (t : Z) : Z := t / DAY.                   (* floor: the calendar day containing instant t *)
Definition tod_of (t : Z) : Z := t mod DAY.                 (* microseconds since that day's midnight *)
Definition dow_of_day (d : Z) : Z := (d + 4) mod 7.         (* 0 = Sunday … 6 = Saturday (pyscript's dow2int) *)
Definition year_of_day (d : Z) : Z := let '(y, _, _) := civil_from_days d in y.
Definition month_of_day (d : Z) : Z := let '(_, m, _) := civil_from_days d in m.
Definition dom_of_day (d : Z) : Z := let '(_, _, x) := civil_from_days d in x.

(* ---------- parsed end points ---------- *)
Inductive dspec :=
  | DNone                       (* no date part: the date of the reference instant *)
  | DToday | DTomorrow
  | DDow (k : Z)                (* day-of-week name: next such day, today included *)
  | DMonthDay (m d : Z)         (* "M/D": year of the reference instant *)
  | DYmd (y m d : Z).

Inductive endpoint :=
  | EDay (d : dspec) (tod : Z)               (* tod = time of day + offset, microseconds (may leave [0, DAY)) *)
  | ESun (d : dspec) (sunset : bool) (off : Z)  (* sunrise / sunset of the resolved date + offset *)
  | ENow (off : Z).                          (* "now" = the trigger's start-up time + offset *)

(* external: local sunrise/sunset instant (truncated to the second) for a calendar day — astral, not modelled *)
Definition suntab := list (bool * Z * Z).    (* (sunset?, day, instant) *)
Fixpoint sun_lookup (tab : suntab) (sunset : bool) (day : Z) : Z :=
  match tab with
  | [] => (day - 100) * DAY                   (* "not defined at this latitude": something in the past *)
  | (s, d, t) :: r => if Bool.eqb s sunset && (d =? day) then t else sun_lookup r sunset day
  end.

(* the calendar day a date part denotes, relative to the day [rd] of the reference instant *)
Definition resolve_day (d : dspec) (rd : Z) : Z :=
  match d with
  | DNone | DToday => rd
  | DTomorrow => rd + 1
  | DDow k => rd + (k - dow_of_day rd) mod 7
  | DMonthDay m dd => days_from_civil (year_of_day rd) m dd
  | DYmd y m dd => days_from_civil y m dd
  end.

(* parse_date_time(str, 0, ref, startup) on the parsed form *)
Definition resolve (e : endpoint) (startup : Z) (sun : suntab) (ref : Z) : Z :=
  match e with
  | EDay d tod => resolve_day d (day_of ref) * DAY + tod
  | ESun d ss off => sun_lookup sun ss (resolve_day d (day_of ref)) + off
  | ENow off => startup + off
  end.

(* ---------- cron ---------- *)
Record cronspec := {
  c_min : list Z; c_hour : list Z; c_dom : list Z; c_mon : list Z; c_dow : list Z;   (* expanded value sets *)
  c_dom_star : bool; c_dow_star : bool          (* the field is the unrestricted "*" *)
}.

Definition inl (x : Z) (l : list Z) : bool := existsb (Z.eqb x) l.

(* croniter.match(expr, now) for a five-field expression: the minute containing [now] matches every field; when both
   day fields are restricted either one suffices (crontab's rule) *)
Definition cron_match (c : cronspec) (now : Z) : bool :=
  let day := day_of now in
  let tod := tod_of now in
  inl ((tod / MINUTE) mod 60) (c_min c) && inl (tod / HOUR) (c_hour c) && inl (month_of_day day) (c_mon c) &&
  (if c_dom_star c || c_dow_star c
   then inl (dom_of_day day) (c_dom c) && inl (dow_of_day day) (c_dow c)
   else inl (dom_of_day day) (c_dom c) || inl (dow_of_day day) (c_dow c)).

(* ---------- windows ---------- *)
Inductive window :=
  | WRange (a b : endpoint)
  | WCron (c : cronspec).

(* the comparison of l.753-756 on resolved instants *)
Definition range_match (s e now : Z) : bool :=
  if cmpZ wa_order_cmp s e
  then cmpZ wa_in_lo_cmp s now && cmpZ wa_in_hi_cmp now e
  else (if wa_wrap_or then orb else andb) (cmpZ wa_wrap_lo_cmp now s) (cmpZ wa_wrap_hi_cmp now e).

Definition win_match (w : window) (startup : Z) (sun : suntab) (now : Z) : bool :=
  match w with
  | WRange a b =>
      let s := resolve a startup sun now in          (* start is parsed relative to now *)
      let e := resolve b startup sun s in            (* end is parsed relative to start *)
      range_match s e now
  | WCron c => cron_match c now
  end.

(* a signed specification: [true] = prefixed with "not" *)
Definition sspec : Type := bool * window.

(* the loop of l.726-764: results["+"] / results["-"] in order of appearance *)
Fixpoint collect (specs : list sspec) (startup : Z) (sun : suntab) (now : Z) (pos neg : list bool) : list bool * list bool :=
  match specs with
  | [] => (pos, neg)
  | (negate, w) :: r =>
      let m := win_match w startup sun now in
      if negate then collect r startup sun now pos (neg ++ [negb m])
      else collect r startup sun now (pos ++ [m]) neg
  end.

Definition py_any (l : list bool) : bool := existsb (fun b => b) l.
Definition py_all (l : list bool) : bool := forallb (fun b => b) l.

(* l.767: (any(results["+"]) if results["+"] else True) and all(results["-"]) *)
Definition combine_results (pos neg : list bool) : bool :=
  let p := match pos with [] => wa_pos_empty | _ => if wa_pos_any then py_any pos else py_all pos end in
  let n := if wa_neg_all then py_all neg else py_any neg in
  if wa_comb_and then p && n else p || n.

Definition active_check (specs : list sspec) (startup : Z) (sun : suntab) (now : Z) : bool :=
  let '(pos, neg) := collect specs startup sun now [] [] in combine_results pos neg.

(* ================= Spec (from the property text) ================= *)
(* range(): both end points included; a range whose end precedes its start wraps *)
Definition in_range_spec (s e now : Z) : bool :=
  if s <=? e then (s <=? now) && (now <=? e) else (s <=? now) || (now <=? e).

Definition in_window_spec (w : window) (startup : Z) (sun : suntab) (now : Z) : bool :=
  match w with
  | WRange a b => let s := resolve a startup sun now in in_range_spec s (resolve b startup sun s) now
  | WCron c => cron_match c now
  end.

(* in at least one positive specification (or none is given) and in no specification prefixed with 'not' *)
Definition active_spec_b (specs : list sspec) (startup : Z) (sun : suntab) (now : Z) : bool :=
  (negb (existsb (fun s : sspec => negb (fst s)) specs)
   || existsb (fun s : sspec => negb (fst s) && in_window_spec (snd s) startup sun now) specs)
  && forallb (fun s : sspec => negb (fst s) || negb (in_window_spec (snd s) startup sun now)) specs.

(* ---------- the same, as propositions ---------- *)
Definition in_range (s e now : Z) : Prop :=
  (s <= e /\ s <= now <= e) \/ (e < s /\ (s <= now \/ now <= e)).

(* crontab(5): minute, hour and month must match; the day matches if both day fields match, except that when both are
   restricted (neither is "*") either one suffices *)
Definition cron_spec (c : cronspec) (now : Z) : Prop :=
  let day := day_of now in
  let tod := tod_of now in
  In ((tod / MINUTE) mod 60) (c_min c) /\ In (tod / HOUR) (c_hour c) /\ In (month_of_day day) (c_mon c) /\
  (if c_dom_star c || c_dow_star c
   then In (dom_of_day day) (c_dom c) /\ In (dow_of_day day) (c_dow c)
   else In (dom_of_day day) (c_dom c) \/ In (dow_of_day day) (c_dow c)).

Definition in_window (w : window) (startup : Z) (sun : suntab) (now : Z) : Prop :=
  match w with
  | WRange a b => let s := resolve a startup sun now in in_range s (resolve b startup sun s) now
  | WCron c => cron_spec c now
  end.

Definition active_spec (specs : list sspec) (startup : Z) (sun : suntab) (now : Z) : Prop :=
  ((forall w, ~ In (false, w) specs) \/ (exists w, In (false, w) specs /\ in_window w startup sun now))
  /\ (forall w, In (true, w) specs -> ~ in_window w startup sun now).

(* a plain daily window "range(HH:MM:SS, HH:MM:SS)" *)
Definition daily (ta tb : Z) : window := WRange (EDay DNone ta) (EDay DNone tb).
