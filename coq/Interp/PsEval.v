(* Interp/PsEval.v — model of pyscript's evaluators (eval.py AstEval), method by method, including the
   deviations from Python the code has today, each behind a switch of [deviations] (switch on = today's code,
   all off = conformant).  Both evaluators recurse on fuel: every descent into a child node costs one unit,
   list helpers are top-level fixpoints parameterised by the evaluators at the lower fuel.  No proofs here. *)
From Coq Require Import List NArith ZArith Bool.
From PV Require Import Interp.Syntax Interp.Host Gen.InterpConsts.
Import ListNotations.

Record deviations := {
  d_dict_value_first : bool;   (* D1   ast_dict: value evaluated before key *)
  d_call_kw_first : bool;      (* D2   ast_call: keywords evaluated before positionals *)
  d_compare_reeval : bool;     (* D3   ast_compare: middle operands of a chain evaluated twice *)
  d_aug_target_twice : bool;   (* D4   ast_augassign: subscript/attribute target evaluated twice *)
  d_fstring_conv : bool;       (* D5   ast_formattedvalue: !r / !s / !a ignored *)
  d_list_target : bool;        (* D6   recurse_assign: list target -> NotImplementedError *)
  d_del_attr_state : bool;     (* D7   ast_delete: attribute target routed to state deletion -> NameError *)
  d_aug_not_inplace : bool;    (* D100 ast_augassign: binary operator instead of the in-place operator *)
  d_uadd_identity : bool;      (* D101 ast_unaryop_uadd: operand returned unchanged *)
  d_dict_eager_insert : bool;  (* D102 ast_dict: each pair inserted (hashed) before the next pair is evaluated *)
  d_kw_dup_silent : bool;      (* D103 ast_call: repeated keyword silently overwritten instead of TypeError *)
  d_comp_leak_on_exc : bool;   (* D104 ast_listcomp/...: loop variables not restored when the comprehension raises *)
  d_set_late_hash : bool;      (* D105 ast_set: elements hashed only after all of them (also those after a *iterable) are evaluated *)
  (* internal: a difference from CPython that no builtin value can observe (hence no finding), modelled for the tie *)
  d_fstr_conv_early : bool;    (* I2   ast_formattedvalue: the conversion (!r !s !a) is applied before the format spec is
                                       evaluated (CPython evaluates the spec expressions first) *)
  d_unpack_drain : bool        (* I1   recurse_assign: vals = [*(iter(val))] (iter() twice, iterator drained before the
                                       length check, any exception turned into TypeError) *)
}.

Definition no_deviations : deviations :=
  {| d_dict_value_first := false; d_call_kw_first := false; d_compare_reeval := false; d_aug_target_twice := false;
     d_fstring_conv := false; d_list_target := false; d_del_attr_state := false; d_aug_not_inplace := false;
     d_uadd_identity := false; d_dict_eager_insert := false; d_kw_dup_silent := false; d_comp_leak_on_exc := false;
     d_set_late_hash := false; d_fstr_conv_early := false; d_unpack_drain := false |}.

Definition all_off (c : deviations) : Prop := c = no_deviations.

(* which operator an ast_binop_* method applies, read from the source (Gen/InterpConsts.v) *)
Definition binop_row (o : binop) : binop * bool :=
  match find (fun r => binop_eqb (fst (fst r)) o) binop_table with
  | Some (_, applied, swapped) => (applied, swapped)
  | None => (o, false)
  end.

Definition is_starred (e : expr) : bool := match e with EStarred _ => true | _ => false end.

(* names bound by an assignment target (eval.py get_target_names): Name, Tuple elements, Starred names *)
Fixpoint target_names (fuel : nat) (t : expr) : list ident :=
  match fuel with
  | O => []
  | S f =>
    match t with
    | EName x => [x]
    | ETuple es => flat_map (target_names f) es
    | EStarred (EName x) => [x]
    | _ => []
    end
  end.

Section Ps.
  Variable hstate : Type.
  Variable prim : primop -> list value -> hstate -> hstate * pres.
  Variable obj_hashable : N -> bool.
  Variable cfg : deviations.
  Notation M := (M hstate).
  Notation do_prim := (do_prim hstate prim).
  Notation truth := (truth hstate prim).
  Notation do_call := (do_call hstate prim).
  Notation do_format := (do_format hstate prim).
  Notation do_conv := (do_conv hstate prim).
  Notation to_list := (to_list hstate prim).
  Notation cmp_apply := (cmp_apply hstate prim).
  Notation open_cursor := (open_cursor hstate prim).
  Notation for_each := (for_each hstate prim).
  Notation hashable := (hashable obj_hashable).
  Notation mk_set := (mk_set obj_hashable).
  Notation dict_put := (dict_put obj_hashable).
  Notation set_put := (set_put obj_hashable).
  Notation set_add_all := (set_add_all obj_hashable).
  Notation items_exact := (items_exact hstate prim).
  Notation items_star := (items_star hstate prim).
  Notation unpack_targets := (unpack_targets hstate prim).

  (* ================= helpers over lists of nodes, given the evaluator of the children ================= *)
  Section Helpers.
    Variable ev : expr -> M value.
    Variable asg : expr -> value -> M unit.
    Variable f : nat.                         (* fuel for host-driven loops at this level *)

    (* ast_boolop: val = True/False; for arg1 in values: val = eval; if (not val)/(val): return val; return val *)
    Fixpoint ps_boolop (o : boolop) (es : list expr) (val : value) : M value :=
      match es with
      | [] => ret val
      | e :: r => bind (ev e) (fun v => bind (truth v) (fun t =>
                    match o with
                    | BAnd => if t then ps_boolop o r v else ret v
                    | BOr => if t then ret v else ps_boolop o r v
                    end))
      end.

    (* ast_compare: left = arg.left; for op, right: val = cmpop(left, right) [both evaluated there];
       if not val: return False; left = right; return True.
       [leftv] = the already evaluated left operand when the chain does not re-evaluate it (D3 off). *)
    Fixpoint ps_compare (lft : expr) (leftv : option value) (links : list (pcmp * expr)) : M value :=
      match links with
      | [] => ret (VBool true)
      | (o, rgt) :: r =>
          bind (match leftv with Some v => ret v | None => ev lft end) (fun a =>
          bind (ev rgt) (fun b =>
          bind (cmp_apply o a b) (fun val =>
          bind (truth val) (fun t =>
            if t then ps_compare rgt (if d_compare_reeval cfg then None else Some b) r
            else ret (VBool false)))))
      end.

    (* eval_elt_list: starred elements are spliced with [val += x] *)
    Fixpoint ps_elts (es : list expr) (acc : list value) : M (list value) :=
      match es with
      | [] => ret acc
      | EStarred x :: r => bind (ev x) (fun v => bind (to_list f v) (fun l => ps_elts r (acc ++ l)))
      | e :: r => bind (ev e) (fun v => ps_elts r (acc ++ [v]))
      end.


    Fixpoint split_at_star (elts : list expr) : list expr * list expr :=
      match elts with
      | [] => ([], [])
      | EStarred x :: r => ([], EStarred x :: r)
      | e :: r => let '(b, a) := split_at_star r in (e :: b, a)
      end.

    (* ast_set: ret = set(); for elt in eval_elt_list(elts): ret.add(elt)   (D105 on).
       Conformant: the elements before the first *iterable are hashed together, every later one at once. *)
    Fixpoint ps_set_tail (es : list expr) (s : list value) : M (list value) :=
      match es with
      | [] => ret s
      | EStarred x :: r =>
          (* set.update(iterable): every item is hashed as soon as the iterator hands it out *)
          bind (ev x) (fun v => bind (open_cursor v) (fun c =>
            bind (for_each f c (fun item => if hashable item then ret [item] else raise ExTypeError) []) (fun l =>
            bind (set_add_all l s) (fun s' => ps_set_tail r s'))))
      | e :: r => bind (ev e) (fun v => bind (set_put v s) (fun s' => ps_set_tail r s'))
      end.
    Definition ps_set (es : list expr) : M value :=
      if d_set_late_hash cfg
      then bind (ps_elts es []) (fun l => bind (set_add_all l []) (fun s => ret (VSet s)))
      else let '(lead, rest) := split_at_star es in
           bind (ps_elts lead []) (fun l => bind (set_add_all l []) (fun s => bind (ps_set_tail rest s) (fun s' => ret (VSet s')))).

    (* ast_call keyword loop: kwargs.update( **m ) / kwargs[name] = value *)
    Definition kw_put (k v : value) (d : list (value * value)) : M (list (value * value)) :=
      if d_kw_dup_silent cfg then ret (dict_set k v d)
      else match find (fun p => value_eqb k (fst p)) d with
           | Some _ => raise ExTypeError
           | None => ret (dict_set k v d)
           end.
    Fixpoint kw_merge (src d : list (value * value)) : M (list (value * value)) :=
      match src with
      | [] => ret d
      | (k, v) :: r => bind (kw_put k v d) (fun d' => kw_merge r d')
      end.
    Fixpoint ps_kwargs (kws : list (option (list N) * expr)) (d : list (value * value)) : M (list (value * value)) :=
      match kws with
      | [] => ret d
      | (None, e) :: r => bind (ev e) (fun v => bind (to_dict v) (fun m => bind (kw_merge m d) (fun d' => ps_kwargs r d')))
      | (Some k, e) :: r => bind (ev e) (fun v => bind (kw_put (VStrId k) v d) (fun d' => ps_kwargs r d'))
      end.

    (* ast_dict: for key, val: this_val = eval(val); if key is None: update else val[eval(key)] = this_val.
       [pend] = evaluated pairs not yet inserted (the conformant display hashes a run of pairs only after
       evaluating all of them; today's code inserts each pair at once: D102). *)
    Fixpoint dict_flush (pend d : list (value * value)) : M (list (value * value)) :=
      match pend with
      | [] => ret d
      | (k, v) :: r => bind (dict_put k v d) (fun d' => dict_flush r d')
      end.
    Fixpoint ps_dict (items : list (option expr * expr)) (pend d : list (value * value)) : M (list (value * value)) :=
      match items with
      | [] => dict_flush pend d
      | (None, e) :: r =>
          (* the pending run of pairs is stored before the mapping expression is evaluated *)
          bind (dict_flush pend d) (fun d1 => bind (ev e) (fun v => bind (to_dict v) (fun m => ps_dict r [] (dict_update m d1))))
      | (Some k, e) :: r =>
          bind (if d_dict_value_first cfg
                then bind (ev e) (fun v => bind (ev k) (fun kv => ret (kv, v)))
                else bind (ev k) (fun kv => bind (ev e) (fun v => ret (kv, v))))
            (fun kv => if d_dict_eager_insert cfg
                       then bind (dict_flush (pend ++ [kv]) d) (fun d1 => ps_dict r [] d1)
                       else ps_dict r (pend ++ [kv]) d)
      end.

    (* ast_slice *)
    Definition ps_opt (o : option expr) : M value :=
      match o with Some e => ev e | None => ret VNone end.

    (* conditions of a comprehension clause: for cond in ifs: if not eval(cond): break *)
    Fixpoint ps_conds (ifs : list expr) : M bool :=
      match ifs with
      | [] => ret true
      | c :: r => bind (ev c) (fun v => bind (truth v) (fun t => if t then ps_conds r else ret false))
      end.

    (* listcomp_loop / setcomp_loop / dictcomp_loop: recursion over generators[1:]; [emit] produces the element *)
    Fixpoint ps_comp (gens : list comp) (emit : M (list value)) : M (list value) :=
      match gens with
      | [] => emit
      | (tgt, it, ifs) :: r =>
          bind (ev it) (fun vit => bind (open_cursor vit) (fun c =>
            for_each f c (fun x => bind (asg tgt x) (fun _ => bind (ps_conds ifs) (fun ok =>
                                     if ok then ps_comp r emit else ret []))) []))
      end.

    (* loopvar_scope_save / loopvar_scope_restore *)
    Definition comp_vars (gens : list comp) : list ident :=
      flat_map (fun g => target_names 50 (fst (fst g))) gens.
    Definition scope_restore (vars : list ident) (saved : env) : M unit :=
      bind get_env (fun e =>
        put_env (fold_left (fun e' x => match env_get x saved with Some v => env_set x v e' | None => env_del x e' end) vars e)).
    Definition ps_scoped (gens : list comp) (m : M value) : M value :=
      bind get_env (fun saved =>
        if d_comp_leak_on_exc cfg
        then bind m (fun r => bind (scope_restore (comp_vars gens) saved) (fun _ => ret r))
        else ensure m (scope_restore (comp_vars gens) saved)).

    Definition pairs_to_dict (l : list value) : list (value * value) :=
      fold_left (fun d p => match p with VTuple [k; v] => dict_set k v d | _ => d end) l [].

    (* ast_joinedstr: val = ""; for arg1: val = val + str(eval(arg1)); the pieces are strs (literal text or the
       result of a formatted value) *)
    Fixpoint ps_joined (parts : list expr) (acc : list N) : M value :=
      match parts with
      | [] => ret (VConst (CStr acc))
      | p :: r => bind (ev p) (fun v => match v with
                                        | VConst (CStr s) => ps_joined r (acc ++ s)
                                        | _ => raise ExUnsupported
                                        end)
      end.

    (* recurse_assign, Tuple branch, second loop *)
    Fixpoint ps_assign_elts (elts : list expr) (vals : list value) (star_len : nat) : M unit :=
      match elts with
      | [] => ret tt
      | EStarred (EName x) :: r =>
          bind (asg (EName x) (VList (firstn star_len vals))) (fun _ => ps_assign_elts r (skipn star_len vals) star_len)
      | EStarred _ :: _ => raise ExUnsupported
      | t :: r => match vals with
                  | v :: vs => bind (asg t v) (fun _ => ps_assign_elts r vs star_len)
                  | [] => raise ExUnsupported
                  end
      end.

    (* vals = [*(iter(val))]: iter() is applied by the code, and once more by the list display *)
    Definition ps_iter_all (val : value) : M (list value) :=
      match iter_kind val with
      | ItHost => bind (do_prim PIter [val]) (fun it => to_list f it)
      | _ => to_list f val
      end.
    Definition ps_unpack (elts : list expr) (val : value) : M unit :=
      let got_star := if existsb is_starred elts then 1 else 0 in
      let n := length elts in
      let assign_vals (vals : list value) : M unit :=
        let m := length vals in
        if Nat.ltb (m + got_star) n then raise ExValueError
        else if Nat.ltb n m && Nat.eqb got_star 0 then raise ExValueError
        else ps_assign_elts elts vals (m + 1 - n) in
      if d_unpack_drain cfg
      then bind (catch (ps_iter_all val) (fun _ => true) (raise ExTypeError)) assign_vals
      else unpack_targets asg f elts val.

    (* ---------------- aeval: one node ---------------- *)
    Definition ps_expr_body (e : expr) : M value :=
      match e with
      | EConst c => ret (VConst c)                                         (* ast_constant *)
      | EName x => lookup x                                                (* ast_name + undefined_check *)
      | EBinOp o a b =>                                                     (* ast_binop -> ast_binop_<op> *)
          bind (ev a) (fun va => bind (ev b) (fun vb =>
            let '(applied, swapped) := binop_row o in
            do_prim (PBin applied) (if swapped then [vb; va] else [va; vb])))
      | EUnaryOp UNot a => bind (ev a) (fun v => bind (truth v) (fun t => ret (VBool (negb t))))
      | EUnaryOp UPos a => if d_uadd_identity cfg then ev a else bind (ev a) (fun v => do_prim (PUn UPos) [v])
      | EUnaryOp o a => bind (ev a) (fun v => do_prim (PUn o) [v])
      | EBoolOp o a rest => ps_boolop o (a :: rest) (VBool (match o with BAnd => true | BOr => false end))
      | ECompare a o b rest => ps_compare a None ((o, b) :: rest)
      | EIfExp c a b => bind (ev c) (fun vc => bind (truth vc) (fun t => if t then ev a else ev b))
      | ECall fn args kws =>
          bind (ev fn) (fun vf =>
            if d_call_kw_first cfg
            then bind (ps_kwargs kws []) (fun kw => bind (ps_elts args []) (fun av => do_call vf av kw))
            else match args with
                 | [EStarred x] =>
                     (* conformant order for a lone *iterable: CPython expands it after the keyword values *)
                     bind (ev x) (fun vx => bind (ps_kwargs kws []) (fun kw => bind (to_list f vx) (fun av => do_call vf av kw)))
                 | _ => bind (ps_elts args []) (fun av => bind (ps_kwargs kws []) (fun kw => do_call vf av kw))
                 end)
      | EStarred _ => raise ExUnsupported
      | EList es => bind (ps_elts es []) (fun l => ret (VList l))
      | ETuple es => bind (ps_elts es []) (fun l => ret (VTuple l))
      | ESet es => ps_set es
      | EDict items => bind (ps_dict items [] []) (fun d => ret (VDict d))
      | ESubscript v i => bind (ev v) (fun var => bind (ev i) (fun idx => do_prim PGetItem [var; idx]))
      | ESlice lo hi st => bind (ps_opt lo) (fun a => bind (ps_opt hi) (fun b => bind (ps_opt st) (fun c => ret (VSlice a b c))))
      | EAttribute v a => bind (ev v) (fun o => do_prim (PGetAttr a) [o])
      | ENamedExpr x v => bind (ev v) (fun val => bind (store x val) (fun _ => ret val))
      | EListComp elt gens =>
          ps_scoped gens (bind (ps_comp gens (bind (ev elt) (fun v => ret [v]))) (fun l => ret (VList l)))
      | ESetComp elt gens =>
          ps_scoped gens (bind (ps_comp gens (bind (ev elt) (fun v => if hashable v then ret [v] else raise ExTypeError)))
                            (fun l => ret (VSet (set_of_list l []))))
      | EDictComp k v gens =>
          ps_scoped gens (bind (ps_comp gens (bind (ev k) (fun kv => bind (ev v) (fun vv =>
                                   if hashable kv then ret [VTuple [kv; vv]] else raise ExTypeError))))
                            (fun l => ret (VDict (pairs_to_dict l))))
      | EJoinedStr parts => ps_joined parts []
      | EFormattedValue v c spec =>                                         (* ast_formattedvalue *)
          bind (ev v) (fun val =>
            if d_fstr_conv_early cfg
            then bind (if d_fstring_conv cfg then ret val else do_conv c val) (fun val' =>
                 match spec with
                 | Some sp => bind (ev sp) (fun fmt => do_format val' fmt)
                 | None => do_format val' VEmptyStr
                 end)
            else bind (match spec with Some sp => ev sp | None => ret VEmptyStr end) (fun fmt =>
                 bind (if d_fstring_conv cfg then ret val else do_conv c val) (fun val' => do_format val' fmt)))
      end.

    (* ---------------- recurse_assign ---------------- *)
    Definition ps_assign_body (lhs : expr) (val : value) : M unit :=
      match lhs with
      | ETuple elts => ps_unpack elts val
      | EList elts => if d_list_target cfg then raise ExNotImplemented else ps_unpack elts val
      | ESubscript v i =>
          bind (ev v) (fun var => bind (ev i) (fun idx => bind (do_prim PSetItem [var; idx; val]) (fun _ => ret tt)))
      | EName x => store x val
      | EAttribute v a => bind (ev v) (fun o => bind (do_prim (PSetAttr a) [o; val]) (fun _ => ret tt))
      | _ => raise ExUnsupported
      end.

    (* ---------------- statements ---------------- *)
    Fixpoint ps_assign_all (targets : list expr) (v : value) : M unit :=
      match targets with
      | [] => ret tt
      | t :: r => bind (asg t v) (fun _ => ps_assign_all r v)
      end.

    Definition ps_delete_one (t : expr) : M unit :=
      match t with
      | ESubscript v i => bind (ev v) (fun var => bind (ev i) (fun idx => bind (do_prim PDelItem [var; idx]) (fun _ => ret tt)))
      | EName x => unbind x
      | EAttribute v a =>
          if d_del_attr_state cfg then raise ExNameError
          else bind (ev v) (fun o => bind (do_prim (PDelAttr a) [o]) (fun _ => ret tt))
      | _ => raise ExUnsupported
      end.
    Fixpoint ps_delete (targets : list expr) : M unit :=
      match targets with
      | [] => ret tt
      | t :: r => bind (ps_delete_one t) (fun _ => ps_delete r)
      end.

    Definition ps_stmt_body (s : stmt) : M unit :=
      match s with
      | SExpr e => bind (ev e) (fun _ => ret tt)
      | SAssign targets v => bind (ev v) (fun rhs => ps_assign_all targets rhs)
      | SAugAssign t o v =>
          let op := if d_aug_not_inplace cfg then PBin o else PIBin o in
          match t with
          | EName _ => bind (ev t) (fun a => bind (ev v) (fun b => bind (do_prim op [a; b]) (fun r => asg t r)))
          | ESubscript c i =>
              if d_aug_target_twice cfg
              then bind (ev t) (fun a => bind (ev v) (fun b => bind (do_prim op [a; b]) (fun r => asg t r)))
              else bind (ev c) (fun vc => bind (ev i) (fun vi => bind (do_prim PGetItem [vc; vi]) (fun a =>
                   bind (ev v) (fun b => bind (do_prim op [a; b]) (fun r =>
                   bind (do_prim PSetItem [vc; vi; r]) (fun _ => ret tt))))))
          | EAttribute c at_ =>
              if d_aug_target_twice cfg
              then bind (ev t) (fun a => bind (ev v) (fun b => bind (do_prim op [a; b]) (fun r => asg t r)))
              else bind (ev c) (fun vc => bind (do_prim (PGetAttr at_) [vc]) (fun a =>
                   bind (ev v) (fun b => bind (do_prim op [a; b]) (fun r =>
                   bind (do_prim (PSetAttr at_) [vc; r]) (fun _ => ret tt)))))
          | _ => raise ExUnsupported
          end
      | SDelete targets => ps_delete targets
      | SPass => ret tt
      end.
  End Helpers.

  (* ================= tying the knot on fuel ================= *)
  Fixpoint ps_expr (fuel : nat) (e : expr) : M value :=
    match fuel with
    | O => nofuel
    | S f => ps_expr_body (ps_expr f) (ps_assign f) f e
    end
  with ps_assign (fuel : nat) (lhs : expr) (v : value) : M unit :=
    match fuel with
    | O => nofuel
    | S f => ps_assign_body (ps_expr f) (ps_assign f) f lhs v
    end.

  Definition ps_stmt (fuel : nat) (s : stmt) : M unit :=
    match fuel with
    | O => nofuel
    | S f => ps_stmt_body (ps_expr f) (ps_assign f) s
    end.

  (* ast_module: statements in order *)
  Fixpoint ps_block (fuel : nat) (p : program) : M unit :=
    match p with
    | [] => ret tt
    | s :: r => bind (ps_stmt fuel s) (fun _ => ps_block fuel r)
    end.

  Definition ps_run (fuel : nat) (p : program) (h : hstate) (e : env) : option (run_result hstate) :=
    finish (ps_block fuel p (init_state h e)).
End Ps.
