(* Interp/Scope.v — executable model of the static scope analysis of a function body (C03, core 2).  No proofs here
   (Proofs/InterpScope.v).

   A function body is shipped as a generic tree, one node per Python `ast` node: class tag, string attributes and
   children labelled with the field they sit in (in `ast.iter_child_nodes` order).  The harness converts real
   `ast.parse` output with a total converter (harness/vh/props/c03.py `to_tree`); classes neither function
   distinguishes are [TgOther].  For nested FunctionDef/ClassDef/Lambda the converter lists the decorators, then
   every expression evaluated in the *enclosing* scope (defaults, annotations, base classes, class keywords) in field
   [FOuter]; the body of a nested def/class is not shipped (neither analysis looks into it), the body of a lambda is
   field [FBody].

   [ps_scan]  mirrors eval.py AstEval.get_names_set + get_target_names (l.1960-2055) as EvalFunc.resolve_nonlocals
              calls it (nonlocal_names, global_names, local_names all given), restricted to the three sets it
              fills: local_names (plain identifiers only; dotted state-variable names are ignored), global_names,
              nonlocal_names.  Deviations from Python are behind switches (on = what the code does today).
   [py_bound] / [py_decl] are the reference: CPython's symbol-table rule (Language Reference §4.2.1 "Binding of
              names"), written as tables: which node classes bind their string attribute, which fields hold
              binding targets, which fields open a new scope. *)
From Coq Require Import String.
From PV Require Import Common.Util.

Definition ident := string.

Inductive tag :=
  | TgName | TgTuple | TgList | TgStarred            (* possible binding targets *)
  | TgAssign | TgAugAssign | TgAnnAssign | TgFor     (* For/AsyncFor *)
  | TgNamedExpr | TgWith                              (* With/AsyncWith *)
  | TgWithItem | TgTry | TgHandler                    (* ExceptHandler *)
  | TgDelete | TgImport                               (* Import/ImportFrom *)
  | TgAlias                                           (* strs = the name it binds *)
  | TgDef                                             (* FunctionDef/AsyncFunctionDef/ClassDef; strs = [name] *)
  | TgLambda
  | TgComp                                            (* ListComp/SetComp/DictComp *)
  | TgGenExp | TgComprehension
  | TgCall
  | TgGlobal | TgNonlocal                             (* strs = the declared names *)
  | TgUnsupported                                     (* match statement, except*, type aliases/parameters: binder forms
                                                         the interpreter does not implement at all *)
  | TgOther.

Inductive fld :=
  | FTargets      (* Assign.targets, Delete.targets *)
  | FTarget       (* AugAssign/AnnAssign/For/NamedExpr/comprehension .target *)
  | FOptVars      (* withitem.optional_vars *)
  | FElts         (* Tuple/List .elts *)
  | FStarVal      (* Starred.value *)
  | FDeco         (* decorator_list *)
  | FOuter        (* defaults, annotations, bases, keywords of a nested def/class/lambda *)
  | FBody         (* body of a lambda (bodies of nested def/class are not shipped) *)
  | FChild.       (* any other child *)

Inductive node := Node (t : tag) (strs : list ident) (kids : list (fld * node)).

Definition tag_eqb (a b : tag) : bool :=
  match a, b with
  | TgName, TgName | TgTuple, TgTuple | TgList, TgList | TgStarred, TgStarred | TgAssign, TgAssign
  | TgAugAssign, TgAugAssign | TgAnnAssign, TgAnnAssign | TgFor, TgFor | TgNamedExpr, TgNamedExpr
  | TgWith, TgWith | TgWithItem, TgWithItem | TgTry, TgTry | TgHandler, TgHandler | TgDelete, TgDelete
  | TgImport, TgImport | TgAlias, TgAlias | TgDef, TgDef | TgLambda, TgLambda | TgComp, TgComp
  | TgGenExp, TgGenExp | TgComprehension, TgComprehension | TgCall, TgCall | TgGlobal, TgGlobal
  | TgNonlocal, TgNonlocal | TgUnsupported, TgUnsupported | TgOther, TgOther => true
  | _, _ => false
  end.
Definition fld_eqb (a b : fld) : bool :=
  match a, b with
  | FTargets, FTargets | FTarget, FTarget | FOptVars, FOptVars | FElts, FElts | FStarVal, FStarVal
  | FDeco, FDeco | FOuter, FOuter | FBody, FBody | FChild, FChild => true
  | _, _ => false
  end.

Definition node_tag (n : node) : tag := match n with Node t _ _ => t end.
Definition node_strs (n : node) : list ident := match n with Node _ s _ => s end.
Definition node_kids (n : node) : list (fld * node) := match n with Node _ _ k => k end.
Definition kids_in (f : fld) (kids : list (fld * node)) : list node :=
  map snd (filter (fun k => fld_eqb (fst k) f) kids).

Record sdeviations := {
  d_annassign : bool;     (* D12: `x: T = v` / `x: T` is not seen as a binding *)
  d_comp_target : bool;   (* D31: the loop variables of a list/set/dict comprehension are taken for locals of the function *)
  d_import : bool;        (* D32: `import m` / `from m import n` is not seen as a binding *)
  d_lambda_body : bool;   (* D33: bindings inside a lambda body (:=, comprehension variables) are taken for locals of the function *)
  d_def_outer : bool      (* D34: bindings (:=) inside the defaults/annotations/base classes of a nested def/class are not seen *)
}.
Definition sdev_off : sdeviations :=
  {| d_annassign := false; d_comp_target := false; d_import := false; d_lambda_body := false; d_def_outer := false |}.
Definition s_all_off (c : sdeviations) : Prop :=
  d_annassign c = false /\ d_comp_target c = false /\ d_import c = false /\ d_lambda_body c = false /\ d_def_outer c = false.

(* the three sets filled by one scan *)
Record sets := { st_local : list ident; st_global : list ident; st_nonlocal : list ident }.
Definition sets_empty : sets := {| st_local := []; st_global := []; st_nonlocal := [] |}.
Definition sets_app (a b : sets) : sets :=
  {| st_local := st_local a ++ st_local b; st_global := st_global a ++ st_global b;
     st_nonlocal := st_nonlocal a ++ st_nonlocal b |}.
Definition sets_locals (l : list ident) : sets := {| st_local := l; st_global := []; st_nonlocal := [] |}.
Definition sets_concat (l : list sets) : sets := fold_right sets_app sets_empty l.

(* =====================================================================================================
   pyscript
   ===================================================================================================== *)

(* get_target_names(lhs): Tuple -> each element (a Starred element contributes `value.id`); Name -> id;
   Attribute -> a dotted name (never an identifier: ignored here); anything else (List, Subscript) -> nothing *)
Fixpoint ps_target_names (n : node) : list ident :=
  match n with
  | Node TgName strs _ => strs
  | Node TgTuple _ kids =>
      flat_map (fun k =>
        match snd k with
        | Node TgStarred _ skids =>
            flat_map (fun sk => match snd sk with Node TgName strs _ => strs | _ => [] end) skids
        | _ => ps_target_names (snd k)
        end) kids
  | _ => []
  end.

Fixpoint ps_scan (cfg : sdeviations) (n : node) : sets :=
  match n with
  | Node t strs kids =>
      let rec_in (p : fld -> bool) :=
        sets_concat (map (fun k => if p (fst k) then ps_scan cfg (snd k) else sets_empty) kids) in
      let rec_all := rec_in (fun _ => true) in                  (* for child in ast.iter_child_nodes(arg) *)
      let targets f := flat_map ps_target_names (kids_in f kids) in
      match t with
      | TgName => sets_empty                                     (* names.add(arg.id); return *)
      | TgNonlocal => {| st_local := []; st_global := []; st_nonlocal := strs |}
      | TgGlobal => {| st_local := []; st_global := strs; st_nonlocal := [] |}
      | TgAssign => sets_app (sets_locals (targets FTargets)) rec_all
      | TgAugAssign | TgFor | TgNamedExpr => sets_app (sets_locals (targets FTarget)) rec_all
      | TgWith =>                                                (* for item in arg.items: item.optional_vars *)
          sets_app (sets_locals (flat_map (fun k =>
                      match snd k with
                      | Node TgWithItem _ ikids => flat_map ps_target_names (kids_in FOptVars ikids)
                      | _ => []
                      end) kids)) rec_all
      | TgComp =>                                                (* loopvar_scope_save(arg.generators) *)
          sets_app (sets_locals (if d_comp_target cfg then
                      flat_map (fun k =>
                        match snd k with
                        | Node TgComprehension _ gkids => flat_map ps_target_names (kids_in FTarget gkids)
                        | _ => []
                        end) kids else [])) rec_all
      | TgTry =>                                                 (* for handler in arg.handlers: handler.name *)
          sets_app (sets_locals (flat_map (fun k =>
                      match snd k with Node TgHandler hs _ => hs | _ => [] end) kids)) rec_all
      | TgCall => rec_all
      | TgDef =>                                                 (* name; decorators; body not entered *)
          sets_app (sets_locals strs)
                   (rec_in (fun f => fld_eqb f FDeco || (negb (d_def_outer cfg) && fld_eqb f FOuter)))
      | TgDelete =>                                              (* only targets that are plain names *)
          sets_app (sets_locals (flat_map (fun k =>
                      if fld_eqb (fst k) FTargets then
                        match snd k with Node TgName ns _ => ns | _ => [] end
                      else []) kids)) rec_all
      | TgAnnAssign =>                                           (* not in the elif chain today *)
          sets_app (sets_locals (if d_annassign cfg then [] else targets FTarget)) rec_all
      | TgImport =>                                              (* not in the elif chain today *)
          sets_app (sets_locals (if d_import cfg then [] else
                      flat_map (fun k => match snd k with Node TgAlias ns _ => ns | _ => [] end) kids)) rec_all
      | TgLambda =>                                              (* today: a plain node, all children visited *)
          if d_lambda_body cfg then rec_all else rec_in (fun f => negb (fld_eqb f FBody))
      | _ => rec_all
      end
  end.

Definition ps_scan_body (cfg : sdeviations) (body : list node) : sets := sets_concat (map (ps_scan cfg) body).

Definition smem (k : ident) (l : list ident) : bool := existsb (String.eqb k) l.

(* resolve_nonlocals: a variable is local iff it is a parameter or in local_names, and is declared neither global
   nor nonlocal *)
Definition ps_is_local (cfg : sdeviations) (params : list ident) (body : list node) (x : ident) : bool :=
  let s := ps_scan_body cfg body in
  (smem x params || smem x (st_local s)) && negb (smem x (st_global s)) && negb (smem x (st_nonlocal s)).

(* =====================================================================================================
   reference: the symbol-table rule
   ===================================================================================================== *)
(* node classes whose string attribute is a name they bind in the current block *)
Definition py_binds_strs (t : tag) : bool :=
  match t with TgDef | TgHandler | TgAlias => true | _ => false end.
(* fields holding assignment/deletion targets: every Name reachable through Tuple/List/Starred is bound *)
Definition py_target_field (t : tag) (f : fld) : bool :=
  match t, f with
  | TgAssign, FTargets | TgDelete, FTargets
  | TgAugAssign, FTarget | TgAnnAssign, FTarget | TgFor, FTarget | TgNamedExpr, FTarget
  | TgWithItem, FOptVars => true
  | _, _ => false
  end.
(* fields that belong to a new block (comprehension variables live in the comprehension's own block, but the
   comprehension's sub-expressions may contain `:=`, which binds in the enclosing function) *)
Definition py_new_block (t : tag) (f : fld) : bool :=
  match t, f with TgLambda, FBody | TgDef, FBody => true | _, _ => false end.

Fixpoint py_target_names (n : node) : list ident :=
  match n with
  | Node TgName strs _ => strs
  | Node TgTuple _ kids | Node TgList _ kids | Node TgStarred _ kids =>
      flat_map (fun k => py_target_names (snd k)) kids
  | _ => []
  end.

Fixpoint py_bound (n : node) : list ident :=
  match n with
  | Node t strs kids =>
      (if py_binds_strs t then strs else [])
      ++ flat_map (fun k =>
           (if py_target_field t (fst k) then py_target_names (snd k) else [])
           ++ (if py_new_block t (fst k) then [] else py_bound (snd k))) kids
  end.

Fixpoint py_decl (which : tag) (n : node) : list ident :=
  match n with
  | Node t strs kids =>
      (if tag_eqb t which then strs else [])
      ++ flat_map (fun k => if py_new_block t (fst k) then [] else py_decl which (snd k)) kids
  end.

Definition py_is_local (params : list ident) (body : list node) (x : ident) : bool :=
  (smem x params || smem x (flat_map py_bound body))
  && negb (smem x (flat_map (py_decl TgGlobal) body))
  && negb (smem x (flat_map (py_decl TgNonlocal) body)).

(* ---------- the trees both analyses are defined on ---------- *)
(* shape facts of `ast.parse` output the proof relies on (checked on every shipped tree):
   ExceptHandler only directly under Try, alias only under Import, withitem only under With; Name/Global/Nonlocal have
   no children (expression contexts are not shipped); the children of a nested def/class are its decorators, the
   expressions evaluated outside it, and (never shipped) its body *)
Definition parent_ok (t : tag) (kid : tag) : bool :=
  match kid with
  | TgHandler => tag_eqb t TgTry
  | TgAlias => tag_eqb t TgImport
  | TgWithItem => tag_eqb t TgWith
  | _ => true
  end.

Fixpoint wf_node (n : node) : bool :=
  match n with
  | Node t strs kids =>
      forallb (fun k => parent_ok t (node_tag (snd k)) && wf_node (snd k)) kids
      && match t with
         | TgGlobal | TgNonlocal | TgName => match kids with [] => true | _ => false end
         | TgDef => forallb (fun k => fld_eqb (fst k) FDeco || fld_eqb (fst k) FOuter || fld_eqb (fst k) FBody) kids
         | _ => true
         end
  end.
Definition wf_top (n : node) : bool := parent_ok TgOther (node_tag n) && wf_node n.

(* binder forms both sides implement: no match/except*/type statements; targets are names, tuples of targets,
   starred names, attributes or subscripts (a list display as target is D6 of C01; `del (a, b)` is not implemented) *)
Fixpoint target_ok (n : node) : bool :=
  match n with
  | Node TgName _ _ => true
  | Node TgTuple _ kids =>
      forallb (fun k => match snd k with
                        | Node TgStarred _ skids =>
                            forallb (fun sk => match snd sk with Node TgName _ _ => true | _ => false end) skids
                        | _ => target_ok (snd k)
                        end) kids
  | Node TgList _ _ | Node TgStarred _ _ => false
  | _ => true
  end.

Fixpoint supported (n : node) : bool :=
  match n with
  | Node t strs kids =>
      negb (tag_eqb t TgUnsupported)
      && forallb (fun k =>
           (if py_target_field t (fst k) then
              target_ok (snd k)
              && (if tag_eqb t TgDelete then negb (tag_eqb (node_tag (snd k)) TgTuple) else true)
            else true)
           && supported (snd k)) kids
  end.
