(* Interp/Bind.v — executable model of argument binding (C03, core 1).  No proofs here (Proofs/InterpBind.v).

   [call_ps]  mirrors eval.py  AstEval.ast_call (keyword/positional assembly, l.1860-1881) followed by
              EvalFunc.call (l.707-763), statement by statement, including today's deviations behind switches.
   [call_py]  is the reference: Python Language Reference §6.3.4 "Calls" (slots filled by positional arguments,
              then by keyword, then by defaults; excess to *identifier / **identifier) plus PEP 570 (a
              positional-only parameter is never matched by keyword).  Written independently of [call_ps].
   [call_spec] is what the property demands: the reference, except that keyword arguments that name no parameter
              of a function without **kwargs and are spelled like one of pyscript's reserved trigger keywords are
              dropped before binding.

   Parameter names are real strings (the property is about how some of them are spelled); argument values are
   opaque ids.  Default values are symbolic ([BDef i] = i-th entry of EvalFunc.defaults, [BKwDef i] = i-th entry
   of kw_defaults): defaults are evaluated once at definition time, so a call only selects one.
   Every TypeError is the single outcome [TypeErr] (the property compares exception types). *)
From Coq Require Import String.
From PV Require Import Common.Util.

Definition name := string.
Definition val := N.
Definition kwargs := list (name * val).

Record deviations := {
  d_posonly_kw : bool;   (* D11: a keyword spelled like a positional-only parameter is matched against it even
                            when the function has **kwargs *)
  d_dup_kw : bool        (* D30: a keyword repeated through ** unpacking silently overwrites (dict.update) *)
}.
Definition dev_off : deviations := {| d_posonly_kw := false; d_dup_kw := false |}.
Definition all_off (c : deviations) : Prop := d_posonly_kw c = false /\ d_dup_kw c = false.

(* def f(<posonly>, /, <args>, *<vararg>, <kwonly>, **<kwarg>); the last [s_ndef] of posonly++args have defaults;
   each keyword-only parameter carries its has-default flag *)
Record sig := {
  s_posonly : list name;
  s_args : list name;
  s_ndef : nat;
  s_vararg : option name;
  s_kwonly : list (name * bool);
  s_kwarg : option name
}.

Inductive bval := BV (v : val) | BDef (i : nat) | BKwDef (i : nat).

Record binding := {
  b_params : list (name * bval);              (* posonly, args, kwonly in declaration order *)
  b_var : option (name * list val);           (* *identifier *)
  b_kw : option (name * kwargs)               (* **identifier, in dictionary order *)
}.
Inductive outcome := Bound (b : binding) | TypeErr.

(* the argument list of one call expression, left to right *)
Inductive citem :=
  | CPos (v : val)                (*  f(v)      *)
  | CStar (vs : list val)         (*  f( *vs)    *)
  | CKw (k : name) (v : val)      (*  f(k=v)    *)
  | CStarStar (kvs : kwargs).     (*  f( **kvs)  *)

(* ---------- dictionaries as association lists in insertion order ---------- *)
Definition kw_mem (k : name) (kw : kwargs) : bool := existsb (fun p => String.eqb k (fst p)) kw.
Fixpoint kw_get (k : name) (kw : kwargs) : option val :=
  match kw with
  | [] => None
  | (k', v) :: r => if String.eqb k k' then Some v else kw_get k r
  end.
Fixpoint kw_del (k : name) (kw : kwargs) : kwargs :=
  match kw with
  | [] => []
  | (k', v) :: r => if String.eqb k k' then r else (k', v) :: kw_del k r
  end.
(* d[k] = v : an existing key keeps its position *)
Fixpoint kw_set (k : name) (v : val) (kw : kwargs) : kwargs :=
  match kw with
  | [] => [(k, v)]
  | (k', v') :: r => if String.eqb k k' then (k', v) :: r else (k', v') :: kw_set k v r
  end.
Definition str_mem (k : name) (l : list name) : bool := existsb (String.eqb k) l.
Definition is_some {A} (o : option A) : bool := match o with Some _ => true | None => false end.

(* =====================================================================================================
   pyscript
   ===================================================================================================== *)

(* ast_call: kwargs = {}; for each keyword: kwargs.update(<**value>) or kwargs[arg] = value;
   args = eval_elt_list(arg.args).  With D30 repaired a repeated key raises TypeError. *)
Definition ps_kw_put (cfg : deviations) (k : name) (v : val) (kw : kwargs) : option kwargs :=
  if negb (d_dup_kw cfg) && kw_mem k kw then None else Some (kw_set k v kw).

Fixpoint ps_kw_update (cfg : deviations) (kvs : kwargs) (kw : kwargs) : option kwargs :=
  match kvs with
  | [] => Some kw
  | (k, v) :: r => match ps_kw_put cfg k v kw with Some kw' => ps_kw_update cfg r kw' | None => None end
  end.

Fixpoint assemble_ps (cfg : deviations) (items : list citem) (args : list val) (kw : kwargs)
  : option (list val * kwargs) :=
  match items with
  | [] => Some (args, kw)
  | CPos v :: r => assemble_ps cfg r (args ++ [v]) kw
  | CStar vs :: r => assemble_ps cfg r (args ++ vs) kw
  | CKw k v :: r => match ps_kw_put cfg k v kw with Some kw' => assemble_ps cfg r args kw' | None => None end
  | CStarStar kvs :: r => match ps_kw_update cfg kvs kw with Some kw' => assemble_ps cfg r args kw' | None => None end
  end.

Definition cons_res {A B C} (x : A) (r : option (list A * B * C)) : option (list A * B * C) :=
  match r with Some (l, b, c) => Some (x :: l, b, c) | None => None end.
Definition cons_res2 {A B} (x : A) (r : option (list A * B)) : option (list A * B) :=
  match r with Some (l, b) => Some (x :: l, b) | None => None end.

(* EvalFunc.call l.714-732: for i, func_def_arg in enumerate(posonlyargs + args).  [bad] = bad_kwargs non-empty.
   [nposn] = self.num_posn_arg = number of positional parameters without default. *)
Fixpoint ps_pos (cfg : deviations) (nposonly nposn ndef : nat) (haskw : bool) (args : list val)
    (params : list name) (i : nat) (kw : kwargs) (bad : bool) : option (list (name * bval) * kwargs * bool) :=
  match params with
  | [] => Some ([], kw, bad)
  | p :: ps =>
      (* `var_name in kwargs`; the repaired code would not look up a positional-only name when **kwargs exists *)
      let inkw := kw_mem p kw && negb (negb (d_posonly_kw cfg) && (i <? nposonly) && haskw) in
      match nth_error args i with
      | Some v =>                                                     (* if i < len(args) *)
          if inkw then None                                           (*   multiple values -> TypeError *)
          else cons_res (p, BV v) (ps_pos cfg nposonly nposn ndef haskw args ps (S i) kw bad)
      | None =>
          if inkw then                                                (* elif var_name in kwargs *)
            match kw_get p kw with
            | Some v => cons_res (p, BV v)
                          (ps_pos cfg nposonly nposn ndef haskw args ps (S i) (kw_del p kw) (bad || (i <? nposonly)))
            | None => None
            end
          else if (nposn <=? i) && (i <? ndef + nposn) then           (* elif num_posn_arg <= i < len(defaults)+.. *)
            cons_res (p, BDef (i - nposn)) (ps_pos cfg nposonly nposn ndef haskw args ps (S i) kw bad)
          else None                                                   (* missing required positional *)
      end
  end.

(* l.738-747: for i, kwonlyarg in enumerate(kwonlyargs) *)
Fixpoint ps_kwonly (params : list (name * bool)) (i : nat) (kw : kwargs) : option (list (name * bval) * kwargs) :=
  match params with
  | [] => Some ([], kw)
  | (p, hasdef) :: ps =>
      match kw_get p kw with
      | Some v => cons_res2 (p, BV v) (ps_kwonly ps (S i) (kw_del p kw))
      | None => if hasdef then cons_res2 (p, BKwDef i) (ps_kwonly ps (S i) kw) else None
      end
  end.

Definition bind_ps (cfg : deviations) (trig : list name) (s : sig) (args : list val) (kw : kwargs) : outcome :=
  let pos := s_posonly s ++ s_args s in
  let npos := length pos in
  let nposonly := length (s_posonly s) in
  let nposn := npos - s_ndef s in
  match ps_pos cfg nposonly nposn (s_ndef s) (is_some (s_kwarg s)) args pos 0 kw false with
  | None => TypeErr
  | Some (bp, kw1, bad) =>
    if bad then TypeErr else                                          (* l.733 *)
    match ps_kwonly (s_kwonly s) 0 kw1 with
    | None => TypeErr
    | Some (bk, kw2) =>
      let okw :=                                                      (* l.748-755 *)
        match s_kwarg s with
        | Some k => Some (Some (k, kw2))
        | None => if forallb (fun p => str_mem (fst p) trig) kw2 then Some None else None
        end in
      match okw with
      | None => TypeErr
      | Some bkw =>
        match s_vararg s with                                         (* l.756-763 *)
        | Some va => Bound {| b_params := bp ++ bk; b_var := Some (va, skipn npos args); b_kw := bkw |}
        | None => if npos <? length args then TypeErr
                  else Bound {| b_params := bp ++ bk; b_var := None; b_kw := bkw |}
        end
      end
    end
  end.

Definition call_ps (cfg : deviations) (trig : list name) (s : sig) (items : list citem) : outcome :=
  match assemble_ps cfg items [] [] with
  | Some (args, kw) => bind_ps cfg trig s args kw
  | None => TypeErr
  end.

(* =====================================================================================================
   reference (Language Reference §6.3.4, PEP 570)
   ===================================================================================================== *)
Definition item_pos (it : citem) : list val := match it with CPos v => [v] | CStar vs => vs | _ => [] end.
Definition item_kw (it : citem) : kwargs := match it with CKw k v => [(k, v)] | CStarStar kvs => kvs | _ => [] end.

Fixpoint has_dup (l : list name) : bool :=
  match l with [] => false | x :: r => str_mem x r || has_dup r end.

(* "If the same keyword is given twice -> TypeError" *)
Definition assemble_py (items : list citem) : option (list val * kwargs) :=
  let kw := flat_map item_kw items in
  if has_dup (map fst kw) then None else Some (flat_map item_pos items, kw).

(* one slot per formal parameter *)
Record slot := { sl_name : name; sl_bykw : bool; sl_default : option bval }.

Definition pos_default (npos ndef i : nat) : option bval :=
  if npos - ndef <=? i then Some (BDef (i - (npos - ndef))) else None.

Fixpoint pos_slots (names : list name) (nposonly npos ndef i : nat) : list slot :=
  match names with
  | [] => []
  | p :: r => {| sl_name := p; sl_bykw := negb (i <? nposonly); sl_default := pos_default npos ndef i |}
              :: pos_slots r nposonly npos ndef (S i)
  end.
Fixpoint kwonly_slots (l : list (name * bool)) (i : nat) : list slot :=
  match l with
  | [] => []
  | (p, d) :: r => {| sl_name := p; sl_bykw := true; sl_default := if d then Some (BKwDef i) else None |}
                   :: kwonly_slots r (S i)
  end.

Definition assoc := list (name * bval).
Fixpoint assoc_get (k : name) (a : assoc) : option bval :=
  match a with [] => None | (k', v) :: r => if String.eqb k k' then Some v else assoc_get k r end.

(* "for each keyword argument, the identifier is used to determine the corresponding slot; if the slot is already
   filled, TypeError; if no slot corresponds: TypeError unless **identifier is present, which receives it" *)
Fixpoint py_keywords (slots : list slot) (haskw : bool) (kw : kwargs) (filled : assoc) (extra : kwargs)
  : option (assoc * kwargs) :=
  match kw with
  | [] => Some (filled, extra)
  | (k, v) :: r =>
      if existsb (fun s => String.eqb k (sl_name s) && sl_bykw s) slots then
        match assoc_get k filled with
        | Some _ => None
        | None => py_keywords slots haskw r (filled ++ [(k, BV v)]) extra
        end
      else if haskw then py_keywords slots haskw r filled (extra ++ [(k, v)])
      else None
  end.

(* "slots still unfilled are filled with the default; an unfilled slot without default: TypeError" *)
Fixpoint py_finish (slots : list slot) (filled : assoc) : option (list (name * bval)) :=
  match slots with
  | [] => Some []
  | s :: r =>
      match (match assoc_get (sl_name s) filled with Some v => Some v | None => sl_default s end) with
      | None => None
      | Some v => match py_finish r filled with Some l => Some ((sl_name s, v) :: l) | None => None end
      end
  end.

Definition bind_py (s : sig) (args : list val) (kw : kwargs) : outcome :=
  let pos := s_posonly s ++ s_args s in
  let npos := length pos in
  let slots := pos_slots pos (length (s_posonly s)) npos (s_ndef s) 0 ++ kwonly_slots (s_kwonly s) 0 in
  let filled0 := combine pos (map BV args) in         (* "N positional arguments are placed in the first N slots" *)
  let excess := skipn npos args in
  match s_vararg s, excess with
  | None, _ :: _ => TypeErr                            (* more positional arguments than slots, no *identifier *)
  | _, _ =>
    match py_keywords slots (is_some (s_kwarg s)) kw filled0 [] with
    | None => TypeErr
    | Some (filled, extra) =>
      match py_finish slots filled with
      | None => TypeErr
      | Some bp =>
        Bound {| b_params := bp;
                 b_var := match s_vararg s with Some va => Some (va, excess) | None => None end;
                 b_kw := match s_kwarg s with Some k => Some (k, extra) | None => None end |}
      end
    end
  end.

Definition call_py (s : sig) (items : list citem) : outcome :=
  match assemble_py items with
  | Some (args, kw) => bind_py s args kw
  | None => TypeErr
  end.

(* ---------- the property's one intended deviation ---------- *)
Definition param_names (s : sig) : list name := s_posonly s ++ s_args s ++ map fst (s_kwonly s).

(* "unexpected keyword arguments named like pyscript's reserved trigger keywords are silently dropped":
   unexpected = names no parameter of a function that has no **kwargs *)
Definition drop_trigger_kwargs (trig : list name) (s : sig) (kw : kwargs) : kwargs :=
  match s_kwarg s with
  | Some _ => kw
  | None => filter (fun p => negb (str_mem (fst p) trig && negb (str_mem (fst p) (param_names s)))) kw
  end.

Definition call_spec (trig : list name) (s : sig) (items : list citem) : outcome :=
  match assemble_py items with
  | Some (args, kw) => bind_py s args (drop_trigger_kwargs trig s kw)
  | None => TypeErr
  end.

(* =====================================================================================================
   definition time: from the `def` statement to the signature EvalFunc.call works with
   ===================================================================================================== *)
(* a default slot of the `arguments` node: no expression, or an expression; [truthy] is the truthiness of the VALUE
   the expression evaluates to (None, False, 0, "", [] ... are falsy) *)
Inductive defnode := NoDefault | DefaultExpr (truthy : bool).

Record fdef := {
  f_posonly : list name;
  f_args : list name;
  f_defaults : list bool;                   (* args.defaults: one expression per default, with the value's truthiness *)
  f_vararg : option name;
  f_kwonly : list (name * defnode);         (* args.kwonlyargs zipped with args.kw_defaults *)
  f_kwarg : option name
}.

(* EvalFunc.eval_defaults l.353-361:  defaults = [eval(e) for e in args.defaults];
   kw_defaults.append({"ok": bool(val), "val": ...}) for val in args.kw_defaults, where `val` is the AST node of the
   default expression or None: a node object is truthy whatever its value is (T1 checks this shape on every run) *)
Definition ps_node_truth (d : defnode) : bool := match d with NoDefault => false | DefaultExpr _ => true end.
Definition ps_sig_of_def (f : fdef) : sig :=
  {| s_posonly := f_posonly f; s_args := f_args f; s_ndef := length (f_defaults f); s_vararg := f_vararg f;
     s_kwonly := map (fun p => (fst p, ps_node_truth (snd p))) (f_kwonly f); s_kwarg := f_kwarg f |}.

(* reference (Language Reference 8.7 "Function definitions"): a parameter has a default value iff it is written
   `parameter = expression`; what the expression evaluates to is irrelevant *)
Fixpoint py_kwonly_of_def (l : list (name * defnode)) : list (name * bool) :=
  match l with
  | [] => []
  | (n, NoDefault) :: r => (n, false) :: py_kwonly_of_def r
  | (n, DefaultExpr _) :: r => (n, true) :: py_kwonly_of_def r
  end.
Definition py_sig_of_def (f : fdef) : sig :=
  {| s_posonly := f_posonly f; s_args := f_args f; s_ndef := length (f_defaults f); s_vararg := f_vararg f;
     s_kwonly := py_kwonly_of_def (f_kwonly f); s_kwarg := f_kwarg f |}.

(* ---------- signatures CPython's compiler accepts ---------- *)
Definition sig_names (s : sig) : list name :=
  param_names s ++ match s_vararg s with Some v => [v] | None => [] end
                ++ match s_kwarg s with Some v => [v] | None => [] end.
Definition sig_wf_b (s : sig) : bool :=
  negb (has_dup (sig_names s)) && (s_ndef s <=? length (s_posonly s ++ s_args s)).
