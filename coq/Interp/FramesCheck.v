(* Interp/FramesCheck.v — what the generated correspondence files evaluate for the attribution stream of C18.
   [acase_model_ok cf]: under the measured switches the Model reproduces the entries pyscript logged, and the reference
                        evaluator reproduces CPython's own traceback.extract_tb (tie T2, both sides);
   [acase_spec_ok]    : what pyscript logged names the same (file, function, line) entries as CPython, exception by
                        exception along the cause/context chain, with the same exception type and message, exactly once;
   [acase_attrib cf]  : which open findings explain a Spec failure. *)
From PV Require Import Common.Util Interp.Frames.

Record acase := mkACase {
  ac_prog : prog;
  ac_entry : entry;
  ac_stopiter : bool;          (* the injected fault is a StopIteration *)
  ac_ps : option exc_py;       (* script entries of the single error record on the script's logger, the logged exception first;
                                  None: there is no such single record *)
  ac_py : option exc_py;       (* CPython: traceback.extract_tb per exception of the chain; None: nothing was raised *)
  ac_msg_ok : bool             (* type name and message of every exception of the chain agree with CPython *)
}.

(* measured configuration: the switches of Frames.v plus one that is not about frames *)
Record acfg := mkACfg {
  a_dv : deviations;
  a_stopiter : bool            (* D189: StopIteration leaving a pyscript function is turned into RuntimeError by the coroutine
                                  machinery (PEP 479): other type, other message, one more exception in the chain *)
}.
Definition acfg_off : acfg := mkACfg all_off false.

Definition fuel_big : nat := 400.

Definition triples_eqb : list triple -> list triple -> bool := list_eqb triple_eqb.
Definition exc_eqb : exc_py -> exc_py -> bool := list_eqb triples_eqb.

Definition res_obs (r : res exc_py) : option (option exc_py) :=
  match r with
  | RRaise x => Some (Some x)
  | RNormal => Some None
  | RReturn => Some None
  | RFuel => None
  end.
Definition obs_eqb (m : option (option exc_py)) (o : option exc_py) : bool :=
  match m with Some m' => option_eqb exc_eqb m' o | None => false end.

Definition stopiter_on (cf : acfg) (c : acase) : bool := a_stopiter cf && ac_stopiter c.

(* the report the Model predicts *)
Definition predicted (cf : acfg) (c : acase) : res exc_py :=
  let r := reported (a_dv cf) (ac_prog c) fuel_big (ac_entry c) in
  if stopiter_on cf c then res_map (fun x => x ++ [[]]) r else r.
(* type and message agree iff both sides raise (and the StopIteration conversion does not apply) or neither does *)
Definition predicted_msg_ok (cf : acfg) (c : acase) : bool :=
  match res_obs (predicted cf c), ac_py c with
  | Some (Some _), Some _ => negb (stopiter_on cf c)
  | Some None, None => true
  | _, _ => false
  end.
Definition reference (c : acase) : res exc_py := reference_triples (ac_prog c) fuel_big (ac_entry c).

Definition acase_model_ok (cf : acfg) (c : acase) : bool :=
  obs_eqb (res_obs (predicted cf c)) (ac_ps c)
  && obs_eqb (res_obs (reference c)) (ac_py c)
  && Bool.eqb (predicted_msg_ok cf c) (ac_msg_ok c).

Definition acase_spec_ok (c : acase) : bool := ac_msg_ok c && option_eqb exc_eqb (ac_ps c) (ac_py c).

(* ---------- attribution of a Spec failure to findings ---------- *)
Definition switches (cf : acfg) : list (nat * bool) :=
  [(182%nat, d_merge_same_name (a_dv cf)); (183%nat, d_deco_rename (a_dv cf)); (184%nat, d_chain_ctx (a_dv cf));
   (185%nat, d_node_start_line (a_dv cf)); (186%nat, d_with_swallow (a_dv cf)); (187%nat, d_import_sticky (a_dv cf));
   (190%nat, d_lambda_name (a_dv cf)); (189%nat, a_stopiter cf)].

Definition with_off (k : nat) (cf : acfg) : acfg :=
  let d := a_dv cf in
  let nb := Nat.eqb k in
  mkACfg (mkDev (d_merge_same_name d && negb (nb 182%nat)) (d_deco_rename d && negb (nb 183%nat))
                (d_chain_ctx d && negb (nb 184%nat)) (d_node_start_line d && negb (nb 185%nat))
                (d_with_swallow d && negb (nb 186%nat)) (d_import_sticky d && negb (nb 187%nat))
                (d_lambda_name d && negb (nb 190%nat)))
         (a_stopiter cf && negb (nb 189%nat)).

Definition pred_eqb (a b : res exc_py) : bool := option_eqb (option_eqb exc_eqb) (res_obs a) (res_obs b).

(* Dk is blamed iff the Model under the measured switches reproduces the observation, the Model with every switch off
   satisfies the Spec on this case, and switch k is on and makes a difference here (if no single one does, all
   switches that are on are blamed together) *)
Definition acase_attrib (cf : acfg) (c : acase) : list nat :=
  if acase_model_ok cf c && obs_eqb (res_obs (predicted acfg_off c)) (ac_py c) then
    let basep := predicted cf c in
    let on := filter (fun p => snd p) (switches cf) in
    let act := filter (fun p => negb (pred_eqb (predicted (with_off (fst p) cf) c) basep
                                      && Bool.eqb (predicted_msg_ok (with_off (fst p) cf) c) (predicted_msg_ok cf c))) on in
    match act with
    | [] => map fst on
    | _ => map fst act
    end
  else [].

Definition acase_explain (cf : acfg) (c : acase) :=
  (res_obs (predicted cf c), res_obs (reference c), ac_ps c, ac_py c, (predicted_msg_ok cf c, ac_msg_ok c)).
