(* Interp/ClosureCheck.v — what the generated correspondence files evaluate for C03 stream "closure".
   One case = one mini-language program (rendered to Python source by the harness) with what the real AstEval and
   CPython made of that source: the tracer log and the final global table, or the exception class.
   [ccase_model_ok]: the loose pyscript model reproduces the real AstEval (also where it deviates from Python), the
                     reference reproduces CPython, and the strict model either stops with an anomaly or agrees with the
                     loose one.
   [ccase_spec_ok] : the real AstEval behaved like CPython. *)
From Coq Require Import String ZArith.
From PV Require Import Common.Util Interp.Scope Interp.Closure.

Record ccase := {
  cc_prog : list stmt;
  cc_fuel : nat;
  cc_ps : observed;      (* real AstEval *)
  cc_py : observed       (* CPython *)
}.

Definition oval_eqb (a b : oval) : bool :=
  match a, b with OInt x, OInt y => Z.eqb x y | ONone, ONone | OFun, OFun => true | _, _ => false end.
Definition err_eqb (a b : err) : bool :=
  match a, b with ENameErr, ENameErr | ETypeErr, ETypeErr | ESyntaxErr, ESyntaxErr => true | _, _ => false end.
Definition obs_eqb (a b : observed) : bool :=
  match a, b with
  | ObsOk t g, ObsOk t' g' =>
      list_eqb (option_eqb Z.eqb) t t'
      && list_eqb (fun p q => String.eqb (fst p) (fst q) && oval_eqb (snd p) (snd q)) g g'
  | ObsErr e, ObsErr e' => err_eqb e e'
  | ObsFuel, ObsFuel => true
  | _, _ => false                       (* an anomaly is never an observation *)
  end.
Definition is_anomaly (o : observed) : bool := match o with ObsAnomaly _ => true | _ => false end.

(* the fragment has none of Scope.v's deviating binder forms, so the switches are immaterial here *)
Definition ccase_model_ok (c : ccase) : bool :=
  let loose := observe (ps_run sdev_off false false (cc_fuel c) (cc_prog c)) in
  let strict := observe (ps_run sdev_off true false (cc_fuel c) (cc_prog c)) in
  obs_eqb loose (cc_ps c)
  && obs_eqb (observe (py_run (cc_fuel c) (cc_prog c))) (cc_py c)
  && (is_anomaly strict || obs_eqb strict loose).

Definition ccase_spec_ok (c : ccase) : bool := obs_eqb (cc_ps c) (cc_py c).

(* a Spec failure is attributed to the first event, other than event 3, at which a strict run stops: event 3 (var_names differ
   from the free variables on a visible name) is mostly the harmless extra capture of an enclosing variable named like a
   parameter of a nested function, after which the code goes on and may still reach one of the real events - so the
   attribution uses the strict run that does not stop at event 3.  (The framework separately requires the loose Model to
   reproduce the observation; a strict run that stops nowhere equals the reference: C03_closure_equiv_partial.) *)
Definition ccase_attrib (c : ccase) : list nat :=
  match observe (ps_run sdev_off true true (cc_fuel c) (cc_prog c)) with
  | ObsAnomaly 1 => [300%nat]      (* D300: dynamic-scope capture *)
  | ObsAnomaly 2 => [301%nat]      (* D301: private copy of an unassigned captured variable *)
  | ObsAnomaly 4 => [302%nat]      (* D302: a declared-global name that only the builtins define *)
  | ObsAnomaly 5 => [303%nat]      (* D303: an unassigned plain local named like a builtin reads the builtin *)
  | _ => []
  end.

Definition ccase_explain (c : ccase) :=
  (observe (ps_run sdev_off false false (cc_fuel c) (cc_prog c)), observe (ps_run sdev_off true false (cc_fuel c) (cc_prog c)), observe (ps_run sdev_off true true (cc_fuel c) (cc_prog c)),
   observe (py_run (cc_fuel c) (cc_prog c))).
