(* Interp/Ctx.v — executable model of pyscript's global contexts (C11).
   Anchors: eval.py EvalFunc.call (switch to the defining context, restore in [finally]),
   AstEval.ast_name / recurse_assign (name resolution against sym_table / global_sym_table),
   ast_import / ast_importfrom, AstEval.set_global_ctx, global_ctx.py GlobalContext.module_import
   (candidate list, lookup-before-load, load, registration), GlobalContextMgr.load_file / get / set,
   trigger dispatch and task.create (fresh evaluator).
   GlobalContext objects are numbered (cid = index into [w_ctxs], allocation order); the manager maps context
   names (lists of name ids, "modules.pkg.sib" = [3;pkg;sib]) to cids.  Dicts that Python aliases
   (global tables) are referenced by cid; local frames are never aliased (no closures in this language)
   and are kept by value.  No proofs here (see Proofs/InterpCtx.v). *)
From PV Require Import Common.Util Gen.CtxConsts.

Definition path := list N.

(* reserved name ids (the harness keeps the id <-> string table) *)
Definition n_file : N := 1.
Definition n_apps : N := 2.
Definition n_modules : N := 3.
Definition n_scripts : N := 4.
Definition n_init : N := 5.          (* "__init__" *)
Definition n_all : N := 900.         (* "__all__" *)
Definition is_under (x : N) : bool := (900 <=? x)%N.   (* names starting with "_" have ids >= 900 *)
(* functions named q1, q2 (ids 250..259) are defined as `def q(p):` - one required positional parameter, no **kw;
   every other function is `def f( **kw ):`.  The generated programs only ever call with () , (1) or (zz=1). *)
Definition needs_arg (f : N) : bool := (250 <=? f)%N && (f <? 260)%N.
(* user decorators w1, w2 (ids 260..269) are `def w(f):`; they are only ever called by a decoration, with one argument *)
Definition is_deco (f : N) : bool := (260 <=? f)%N && (f <? 270)%N.
Definition arity_ok (f : N) (nargs : nat) : bool :=
  if needs_arg f then false else if is_deco f then Nat.eqb nargs 1 else Nat.eqb nargs 0.

(* ---------- syntax ---------- *)
Inductive expr :=
  | ELit (z : Z) | ENone | ENames (l : list N)
  | EName (x : N) | EAddLit (x : N) (z : Z) | EAttr (m x : N)
  | ECtx.                                            (* pyscript.get_global_ctx() *)
Inductive cref := CName (f : N) | CAttr (m f : N).
Inductive stmt :=
  | SAssign (x : N) (e : expr)                       (* x = e *)
  | SAttrAssign (m x : N) (e : expr)                 (* m.x = e *)
  | SDef (f : N) (gl : list N) (body : list stmt)    (* def f( **kw ): global gl; body *)
  | SCall (dst : option N) (c : cref)                (* [dst =] f() *)
  | STask (c : cref)                                 (* task.wait({task.create(f)}) *)
  | SReturn (e : expr)
  | SRaise
  | SIf (e : expr) (a b : list stmt)
  | STry (a h : list stmt)                           (* try: a  except Exception: h *)
  | SImport (m : path) (bind : N)                    (* import m [as bind] *)
  | SFrom (m : path) (level : nat) (items : list (N * N))   (* from [.]*m import name as bind, ... *)
  | SFromStar (m : path) (level : nat)               (* from [.]*m import * *)
  | SFromDot (level : nat) (items : list (N * N))    (* from . import name as bind, ... *)
  | SSetCtx (c : path)                               (* pyscript.set_global_ctx("c") *)
  | SCallBad (c : cref)                              (* f(1) / q(zz=1): a call whose argument list cannot be bound *)
  | SDefDeco (f : N) (d : cref) (gl : list N) (body : list stmt)   (* @d  def f( **kw ): ...   (d = a user decorator) *)
  | SSleep.                                          (* task.sleep(s): suspends this run; no effect on any table *)

(* ---------- values, tables ---------- *)
Inductive val :=
  | VInt (z : Z) | VNone | VNames (l : list N)
  | VFun (c : nat) (f : N) (gl : list N) (body : list stmt)   (* remembers its defining context *)
  | VMod (c : nat)                                            (* module object of context c *)
  | VStr (p : path).                                          (* a context name (result of get_global_ctx) *)
Definition table := list (N * val).

Fixpoint tget (t : table) (x : N) : option val :=
  match t with
  | [] => None
  | (y, v) :: r => if N.eqb x y then Some v else tget r x
  end.
Fixpoint tset (t : table) (x : N) (v : val) : table :=
  match t with
  | [] => [(x, v)]
  | (y, u) :: r => if N.eqb x y then (y, v) :: r else (y, u) :: tset r x v
  end.
Definition memN (x : N) (l : list N) : bool := existsb (N.eqb x) l.
Definition path_eqb : path -> path -> bool := list_eqb N.eqb.
Definition memP (p : path) (l : list path) : bool := existsb (path_eqb p) l.

(* ---------- world ---------- *)
Record gctx := {
  g_name : path;                (* GlobalContext.name *)
  g_rel : option path;          (* rel_import_path as a directory ("/__init__" already stripped) *)
  g_tab : table;                (* global_sym_table *)
  g_mod : bool;                 (* .module is set *)
  g_imports : list path         (* .imports *)
}.
Inductive lev := LLoad (n : path) (c : nat) | LImp (n : path) (c : nat).
Record world := {
  w_ctxs : list gctx;                     (* every GlobalContext ever created; index = cid *)
  w_mgr : list (path * nat);              (* GlobalContextMgr.contexts *)
  w_fs : list (path * list stmt);         (* files below <config>/pyscript: path without ".py" -> source *)
  (* ghost state, read by no model function: *)
  w_log : list lev;                       (* successful module loads / successful imports, newest first *)
  w_nsw : nat;                            (* number of set_global_ctx executions *)
  w_loading : list path;                  (* module contexts being loaded *)
  w_cyc : bool                            (* a module was requested while it was being loaded *)
}.
Definition set_ctxs (w : world) (l : list gctx) : world :=
  {| w_ctxs := l; w_mgr := w_mgr w; w_fs := w_fs w; w_log := w_log w; w_nsw := w_nsw w; w_loading := w_loading w; w_cyc := w_cyc w |}.
Definition set_mgr (w : world) (m : list (path * nat)) : world :=
  {| w_ctxs := w_ctxs w; w_mgr := m; w_fs := w_fs w; w_log := w_log w; w_nsw := w_nsw w; w_loading := w_loading w; w_cyc := w_cyc w |}.
Definition add_log (w : world) (l : list lev) : world :=
  {| w_ctxs := w_ctxs w; w_mgr := w_mgr w; w_fs := w_fs w; w_log := l ++ w_log w; w_nsw := w_nsw w; w_loading := w_loading w; w_cyc := w_cyc w |}.
Definition bump_nsw (w : world) : world :=
  {| w_ctxs := w_ctxs w; w_mgr := w_mgr w; w_fs := w_fs w; w_log := w_log w; w_nsw := S (w_nsw w); w_loading := w_loading w; w_cyc := w_cyc w |}.
Definition set_loading (w : world) (l : list path) (cyc : bool) : world :=
  {| w_ctxs := w_ctxs w; w_mgr := w_mgr w; w_fs := w_fs w; w_log := w_log w; w_nsw := w_nsw w; w_loading := l; w_cyc := cyc |}.

Fixpoint pget {A} (m : list (path * A)) (p : path) : option A :=
  match m with
  | [] => None
  | (q, a) :: r => if path_eqb p q then Some a else pget r p
  end.
Fixpoint pset {A} (m : list (path * A)) (p : path) (a : A) : list (path * A) :=
  match m with
  | [] => [(p, a)]
  | (q, b) :: r => if path_eqb p q then (q, a) :: r else (q, b) :: pset r p a
  end.

Fixpoint upd_nth {A} (l : list A) (i : nat) (f : A -> A) : list A :=
  match l, i with
  | [], _ => []
  | x :: r, O => f x :: r
  | x :: r, S i' => x :: upd_nth r i' f
  end.
Definition ctx_of (w : world) (c : nat) : option gctx := nth_error (w_ctxs w) c.
Definition tab (w : world) (c : nat) : table := match ctx_of w c with Some g => g_tab g | None => [] end.
Definition with_tab (g : gctx) (t : table) : gctx :=
  {| g_name := g_name g; g_rel := g_rel g; g_tab := t; g_mod := g_mod g; g_imports := g_imports g |}.
Definition set_tab (w : world) (c : nat) (x : N) (v : val) : world :=
  set_ctxs w (upd_nth (w_ctxs w) c (fun g => with_tab g (tset (g_tab g) x v))).
Definition add_import (w : world) (c : nat) (n : path) : world :=
  set_ctxs w (upd_nth (w_ctxs w) c (fun g =>
    {| g_name := g_name g; g_rel := g_rel g; g_tab := g_tab g; g_mod := g_mod g;
       g_imports := if memP n (g_imports g) then g_imports g else n :: g_imports g |})).
Definition mark_module (w : world) (c : nat) : world :=
  set_ctxs w (upd_nth (w_ctxs w) c (fun g =>
    {| g_name := g_name g; g_rel := g_rel g; g_tab := g_tab g; g_mod := true; g_imports := g_imports g |})).

(* ---------- evaluator state: the context pointers of one AstEval ---------- *)
Inductive symref := SymG (c : nat) | SymL (t : table).
Record finfo := { fi_gl : list N; fi_ln : list N }.     (* curr_func.global_names / local_names *)
Record evst := {
  e_gst : nat;                 (* whose table AstEval.global_sym_table points to *)
  e_sym : symref;              (* AstEval.sym_table *)
  e_stack : list symref;       (* AstEval.sym_table_stack *)
  e_gctx : nat;                (* AstEval.global_ctx *)
  e_func : option finfo        (* AstEval.curr_func *)
}.
Definition fresh_ev (c : nat) : evst :=
  {| e_gst := c; e_sym := SymG c; e_stack := []; e_gctx := c; e_func := None |}.
Definition with_sym (e : evst) (s : symref) : evst :=
  {| e_gst := e_gst e; e_sym := s; e_stack := e_stack e; e_gctx := e_gctx e; e_func := e_func e |}.

Inductive outcome := ONormal | OReturn (v : val) | OExc | OFuel.
Definition res : Type := world * evst * outcome.

(* ---------- deviations of the unchanged code (on = what the code does today) ---------- *)
Record deviations := {
  d_rel_sibling : bool;   (* D110: relative import from a non-__init__ file of a package derives the context name
                             from the importing file's name instead of its package's name *)
  d_star_all : bool       (* D111: from m import * ignores m.__all__ *)
}.
Definition all_off : deviations := {| d_rel_sibling := false; d_star_all := false |}.

(* ---------- names assigned in a function body (EvalFunc.resolve_nonlocals: local_names) ---------- *)
Fixpoint binders (s : stmt) : list N :=
  match s with
  | SAssign x _ => [x]
  | SDef f _ _ => [f]
  | SCall (Some x) _ => [x]
  | SIf _ a b =>
      (fix go (l : list stmt) : list N := match l with [] => [] | s1 :: r => binders s1 ++ go r end) a ++
      (fix go (l : list stmt) : list N := match l with [] => [] | s1 :: r => binders s1 ++ go r end) b
  | STry a h =>
      (fix go (l : list stmt) : list N := match l with [] => [] | s1 :: r => binders s1 ++ go r end) a ++
      (fix go (l : list stmt) : list N := match l with [] => [] | s1 :: r => binders s1 ++ go r end) h
  | _ => []
  end.
Definition local_names (gl : list N) (body : list stmt) : list N :=
  filter (fun x => negb (memN x gl)) (flat_map binders body).

(* ---------- name resolution (ast_name, Load) and binding (recurse_assign, Store) ---------- *)
Definition sym_get (w : world) (s : symref) (x : N) : option val :=
  match s with SymG c => tget (tab w c) x | SymL t => tget t x end.
Definition is_global_decl (e : evst) (x : N) : bool :=
  match e_func e with Some fi => memN x (fi_gl fi) | None => false end.
Definition is_local_name (e : evst) (x : N) : bool :=
  match e_func e with Some fi => memN x (fi_ln fi) | None => false end.
Definition lookup_name (w : world) (e : evst) (x : N) : option val :=   (* None = NameError/UnboundLocalError *)
  if is_global_decl e x then tget (tab w (e_gst e)) x
  else match sym_get w (e_sym e) x with
       | Some v => Some v
       | None => match tget (tab w (e_gst e)) x with
                 | Some v => if is_local_name e x then None else Some v
                 | None => None
                 end
       end.
(* self.sym_table[x] = v *)
Definition bind_sym (w : world) (e : evst) (x : N) (v : val) : world * evst :=
  match e_sym e with
  | SymG c => (set_tab w c x v, e)
  | SymL t => (w, with_sym e (SymL (tset t x v)))
  end.
(* assignment / def: global_names go to global_sym_table *)
Definition assign_name (w : world) (e : evst) (x : N) (v : val) : world * evst :=
  if is_global_decl e x then (set_tab w (e_gst e) x v, e) else bind_sym w e x v.

Definition eval_expr (w : world) (e : evst) (ex : expr) : option val :=
  match ex with
  | ELit z => Some (VInt z)
  | ENone => Some VNone
  | ENames l => Some (VNames l)
  | EName x => lookup_name w e x
  | EAddLit x z => match lookup_name w e x with Some (VInt a) => Some (VInt (a + z)) | _ => None end
  | EAttr m x => match lookup_name w e m with Some (VMod c) => tget (tab w c) x | _ => None end
  | ECtx => Some (VStr (match ctx_of w (e_gctx e) with Some g => g_name g | None => [] end))
  end.
Definition resolve_cref (w : world) (e : evst) (c : cref) : option val :=
  match c with CName f => lookup_name w e f | CAttr m f => eval_expr w e (EAttr m f) end.
Definition truthy (v : val) : bool :=
  match v with VInt z => negb (Z.eqb z 0) | VNone => false | VNames l => negb (Nat.eqb (length l) 0) | _ => true end.

(* ---------- set_global_ctx ---------- *)
Definition sym_is_gst (e : evst) : bool :=   (* self.sym_table == self.global_sym_table *)
  match e_sym e with SymG c => Nat.eqb c (e_gst e) | SymL _ => false end.
Definition set_global_ctx (e : evst) (c : nat) : evst :=
  {| e_gst := c;
     e_sym := if sym_is_gst e then SymG c else e_sym e;
     e_stack := match e_stack e with [] => [] | _ :: r => SymG c :: r end;
     e_gctx := c;
     e_func := e_func e |}.

(* ---------- EvalFunc.call: switch, run, restore ---------- *)
Definition enter_call (e : evst) (c : nat) (fi : finfo) : evst :=
  if Nat.eqb (e_gctx e) c
  then {| e_gst := e_gst e; e_sym := SymL []; e_stack := e_stack e ++ [e_sym e]; e_gctx := e_gctx e; e_func := Some fi |}
  else {| e_gst := c; e_sym := SymL []; e_stack := [SymG c]; e_gctx := c; e_func := Some fi |}.
(* the [finally] block; [e] = state before the call, [e'] = state when the body stopped *)
Definition leave_call (e : evst) (c : nat) (e' : evst) : evst :=
  if Nat.eqb (e_gctx e) c
  then {| e_gst := e_gst e'; e_sym := last (e_stack e') (e_sym e'); e_stack := removelast (e_stack e');
          e_gctx := e_gctx e'; e_func := e_func e |}
  else {| e_gst := e_gst e; e_sym := e_sym e; e_stack := e_stack e; e_gctx := e_gctx e; e_func := e_func e |}.

Definition call_with (blk : world -> evst -> list stmt -> res) (na : nat) (w : world) (e : evst) (v : val) : res :=
  match v with
  | VFun c f gl body =>
      if negb (arity_ok f na) then (w, e, OExc) else      (* argument binding (l.707-763) fails before the context switch *)
      let fi := {| fi_gl := gl; fi_ln := local_names gl body |} in
      let '(w', e', o) := blk w (enter_call e c fi) body in
      match o with
      | OFuel => (w', e', OFuel)
      | OExc => (w', if call_restore_in_finally then leave_call e c e' else e', OExc)
      | ONormal => (w', leave_call e c e', OReturn VNone)
      | OReturn r => (w', leave_call e c e', OReturn r)
      end
  | _ => (w, e, OExc)            (* not callable *)
  end.

(* ---------- GlobalContext.module_import ---------- *)
Definition starts_with_apps (p : option path) : bool :=
  match p with Some (r :: _) => N.eqb r n_apps | _ => false end.
(* candidates: (context name, file path, rel_import_path of the new context) *)
Definition cand : Type := (path * path * option path)%type.
Inductive resolved := RExc | RCands (l : list cand).

Fixpoint climb (k : nat) (p cn : path) : option (path * path) :=
  match k with
  | O => Some (p, cn)
  | S k' =>
      let p' := removelast p in
      if (Nat.ltb (length p') 2) || (Nat.ltb (length cn) 2) then None
      else climb k' p' (removelast cn)
  end.

Definition resolve (cfg : deviations) (g : gctx) (m : path) (level : nat) : resolved :=
  match level with
  | O =>
      let apps := if starts_with_apps (g_rel g)
                  then [ (n_apps :: m, (n_apps :: m) ++ [n_init], Some (n_apps :: m));
                         (n_apps :: m, n_apps :: m, Some (n_apps :: m)) ]
                  else [] in
      RCands (apps ++ [ (n_modules :: m, (n_modules :: m) ++ [n_init], Some (n_modules :: m));
                        (n_modules :: m, n_modules :: m, None) ])
  | S k =>
      match g_rel g with
      | None => RExc                      (* attempted relative import with no known parent package *)
      | Some p =>
          let base := if d_rel_sibling cfg then g_name g
                      else if Nat.ltb (length p) (length (g_name g)) then firstn (length p) (g_name g) else g_name g in
          match climb k p base with
          | None => RExc                  (* attempted relative import above parent package *)
          | Some (p', cn) =>
              let cn' := cn ++ m in
              RCands [ (cn', p' ++ m ++ [n_init], Some (p' ++ m)); (cn', p' ++ m, Some p') ]
          end
      end
  end.

Fixpoint find_loaded (w : world) (l : list cand) : option (path * nat) :=
  match l with
  | [] => None
  | (cn, _, _) :: r =>
      match pget (w_mgr w) cn with
      | Some c => match ctx_of w c with
                  | Some g => if g_mod g then Some (cn, c) else find_loaded w r
                  | None => find_loaded w r
                  end
      | None => find_loaded w r
      end
  end.
Fixpoint find_file (w : world) (l : list cand) : option (cand * list stmt) :=
  match l with
  | [] => None
  | (cn, fp, rel) :: r => match pget (w_fs w) fp with Some src => Some ((cn, fp, rel), src) | None => find_file w r end
  end.

Inductive ires := IOk (c : nat) | IExc | IFuel.

Definition new_ctx (w : world) (n : path) (rel : option path) : world * nat :=
  (set_ctxs w (w_ctxs w ++ [{| g_name := n; g_rel := rel; g_tab := []; g_mod := false; g_imports := [] |}]), length (w_ctxs w)).

Definition import_with (cfg : deviations) (blk : world -> evst -> list stmt -> res)
    (w : world) (self : nat) (m : path) (level : nat) : world * ires :=
  match ctx_of w self with
  | None => (w, IExc)
  | Some g =>
    match resolve cfg g m level with
    | RExc => (w, IExc)
    | RCands cands =>
      match (if lookup_before_load then find_loaded w cands else None) with
      | Some (cn, c) => (add_log (add_import w self cn) [LImp cn c], IOk c)
      | None =>
        match find_file w cands with
        | None => (w, IExc)                 (* not a pyscript module (and no such Python package) *)
        | Some ((cn, _, rel), src) =>
            let w1 := set_loading w (cn :: w_loading w) (w_cyc w || memP cn (w_loading w)) in
            let '(w2, c) := new_ctx w1 cn rel in
            let '(w3, _, o) := blk w2 (fresh_ev c) src in
            let w4 := set_loading w3 (tl (w_loading w3)) (w_cyc w3) in
            match o with
            | ONormal =>
                let w5 := mark_module (set_mgr w4 (pset (w_mgr w4) cn c)) c in
                (add_log (add_import w5 self cn) [LImp cn c; LLoad cn c], IOk c)
            | OFuel => (w4, IFuel)
            | _ => (w4, IExc)               (* exception while loading / return outside function *)
            end
        end
      end
    end
  end.

Fixpoint bind_items (w : world) (e : evst) (c : nat) (items : list (N * N)) : world * evst * bool :=
  match items with
  | [] => (w, e, true)
  | (x, b) :: r =>
      match tget (tab w c) x with
      | None => (w, e, false)                         (* getattr -> AttributeError *)
      | Some v => let '(w', e') := bind_sym w e b v in bind_items w' e' c r
      end
  end.
Fixpoint bind_all (w : world) (e : evst) (l : list (N * val)) : world * evst :=
  match l with
  | [] => (w, e)
  | (x, v) :: r => let '(w', e') := bind_sym w e x v in bind_all w' e' r
  end.
Definition star_items (cfg : deviations) (t : table) : option (list (N * val)) :=
  let dflt := filter (fun '(x, _) => if star_skip_underscore then negb (is_under x) else true) t in
  if d_star_all cfg then Some dflt
  else match tget t n_all with
       | Some (VNames l) =>
           fold_right (fun x acc => match acc, tget t x with Some a, Some v => Some ((x, v) :: a) | _, _ => None end) (Some []) l
       | _ => Some dflt
       end.

Fixpoint import_dots (imp : world -> nat -> path -> nat -> world * ires) (w : world) (e : evst) (level : nat)
    (items : list (N * N)) : res :=
  match items with
  | [] => (w, e, ONormal)
  | (x, b) :: r =>
      match imp w (e_gctx e) [x] level with
      | (w', IOk c) => let '(w'', e') := bind_sym w' e b (VMod c) in import_dots imp w'' e' level r
      | (w', IExc) => (w', e, OExc)
      | (w', IFuel) => (w', e, OFuel)
      end
  end.

(* ---------- statements ---------- *)
Fixpoint block_with (ex : world -> evst -> stmt -> res) (w : world) (e : evst) (l : list stmt) : res :=
  match l with
  | [] => (w, e, ONormal)
  | s :: r =>
      let '(w', e', o) := ex w e s in
      match o with ONormal => block_with ex w' e' r | _ => (w', e', o) end
  end.

Definition stmt_with (cfg : deviations) (ex : world -> evst -> stmt -> res) (w : world) (e : evst) (s : stmt) : res :=
  let blk := block_with ex in
  let imp := import_with cfg blk in
  match s with
  | SAssign x ex1 =>
      match eval_expr w e ex1 with
      | Some v => let '(w', e') := assign_name w e x v in (w', e', ONormal)
      | None => (w, e, OExc)
      end
  | SAttrAssign m x ex1 =>
      match eval_expr w e ex1 with
      | Some v => match lookup_name w e m with
                  | Some (VMod c) => (set_tab w c x v, e, ONormal)
                  | _ => (w, e, OExc)
                  end
      | None => (w, e, OExc)
      end
  | SDef f gl body =>
      let '(w', e') := assign_name w e f (VFun (e_gctx e) f gl body) in (w', e', ONormal)
  | SCall dst c =>
      match resolve_cref w e c with
      | None => (w, e, OExc)
      | Some fv =>
          let '(w', e', o) := call_with blk 0 w e fv in
          match o with
          | OReturn r => match dst with
                         | Some x => let '(w'', e'') := assign_name w' e' x r in (w'', e'', ONormal)
                         | None => (w', e', ONormal)
                         end
          | _ => (w', e', o)
          end
      end
  | STask c =>
      match resolve_cref w e c with
      | None => (w, e, OExc)
      | Some fv =>
          let '(w', _, o) := call_with blk 0 w (fresh_ev (e_gctx e)) fv in
          match o with OFuel => (w', e, OFuel) | _ => (w', e, ONormal) end     (* exceptions are logged by the task *)
      end
  | SReturn ex1 => match eval_expr w e ex1 with Some v => (w, e, OReturn v) | None => (w, e, OExc) end
  | SRaise => (w, e, OExc)
  | SIf c a b =>
      match eval_expr w e c with
      | Some v => if truthy v then blk w e a else blk w e b
      | None => (w, e, OExc)
      end
  | STry a h =>
      let '(w', e', o) := blk w e a in
      match o with OExc => blk w' e' h | _ => (w', e', o) end
  | SImport m b =>
      match imp w (e_gctx e) m 0 with
      | (w', IOk c) => let '(w'', e') := bind_sym w' e b (VMod c) in (w'', e', ONormal)
      | (w', IExc) => (w', e, OExc)
      | (w', IFuel) => (w', e, OFuel)
      end
  | SFrom m level items =>
      match imp w (e_gctx e) m level with
      | (w', IOk c) => let '(w'', e', ok) := bind_items w' e c items in (w'', e', if ok then ONormal else OExc)
      | (w', IExc) => (w', e, OExc)
      | (w', IFuel) => (w', e, OFuel)
      end
  | SFromStar m level =>
      match imp w (e_gctx e) m level with
      | (w', IOk c) =>
          match star_items cfg (tab w' c) with
          | Some l => let '(w'', e') := bind_all w' e l in (w'', e', ONormal)
          | None => (w', e, OExc)
          end
      | (w', IExc) => (w', e, OExc)
      | (w', IFuel) => (w', e, OFuel)
      end
  | SFromDot level items => import_dots imp w e level items
  | SSetCtx n =>
      match pget (w_mgr w) n with
      | Some c => (bump_nsw w, set_global_ctx e c, ONormal)
      | None => (w, e, OExc)
      end
  | SCallBad c => (w, e, OExc)      (* NameError/AttributeError while resolving, or TypeError while binding: no state change *)
  | SDefDeco f d gl body =>
      (* ast_functiondef: the decorator is called with the new function; what it returns is bound to f, and a returned
         pyscript function is renamed to f (func.set_name(name)) *)
      match resolve_cref w e d with
      | None => (w, e, OExc)
      | Some dv =>
          let '(w', e', o) := call_with blk 1 w e dv in
          match o with
          | OReturn r =>
              let r' := match r with VFun c _ gl' b' => VFun c f gl' b' | _ => r end in
              let '(w'', e'') := assign_name w' e' f r' in (w'', e'', ONormal)
          | _ => (w', e', o)
          end
      end
  | SSleep => (w, e, ONormal)
  end.

Fixpoint exec (cfg : deviations) (fuel : nat) (w : world) (e : evst) (s : stmt) {struct fuel} : res :=
  match fuel with
  | O => (w, e, OFuel)
  | S fuel' => stmt_with cfg (exec cfg fuel') w e s
  end.
Definition exec_block (cfg : deviations) (fuel : nat) := block_with (exec cfg fuel).
Definition call_fun (cfg : deviations) (fuel : nat) := call_with (exec_block cfg fuel) 0.

(* ---------- top level: autoloaded files, trigger dispatch ---------- *)
Inductive op :=
  | OpLoad (n : path) (rel : option path) (src : list stmt)   (* load_scripts -> GlobalContextMgr.load_file *)
  | OpTrig (n : path) (f : N)                                 (* trigger of function f of context n fires *)
  | OpTrigIf (n : path) (f : N) (g : N) (v : Z).              (* ... whose trigger expression "v > g" is written in file n *)

Definition run_trig (cfg : deviations) (fuel : nat) (w : world) (n : path) (f : N) : world * bool :=
  match pget (w_mgr w) n with
  | None => (w, true)
  | Some c =>
      match tget (tab w c) f with
      | Some (VFun c' f' gl body) =>
          (* the run gets a fresh evaluator on the *function's* context *)
          let '(w', _, out) := call_fun cfg fuel w (fresh_ev c') (VFun c' f' gl body) in
          (w', match out with OFuel => false | _ => true end)
      | _ => (w, true)
      end
  end.

Definition run_op (cfg : deviations) (fuel : nat) (w : world) (o : op) : world * bool (* false = out of fuel *) :=
  match o with
  | OpLoad n rel src =>
      let '(w1, c) := new_ctx w n rel in
      let '(w2, _, out) := exec_block cfg fuel w1 (fresh_ev c) src in
      match out with
      | ONormal => (set_mgr w2 (pset (w_mgr w2) n c), true)
      | OFuel => (w2, false)
      | _ => (w2, true)                     (* load failed: context not registered *)
      end
  | OpTrig n f => run_trig cfg fuel w n f
  | OpTrigIf n f g v =>
      (* the expression string belongs to file n: g is looked up in n's table, whatever context the function has *)
      match pget (w_mgr w) n with
      | None => (w, true)
      | Some c =>
          match tget (tab w c) g with
          | Some (VInt t) => if (t <? v)%Z then run_trig cfg fuel w n f else (w, true)
          | _ => (w, true)
          end
      end
  end.
Fixpoint run_ops (cfg : deviations) (fuel : nat) (w : world) (ops : list op) : world * bool :=
  match ops with
  | [] => (w, true)
  | o :: r => let '(w', ok) := run_op cfg fuel w o in if ok then run_ops cfg fuel w' r else (w', false)
  end.
Definition init_world (fs : list (path * list stmt)) : world :=
  {| w_ctxs := []; w_mgr := []; w_fs := fs; w_log := []; w_nsw := 0; w_loading := []; w_cyc := false |}.
