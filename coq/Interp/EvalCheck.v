(* Interp/EvalCheck.v — what the generated correspondence files evaluate for C01.
   The host is instantiated by a *tape*: the list of dunder calls (operator, arguments, result) that the real
   interpreter (pyscript's AstEval, resp. CPython) made on recording objects while running the program.
   [tape_prim] answers a primitive call with the next tape entry and fails on any mismatch, so
   "the evaluator reproduces the tape, the final table and the outcome" means it made exactly the calls the
   real interpreter made, in the same order with the same arguments.
   [tcase_model_ok]: ps_run (measured switches) reproduces pyscript's run AND py_run reproduces CPython's run.
   [tcase_spec_ok] : the property itself on the native (uninstrumented) twin of the program: same final values,
                     same tracer log, same exception type under pyscript and CPython. *)
From Coq Require Import List NArith ZArith Bool.
From PV Require Import Common.Util Interp.Syntax Interp.Host Interp.PsEval Interp.PyRef.
Import ListNotations.

Inductive tres := TRet (v : value) | TRaise (cls : N).
Record tentry := { te_op : primop; te_args : list value; te_res : tres }.
Record tstate := { ts_tape : list tentry; ts_ok : bool; ts_mem : list (N * bool) }.

Definition ExMismatch := Exn 0.

Definition is_nil {A} (l : list A) : bool := match l with [] => true | _ => false end.

(* truth of values whose truth the interpreter can see without asking anybody (string id 0 = empty string) *)
Definition native_truth (v : value) : option bool :=
  match v with
  | VConst (CBool b) => Some b
  | VConst CNone => Some false
  | VConst (CInt z) => Some (negb (Z.eqb z 0))
  | VConst (CStr s) => Some (negb (is_nil s))
  | VConst (CBytes s) => Some (negb (N.eqb s 0))
  | VConst CEllipsis => Some true
  | VConst (CFloat s) => Some (negb (N.eqb s 0))
  | VList l | VTuple l | VSet l => Some (negb (is_nil l))
  | VDict l => Some (negb (is_nil l))
  | VSlice _ _ _ => Some true
  | VObj _ => None
  end.

Definition tape_consume (op : primop) (args : list value) (st : tstate) : tstate * pres :=
  match ts_tape st with
  | e :: r =>
      if primop_eqb op (te_op e) && values_eqb args (te_args e)
      then ({| ts_tape := r; ts_ok := true; ts_mem := ts_mem st |},
            match te_res e with TRet v => PRet v | TRaise c => PRaise (Exn c) end)
      else ({| ts_tape := ts_tape st; ts_ok := false; ts_mem := ts_mem st |}, PRaise ExMismatch)
  | [] => ({| ts_tape := []; ts_ok := false; ts_mem := ts_mem st |}, PRaise ExMismatch)
  end.

Fixpoint mem_get (o : N) (m : list (N * bool)) : option bool :=
  match m with [] => None | (k, b) :: r => if N.eqb o k then Some b else mem_get o r end.

(* Truth testing of a recording object.  strict: the next tape entry must be this very test (pyscript executes
   Python's [not]/[if] on the value each time the model says so).  lenient (CPython side): CPython's compiler
   threads jumps (the value of [a or b] used as a condition is not tested again), so a test that is not on the
   tape is answered from the last answer the same object gave. *)
Definition tape_truth (lenient : bool) (o : N) (st : tstate) : tstate * pres :=
  let hit := match ts_tape st with
             | e :: _ => primop_eqb PTruth (te_op e) && values_eqb [VObj o] (te_args e)
             | [] => false
             end in
  if hit then
    let '(st', r) := tape_consume PTruth [VObj o] st in
    match r with
    | PRet (VConst (CBool b)) => ({| ts_tape := ts_tape st'; ts_ok := ts_ok st'; ts_mem := (o, b) :: ts_mem st' |}, r)
    | _ => (st', r)
    end
  else if lenient then
    match mem_get o (ts_mem st) with
    | Some b => (st, PRet (VBool b))
    | None => tape_consume PTruth [VObj o] st
    end
  else tape_consume PTruth [VObj o] st.

Definition tape_prim (lenient : bool) (op : primop) (args : list value) (st : tstate) : tstate * pres :=
  if negb (ts_ok st) then (st, PRaise ExMismatch)
  else match op, args with
       | PTruth, [VObj o] => tape_truth lenient o st
       | PTruth, [v] => match native_truth v with
                        | Some b => (st, PRet (VBool b))
                        | None => tape_consume op args st
                        end
       (* formatting a str with the empty format spec is the str itself, and nobody else is asked *)
       | PFormat, [VConst (CStr s); VConst (CStr [])] => (st, PRet (VConst (CStr s)))
       | _, _ => tape_consume op args st
       end.

(* ---------- cases ---------- *)
(* native observation: (final variables as (name id, repr id), tracer log as (key, repr id), exception id; 0 = none) *)
Definition nobs : Type := (list (N * N) * list (N * N) * N)%type.

Record tcase := {
  tc_prog : program;
  tc_env : env;                         (* initial bindings (the leaves) *)
  tc_fuel : nat;
  tc_ps_tape : list tentry; tc_ps_env : env; tc_ps_exc : N;     (* observed: pyscript on recording objects *)
  tc_py_tape : list tentry; tc_py_env : env; tc_py_exc : N;     (* observed: CPython on recording objects *)
  tc_ps_unhashable : list N; tc_py_unhashable : list N;   (* recording objects whose payload cannot be hashed, per run *)
  tc_py_truth : list (N * bool);        (* truth value of every recording object of the CPython run (at creation) *)
  tc_nat_ps : nobs; tc_nat_py : nobs    (* observed: native twin under pyscript / CPython *)
}.

Definition env_sub (a b : env) : bool :=
  forallb (fun p => match env_get (fst p) b with Some v => value_eqb (snd p) v | None => false end) a.
Definition env_eqb (a b : env) : bool := env_sub a b && env_sub b a.

Definition out_matches (o : outcome) (exc : N) : bool :=
  match o with
  | ONormal => N.eqb exc 0
  | ORaised x => negb (N.eqb exc 0) && N.eqb (exn_cls x) exc
  end.

Definition run_matches (r : option (run_result tstate)) (e : env) (exc : N) : bool :=
  match r with
  | None => false
  | Some rr => ts_ok (rr_host rr) && is_nil (ts_tape (rr_host rr)) && env_eqb (rr_env rr) e && out_matches (rr_out rr) exc
  end.

Definition tape0 (t : list tentry) (m : list (N * bool)) : tstate := {| ts_tape := t; ts_ok := true; ts_mem := m |}.

Definition hash_ok (l : list N) (o : N) : bool := negb (existsb (N.eqb o) l).

Definition ps_on (lenient : bool) (cfg : deviations) (c : tcase) (t : list tentry) :=
  ps_run tstate (tape_prim lenient) (hash_ok (if lenient then tc_py_unhashable c else tc_ps_unhashable c)) cfg (tc_fuel c) (tc_prog c) (tape0 t (if lenient then tc_py_truth c else [])) (tc_env c).
Definition py_on (c : tcase) (t : list tentry) :=
  py_run tstate (tape_prim true) (hash_ok (tc_py_unhashable c)) (tc_fuel c) (tc_prog c) (tape0 t (tc_py_truth c)) (tc_env c).

Definition ps_matches (cfg : deviations) (c : tcase) : bool :=
  run_matches (ps_on false cfg c (tc_ps_tape c)) (tc_ps_env c) (tc_ps_exc c).
Definition py_matches (c : tcase) : bool :=
  run_matches (py_on c (tc_py_tape c)) (tc_py_env c) (tc_py_exc c).

Definition tcase_model_ok (cfg : deviations) (c : tcase) : bool := ps_matches cfg c && py_matches c.

Definition nn_eqb (a b : list (N * N)) : bool :=
  list_eqb (fun x y => N.eqb (fst x) (fst y) && N.eqb (snd x) (snd y)) a b.
Definition nobs_eqb (a b : nobs) : bool :=
  let '(va, la, ea) := a in let '(vb, lb, eb) := b in nn_eqb va vb && nn_eqb la lb && N.eqb ea eb.

Definition tcase_spec_ok (c : tcase) : bool := nobs_eqb (tc_nat_ps c) (tc_nat_py c).

(* ---------- compact vocabulary for the generated case files (coqc's parser is the bottleneck) ---------- *)
Definition o_ := VObj.
Definition i_ (z : Z) := VConst (CInt z).
Definition s_ (s : list N) := VConst (CStr s).
Definition f_ (n : N) := VConst (CFloat n).
Definition y_ (n : N) := VConst (CBytes n).
Definition b1 := VConst (CBool true).
Definition b0 := VConst (CBool false).
Definition n_ := VConst CNone.
Definition e_ := VConst CEllipsis.
Definition l_ := VList.
Definition t_ := VTuple.
Definition z_ := VSet.
Definition d_ := VDict.
Definition sl_ := VSlice.
Definition te := Build_tentry.
Definition rt := TRet.
Definition rx := TRaise.
Definition tc := Build_tcase.

(* ---------- attribution of a Spec failure to listed findings ---------- *)
Record switch := { sw_id : nat; sw_get : deviations -> bool; sw_off : deviations -> deviations }.

Definition upd (c : deviations) (k : nat) : deviations :=
  {| d_dict_value_first := if Nat.eqb k 1 then false else d_dict_value_first c;
     d_call_kw_first := if Nat.eqb k 2 then false else d_call_kw_first c;
     d_compare_reeval := if Nat.eqb k 3 then false else d_compare_reeval c;
     d_aug_target_twice := if Nat.eqb k 4 then false else d_aug_target_twice c;
     d_fstring_conv := if Nat.eqb k 5 then false else d_fstring_conv c;
     d_list_target := if Nat.eqb k 6 then false else d_list_target c;
     d_del_attr_state := if Nat.eqb k 7 then false else d_del_attr_state c;
     d_aug_not_inplace := if Nat.eqb k 100 then false else d_aug_not_inplace c;
     d_uadd_identity := if Nat.eqb k 101 then false else d_uadd_identity c;
     d_dict_eager_insert := if Nat.eqb k 102 then false else d_dict_eager_insert c;
     d_kw_dup_silent := if Nat.eqb k 103 then false else d_kw_dup_silent c;
     d_comp_leak_on_exc := if Nat.eqb k 104 then false else d_comp_leak_on_exc c;
     d_set_late_hash := if Nat.eqb k 105 then false else d_set_late_hash c;
     d_fstr_conv_early := if Nat.eqb k 1000 then false else d_fstr_conv_early c;
     d_unpack_drain := if Nat.eqb k 0 then false else d_unpack_drain c |}.

Definition switches : list switch :=
  [ {| sw_id := 1; sw_get := d_dict_value_first; sw_off := fun c => upd c 1 |};
    {| sw_id := 2; sw_get := d_call_kw_first; sw_off := fun c => upd c 2 |};
    {| sw_id := 3; sw_get := d_compare_reeval; sw_off := fun c => upd c 3 |};
    {| sw_id := 4; sw_get := d_aug_target_twice; sw_off := fun c => upd c 4 |};
    {| sw_id := 5; sw_get := d_fstring_conv; sw_off := fun c => upd c 5 |};
    {| sw_id := 6; sw_get := d_list_target; sw_off := fun c => upd c 6 |};
    {| sw_id := 7; sw_get := d_del_attr_state; sw_off := fun c => upd c 7 |};
    {| sw_id := 100; sw_get := d_aug_not_inplace; sw_off := fun c => upd c 100 |};
    {| sw_id := 101; sw_get := d_uadd_identity; sw_off := fun c => upd c 101 |};
    {| sw_id := 102; sw_get := d_dict_eager_insert; sw_off := fun c => upd c 102 |};
    {| sw_id := 103; sw_get := d_kw_dup_silent; sw_off := fun c => upd c 103 |};
    {| sw_id := 104; sw_get := d_comp_leak_on_exc; sw_off := fun c => upd c 104 |};
    {| sw_id := 105; sw_get := d_set_late_hash; sw_off := fun c => upd c 105 |};
    {| sw_id := 1000; sw_get := d_fstr_conv_early; sw_off := fun c => upd c 1000 |};   (* internal, never reported *)
    {| sw_id := 0; sw_get := d_unpack_drain; sw_off := fun c => upd c 0 |} ].   (* internal, never reported *)

(* A Spec failure is attributed to the findings k1..kn iff the Model under the measured switches reproduces
   pyscript's run, each ki is a switch that is on and whose turning off alone breaks that reproduction (the case
   exercises it), and the Model with exactly these switches turned off behaves like CPython did on the case
   (reproduces CPython's run: with them off the Spec holds).  That last replay answers the truth tests pyscript
   makes in addition to CPython (last operand of and/or, end of a comparison chain) from the objects' truth values. *)
Definition py_like (cfg : deviations) (c : tcase) : bool :=
  run_matches (ps_on true cfg c (tc_py_tape c)) (tc_py_env c) (tc_py_exc c).
Definition only (s : switch) (cfg : deviations) : deviations :=
  fold_left (fun a x => if Nat.eqb (sw_id x) (sw_id s) then a else sw_off x a) switches cfg.
(* a switch matters for the case: turning it off alone breaks the reproduction of pyscript's run, or it alone (all
   others off) already makes the evaluator differ from what CPython did (it may be masked in pyscript's run by
   another deviation striking first) *)
Definition exercised (cfg : deviations) (c : tcase) : list switch :=
  filter (fun s => sw_get s cfg && (negb (ps_matches (sw_off s cfg) c) || negb (py_like (only s cfg) c))) switches.
Definition tcase_attrib (cfg : deviations) (c : tcase) : list nat :=
  let ex := exercised cfg c in
  let cfg' := fold_left (fun a s => sw_off s a) ex cfg in
  let ids := filter (fun k => negb (Nat.eqb k 0) && Nat.ltb k 1000) (map sw_id ex) in
  if ps_matches cfg c && negb (is_nil ids) && py_like cfg' c then ids else [].

(* ---------- replay help ---------- *)
Definition show_run (r : option (run_result tstate)) :=
  match r with
  | None => (false, 0%nat, 0%nat, 999%N, @nil event)
  | Some rr => (ts_ok (rr_host rr), length (ts_tape (rr_host rr)), length (rr_trail rr),
                match rr_out rr with ONormal => 0%N | ORaised x => exn_cls x end,
                skipn (length (rr_trail rr) - 3) (rr_trail rr))
  end.
Definition tcase_explain (cfg : deviations) (c : tcase) :=
  (show_run (ps_on false cfg c (tc_ps_tape c)), show_run (py_on c (tc_py_tape c)),
   match ps_on false cfg c (tc_ps_tape c) with Some rr => rr_env rr | None => [] end,
   map sw_id (exercised cfg c),
   show_run (ps_on true (fold_left (fun a s => sw_off s a) (exercised cfg c) cfg) c (tc_py_tape c))).
