(* Interp/Host.v — values, host primitives, the state+exception monad and the parts of Python's *data model*
   (not of any interpreter) that both evaluators share: native containers built by displays, the iteration
   protocol, hashing restrictions, symbol table.

   Every operation performed *on a user value* is one call of the host function [prim]; the list of these calls
   (operator + arguments, in order) is the trail of observable side effects.  What the operators compute is the
   host's business (pyscript executes the same Python operator as CPython does), so the host is a Section
   variable: theorems hold for every host.  No proofs here (Proofs/InterpEquiv.v). *)
From Coq Require Import List NArith ZArith Bool.
From PV Require Import Interp.Syntax.
Import ListNotations.

(* ---------- values ---------- *)
Inductive value :=
  | VConst (c : const)
  | VObj (o : N)                         (* opaque host object (any user value the interpreter did not build) *)
  | VList (l : list value)
  | VTuple (l : list value)
  | VSet (l : list value)
  | VDict (l : list (value * value))
  | VSlice (a b c : value).

Definition VBool (b : bool) : value := VConst (CBool b).
Definition VNone : value := VConst CNone.
Definition VStrId (s : list N) : value := VConst (CStr s).
Definition VEmptyStr : value := VConst (CStr []).

Fixpoint value_eqb (a b : value) {struct a} : bool :=
  let fix list_eq (l1 l2 : list value) {struct l1} : bool :=
    match l1, l2 with
    | [], [] => true
    | x :: r1, y :: r2 => value_eqb x y && list_eq r1 r2
    | _, _ => false
    end in
  let fix dict_eq (l1 l2 : list (value * value)) {struct l1} : bool :=
    match l1, l2 with
    | [], [] => true
    | (k1, v1) :: r1, (k2, v2) :: r2 => value_eqb k1 k2 && value_eqb v1 v2 && dict_eq r1 r2
    | _, _ => false
    end in
  (* sets: same elements in any order (both sides are duplicate free) *)
  let fix set_sub (l1 l2 : list value) {struct l1} : bool :=
    match l1 with
    | [] => true
    | x :: r1 => (fix mem (l : list value) : bool := match l with [] => false | y :: r => value_eqb x y || mem r end) l2
                 && set_sub r1 l2
    end in
  match a, b with
  | VConst x, VConst y => const_eqb x y
  | VObj x, VObj y => N.eqb x y
  | VSet x, VSet y => Nat.eqb (length x) (length y) && set_sub x y
  | VList x, VList y | VTuple x, VTuple y => list_eq x y
  | VDict x, VDict y => dict_eq x y
  | VSlice a1 a2 a3, VSlice b1 b2 b3 => value_eqb a1 b1 && value_eqb a2 b2 && value_eqb a3 b3
  | _, _ => false
  end.

Fixpoint values_eqb (l1 l2 : list value) : bool :=
  match l1, l2 with
  | [], [] => true
  | x :: r1, y :: r2 => value_eqb x y && values_eqb r1 r2
  | _, _ => false
  end.

(* ---------- primitive operations of the host ---------- *)
Inductive primop :=
  | PBin (o : binop) | PIBin (o : binop) | PUn (o : unop) | PCmp (o : pcmp)
  | PTruth | PContains                 (* PContains [container; item] : the [in] operator, result already coerced to bool *)
  | PGetItem | PSetItem | PDelItem
  | PGetAttr (a : ident) | PSetAttr (a : ident) | PDelAttr (a : ident)
  | PIter | PNext
  | PCall                              (* PCall [f; VTuple args; VDict kwargs] *)
  | PFormat                            (* PFormat [v; spec] = format(v, spec) *)
  | PConv (c : conv).                  (* str / repr / ascii *)

Definition primop_eqb (a b : primop) : bool :=
  match a, b with
  | PBin x, PBin y | PIBin x, PIBin y => binop_eqb x y
  | PUn x, PUn y => unop_eqb x y
  | PCmp x, PCmp y => pcmp_eqb x y
  | PTruth, PTruth | PContains, PContains | PGetItem, PGetItem | PSetItem, PSetItem | PDelItem, PDelItem
  | PIter, PIter | PNext, PNext | PCall, PCall | PFormat, PFormat => true
  | PGetAttr x, PGetAttr y | PSetAttr x, PSetAttr y | PDelAttr x, PDelAttr y => N.eqb x y
  | PConv x, PConv y => conv_eqb x y
  | _, _ => false
  end.

Definition is_call (p : primop) : bool := match p with PCall => true | _ => false end.

(* ---------- exceptions: only the class is observable in C01 ---------- *)
Inductive exn := Exn (cls : N).
Definition exn_cls (x : exn) : N := match x with Exn c => c end.
Definition exn_eqb (a b : exn) : bool := N.eqb (exn_cls a) (exn_cls b).
(* class ids fixed with the harness (vh/props/c01.py EXC_IDS) *)
Definition ExNameError := Exn 1.
Definition ExTypeError := Exn 2.
Definition ExValueError := Exn 3.
Definition ExNotImplemented := Exn 4.
Definition ExStopIteration := Exn 5.
Definition ExKeyError := Exn 6.
Definition ExAttributeError := Exn 7.
Definition ExUnsupported := Exn 11.    (* a node shape Python's compiler never produces *)
Definition is_stop (x : exn) : bool := N.eqb (exn_cls x) 5.

Inductive pres := PRet (v : value) | PRaise (x : exn).
Definition event : Type := (primop * list value)%type.

(* ---------- symbol table (module level: one table) ---------- *)
Definition env := list (ident * value).
Fixpoint env_get (x : ident) (e : env) : option value :=
  match e with
  | [] => None
  | (y, v) :: r => if N.eqb x y then Some v else env_get x r
  end.
Fixpoint env_set (x : ident) (v : value) (e : env) : env :=
  match e with
  | [] => [(x, v)]
  | (y, w) :: r => if N.eqb x y then (y, v) :: r else (y, w) :: env_set x v r
  end.
Fixpoint env_del (x : ident) (e : env) : env :=
  match e with
  | [] => []
  | (y, w) :: r => if N.eqb x y then r else (y, w) :: env_del x r
  end.

(* ---------- native containers (what displays build) ---------- *)
(* hashability: native mutable containers are unhashable, tuples iff their items are; for a host object the host
   says (a pure fact about the object: [oh]) *)
Fixpoint hashable_with (oh : N -> bool) (v : value) : bool :=
  match v with
  | VList _ | VSet _ | VDict _ => false
  | VTuple l => (fix all (l : list value) := match l with [] => true | x :: r => hashable_with oh x && all r end) l
  | VSlice a b c => hashable_with oh a && hashable_with oh b && hashable_with oh c
  | VObj o => oh o
  | _ => true
  end.

Fixpoint dict_set (k v : value) (d : list (value * value)) : list (value * value) :=
  match d with
  | [] => [(k, v)]
  | (k', v') :: r => if value_eqb k k' then (k', v) :: r else (k', v') :: dict_set k v r
  end.
Fixpoint dict_update (src d : list (value * value)) : list (value * value) :=
  match src with
  | [] => d
  | (k, v) :: r => dict_update r (dict_set k v d)
  end.
Fixpoint set_add (v : value) (s : list value) : list value :=
  match s with
  | [] => [v]
  | x :: r => if value_eqb v x then x :: r else x :: set_add v r
  end.
Fixpoint set_of_list (l : list value) (acc : list value) : list value :=
  match l with
  | [] => acc
  | x :: r => set_of_list r (set_add x acc)
  end.

(* identity ([is]): constants and host objects; containers built by a display are never identical to
   anything the program can still name at that point (the generators keep [is] away from containers) *)
Definition value_is (a b : value) : bool :=
  match a, b with
  | VConst x, VConst y => const_eqb x y
  | VObj x, VObj y => N.eqb x y
  | _, _ => false
  end.

(* what iterating a value means without asking the host: native containers and strs have their items, numbers /
   None / bools / slices are not iterable, everything else (host objects, bytes) is the host's business *)
Inductive iterability := ItItems (l : list value) | ItNot | ItHost.
Definition iter_kind (v : value) : iterability :=
  match v with
  | VList l | VTuple l | VSet l => ItItems l
  | VDict d => ItItems (map fst d)
  | VConst (CStr s) => ItItems (map (fun c => VConst (CStr [c])) s)
  | VConst (CBytes s) => if N.eqb s 0 then ItItems [] else ItHost
  | VConst _ | VSlice _ _ _ => ItNot
  | VObj _ => ItHost
  end.

Definition opt_default (o : option value) : value := match o with Some v => v | None => VNone end.

Section Host.
  Variable hstate : Type.
  Variable prim : primop -> list value -> hstate -> hstate * pres.
  Variable obj_hashable : N -> bool.          (* which host objects can be set elements / dict keys *)

  Definition hashable (v : value) : bool := hashable_with obj_hashable v.
  Definition all_hashable (l : list value) : bool := forallb hashable l.

  Record istate := mkst { st_host : hstate; st_env : env; st_trail : list event }.

  Inductive res (A : Type) :=
    | Ret (a : A) (s : istate)
    | Raise (x : exn) (s : istate)
    | Fuel.                                   (* out of fuel; theorems keep it visible *)
  Arguments Ret {A}. Arguments Raise {A}. Arguments Fuel {A}.

  Definition M (A : Type) := istate -> res A.

  Definition ret {A} (a : A) : M A := fun s => Ret a s.
  Definition raise {A} (x : exn) : M A := fun s => Raise x s.
  Definition nofuel {A} : M A := fun _ => Fuel.
  Definition bind {A B} (m : M A) (k : A -> M B) : M B :=
    fun s => match m s with
             | Ret a s' => k a s'
             | Raise x s' => Raise x s'
             | Fuel => Fuel
             end.
  (* run [m]; an exception accepted by [sel] is turned into [h] *)
  Definition catch {A} (m : M A) (sel : exn -> bool) (h : M A) : M A :=
    fun s => match m s with
             | Raise x s' => if sel x then h s' else Raise x s'
             | r => r
             end.

  (* run [m], then [fin] whether [m] returned or raised (try/finally) *)
  Definition ensure {A} (m : M A) (fin : M unit) : M A :=
    fun s => match m s with
             | Ret a s' => match fin s' with Ret _ s2 => Ret a s2 | Raise y s2 => Raise y s2 | Fuel => Fuel end
             | Raise x s' => match fin s' with Ret _ s2 => Raise x s2 | Raise y s2 => Raise y s2 | Fuel => Fuel end
             | Fuel => Fuel
             end.

  (* the only way to touch a user value; appends to the trail (most recent first) *)
  Definition do_prim (op : primop) (args : list value) : M value :=
    fun s => let '(h', r) := prim op args (st_host s) in
             let s' := mkst h' (st_env s) ((op, args) :: st_trail s) in
             match r with PRet v => Ret v s' | PRaise x => Raise x s' end.

  (* truth value testing: bool(v); __bool__ must return a bool.  It is a host call like any other (the tape replay
     checks every one), but it is not entered into the trail: for the values of C01's quantifier a truth test has no
     effect (host hypothesis H1), and keeping it out lets the theorems speak about the whole trail. *)
  Definition do_prim_quiet (op : primop) (args : list value) : M value :=
    fun s => let '(h', r) := prim op args (st_host s) in
             let s' := mkst h' (st_env s) (st_trail s) in
             match r with PRet v => Ret v s' | PRaise x => Raise x s' end.
  Definition truth (v : value) : M bool :=
    bind (do_prim_quiet PTruth [v]) (fun r => match r with VConst (CBool b) => ret b | _ => raise ExTypeError end).

  Definition get_env : M env := fun s => Ret (st_env s) s.
  Definition put_env (e : env) : M unit := fun s => Ret tt (mkst (st_host s) e (st_trail s)).
  Definition lookup (x : ident) : M value :=
    bind get_env (fun e => match env_get x e with Some v => ret v | None => raise ExNameError end).
  Definition store (x : ident) (v : value) : M unit := bind get_env (fun e => put_env (env_set x v e)).
  Definition unbind (x : ident) : M unit :=
    bind get_env (fun e => match env_get x e with Some _ => put_env (env_del x e) | None => raise ExNameError end).

  (* iteration protocol: iter(v) then next() until StopIteration; native containers are walked natively *)
  Fixpoint drain (fuel : nat) (it : value) (acc : list value) : M (list value) :=
    match fuel with
    | O => nofuel
    | S f => fun s => match do_prim PNext [it] s with
                      | Ret x s' => drain f it (acc ++ [x]) s'
                      | Raise x s' => if is_stop x then Ret acc s' else Raise x s'
                      | Fuel => Fuel
                      end
    end.
  Definition to_list (fuel : nat) (v : value) : M (list value) :=
    match iter_kind v with
    | ItItems l => ret l
    | ItNot => raise ExTypeError
    | ItHost => bind (do_prim PIter [v]) (fun it => drain fuel it [])
    end.

  (* ---- items for a target list (7.2), as CPython 3.12 obtains them ---- *)
  (* without a starred target CPython asks an iterator for exactly one item more than there are targets *)
  Fixpoint take_exact (n : nat) (it : value) (acc : list value) : M (list value) :=
    fun s => match do_prim PNext [it] s with
             | Ret x s' => match n with
                           | O => Raise ExValueError s'
                           | S n' => take_exact n' it (acc ++ [x]) s'
                           end
             | Raise x s' => if is_stop x then match n with O => Ret acc s' | S _ => Raise ExValueError s' end
                             else Raise x s'
             | Fuel => Fuel
             end.
  Definition items_exact (f n : nat) (v : value) : M (list value) :=
    match iter_kind v with
    | ItItems items => if Nat.eqb (length items) n then ret items else raise ExValueError
    | ItNot => raise ExTypeError
    | ItHost => bind (do_prim PIter [v]) (fun it => take_exact n it [])
    end.
  (* with a starred target CPython takes the leading items one by one and then builds list(iterator) *)
  Fixpoint take_some (n : nat) (it : value) (acc : list value) : M (list value) :=
    match n with
    | O => ret acc
    | S n' => fun s => match do_prim PNext [it] s with
                       | Ret x s' => take_some n' it (acc ++ [x]) s'
                       | Raise x s' => if is_stop x then Raise ExValueError s' else Raise x s'
                       | Fuel => Fuel
                       end
    end.
  Definition items_star (f nb : nat) (v : value) : M (list value) :=
    match iter_kind v with
    | ItItems items => ret items
    | ItNot => raise ExTypeError
    | ItHost => bind (do_prim PIter [v]) (fun it => bind (take_some nb it []) (fun first =>
                  bind (to_list f it) (fun rest => ret (first ++ rest))))
    end.

  (* 7.2 target lists: same number of items, or with one starred target at least as many as the others; items
     go to the targets left to right, the starred target gets the list of the remaining ones *)
  Fixpoint bind_seq (asg : expr -> value -> M unit) (ts : list expr) (vs : list value) : M unit :=
    match ts, vs with
    | [], _ => ret tt
    | t :: tr, v :: vr => bind (asg t v) (fun _ => bind_seq asg tr vr)
    | _ :: _, [] => raise ExUnsupported
    end.
  Fixpoint split_star (ts : list expr) : option (list expr * expr * list expr) :=
    match ts with
    | [] => None
    | EStarred t :: r => Some ([], t, r)
    | t :: r => match split_star r with Some (b, s, a) => Some (t :: b, s, a) | None => None end
    end.
  Definition unpack_targets (asg : expr -> value -> M unit) (f : nat) (ts : list expr) (v : value) : M unit :=
      match split_star ts with
      | None => bind (items_exact f (length ts) v) (fun items => bind_seq asg ts items)
      | Some (before, star, after) =>
    bind (items_star f (length before) v) (fun items =>
          let nb := length before in
          let na := length after in
          if Nat.ltb (length items) (nb + na) then raise ExValueError
          else
            let mid := length items - nb - na in
            match star with
            | EName _ =>
                bind (bind_seq asg before (firstn nb items)) (fun _ =>
                bind (asg star (VList (firstn mid (skipn nb items)))) (fun _ =>
                bind_seq asg after (skipn (nb + mid) items)))
            | _ => raise ExUnsupported
            end)
      end.


  (* a [for] clause walks its iterable lazily: native containers element by element, host objects by next() *)
  Inductive cursor := CNative (l : list value) | CHost (it : value).
  Definition open_cursor (v : value) : M cursor :=
    match iter_kind v with
    | ItItems l => ret (CNative l)
    | ItNot => raise ExTypeError
    | ItHost => bind (do_prim PIter [v]) (fun it => ret (CHost it))
    end.
  (* one unit of fuel per iteration; [body] returns the elements this iteration contributes *)
  Fixpoint for_each (fuel : nat) (c : cursor) (body : value -> M (list value)) (acc : list value) : M (list value) :=
    match fuel with
    | O => nofuel
    | S f =>
      match c with
      | CNative [] => ret acc
      | CNative (x :: r) => bind (body x) (fun out => for_each f (CNative r) body (acc ++ out))
      | CHost it => fun s => match do_prim PNext [it] s with
                             | Ret x s' => bind (body x) (fun out => for_each f c body (acc ++ out)) s'
                             | Raise x s' => if is_stop x then Ret acc s' else Raise x s'
                             | Fuel => Fuel
                             end
      end
    end.

  (* mapping unpacking ( **m ): only native dicts are mappings here *)
  Definition to_dict (v : value) : M (list (value * value)) :=
    match v with VDict d => ret d | _ => raise ExTypeError end.

  Definition mk_set (l : list value) : M value :=
    if all_hashable l then ret (VSet (set_of_list l [])) else raise ExTypeError.
  Definition set_put (v : value) (s : list value) : M (list value) :=
    if hashable v then ret (set_add v s) else raise ExTypeError.
  Fixpoint set_add_all (l : list value) (s : list value) : M (list value) :=
    match l with
    | [] => ret s
    | x :: r => bind (set_put x s) (fun s' => set_add_all r s')
    end.
  Definition dict_put (k v : value) (d : list (value * value)) : M (list (value * value)) :=
    if hashable k then ret (dict_set k v d) else raise ExTypeError.

  (* the comparison operators: [is] is identity, [in] is the host's containment, the rest rich comparison *)
  Definition cmp_apply (o : pcmp) (a b : value) : M value :=
    match o with
    | CmIs => ret (VBool (value_is a b))
    | CmIsNot => ret (VBool (negb (value_is a b)))
    | CmIn => bind (do_prim PContains [b; a])
                (fun r => match r with VConst (CBool t) => ret (VBool t) | _ => raise ExTypeError end)
    | CmNotIn => bind (do_prim PContains [b; a])
                (fun r => match r with VConst (CBool t) => ret (VBool (negb t)) | _ => raise ExTypeError end)
    | _ => do_prim (PCmp o) [a; b]
    end.

  (* calling: keyword names must be strings (checked by the call machinery before the callee runs) *)
  Definition kw_ok (d : list (value * value)) : bool :=
    forallb (fun p => match fst p with VConst (CStr _) => true | _ => false end) d.
  Definition do_call (fn : value) (args : list value) (kw : list (value * value)) : M value :=
    if kw_ok kw then do_prim PCall [fn; VTuple args; VDict kw] else raise ExTypeError.

  (* format(v, spec) and str()/repr()/ascii(): the result must be a str *)
  Definition want_str (m : M value) : M value :=
    bind m (fun r => match r with VConst (CStr _) => ret r | _ => raise ExTypeError end).
  Definition do_format (v spec : value) : M value := want_str (do_prim PFormat [v; spec]).
  Definition do_conv (c : conv) (v : value) : M value :=
    match c with ConvNone => ret v | _ => want_str (do_prim (PConv c) [v]) end.

  (* initial state and the observation of a finished run *)
  Definition init_state (h : hstate) (e : env) : istate := mkst h e [].

  Inductive outcome := ONormal | ORaised (x : exn).
  Record run_result := mkrun { rr_env : env; rr_trail : list event; rr_out : outcome; rr_host : hstate }.
  Definition finish {A} (r : res A) : option run_result :=
    match r with
    | Ret _ s => Some (mkrun (st_env s) (rev (st_trail s)) ONormal (st_host s))
    | Raise x s => Some (mkrun (st_env s) (rev (st_trail s)) (ORaised x) (st_host s))
    | Fuel => None
    end.

  (* what C01 observes: final variable values, the sub-trail of calls (every tracer call is one), exception class *)
  Definition calls (t : list event) : list event := filter (fun ev => is_call (fst ev)) t.
  Definition obs (r : run_result) : env * list event * outcome := (rr_env r, calls (rr_trail r), rr_out r).
End Host.

Arguments Ret {hstate A}. Arguments Raise {hstate A}. Arguments Fuel {hstate A}.
Arguments ret {hstate A}. Arguments raise {hstate A}. Arguments nofuel {hstate A}.
Arguments bind {hstate A B}. Arguments catch {hstate A}. Arguments ensure {hstate A}.
Arguments get_env {hstate}. Arguments put_env {hstate}. Arguments lookup {hstate}.
Arguments store {hstate}. Arguments unbind {hstate}.
Arguments to_dict {hstate}. Arguments mk_set {hstate}. Arguments dict_put {hstate}. Arguments set_put {hstate}. Arguments set_add_all {hstate}.
Arguments mkst {hstate}. Arguments st_host {hstate}. Arguments st_env {hstate}. Arguments st_trail {hstate}.
Arguments init_state {hstate}. Arguments finish {hstate A}. Arguments obs {hstate}. Arguments mkrun {hstate}.
Arguments rr_env {hstate}. Arguments rr_trail {hstate}. Arguments rr_out {hstate}. Arguments rr_host {hstate}.
