(* Interp/Closure.v — executable model of closures at run time (C03, core 3).  No proofs here (Proofs/InterpClosure.v).

   A mini language of nested function definitions:
     expressions  : constants, variable reads, +, tr(e) (tracer: logs the value, returns it), `a if c > 0 else b`, calls
     statements   : x = e | e | return e | def f(params): [global ...] [nonlocal ...] body
   `global`/`nonlocal` declarations are part of the def header: the fragment only has them as the first statements of a
   body (where pyscript's run-time `global` statement (D35) and Python's compile-time one coincide).

   One evaluator skeleton [run] (evaluation order, call protocol, fuel) is shared; what differs between pyscript and
   Python — and what this core is about — are the four scoping operations of a [policy]:
     lookup a name, assign a name, capture variables when a `def` executes, build the symbol table when a call starts.
   [ps_policy] mirrors eval.py:
     - EvalFunc.resolve_nonlocals (l.637-690) at definition time: for every name of pyscript's var_names set that is
       neither declared global nor an own local, the *run-time* symbol-table stack is searched from the defining table
       outwards for an EvalLocalVar cell, which is stored in local_sym_table;
     - EvalFunc.call l.764-770 at call time: parameters, then one fresh cell per own local, captured cells shared —
       unless the captured cell is still unassigned, in which case a private fresh cell is used;
     - AstEval.ast_name (l.1521): declared global -> global table; in sym_table -> cell/value; in the global table ->
       UnboundLocalError if the static pass listed the name as local, else the value; else NameError;
     - recurse_assign (l.1416-1422) / ast_functiondef l.1190-1197: declared global -> global table, else the cell.
     A function without inner def keeps plain dict entries instead of cells; a plain entry is modelled as a private slot
     (it can be captured by nobody: [slot_is_cell]).  The static sets come from Scope.v ([ps_is_local] on the body
     translated to Scope's trees), var_names from [vn_ps] (get_names_set's `names` with its inner-function rule).
   [py_policy] is the reference: flat closures as CPython implements lexical scoping — the free variables of a function
     (names it or its nested functions use, not bound in it: [uses_py]) are taken from the defining activation's cells
     when `def` executes; every local has a cell per activation; names are classified statically (local / free /
     global) by the symbol-table rule ([py_is_local]).

   [ps_policy true] ("strict") additionally stops with [Anomaly] at the events after which pyscript and Python part:
     a cell found only further up the call stack (dynamic scoping), a captured cell still unassigned when the inner
     function is called (private copy), the two static analyses disagreeing on the function.  [ps_policy false] goes
     on exactly as the code does; the correspondence evaluates both. *)
From Coq Require Import String ZArith.
From PV Require Import Common.Util Interp.Scope.

Inductive expr :=
  | EConst (z : Z)
  | EVar (x : ident)
  | EAdd (a b : expr)
  | ETr (e : expr)
  | EIfPos (c a b : expr)
  | ECall (f : expr) (args : list expr).

(* compound statements whose body runs exactly once, in place: what matters about them is that the static pre-pass
   (get_names_set, check_for_closure) has to look through them *)
Inductive wrap :=
  | WIf            (* if 1: body *)
  | WWhile         (* while True: body; break *)
  | WFor           (* for w_ in [0]: body            (binds w_) *)
  | WTry           (* try: body / finally: pass *)
  | WHandler       (* try: raise ValueError / except ValueError: body *)
  | WElse.         (* try: pass / except ValueError: pass / else: body *)

Inductive stmt :=
  | SAssign (x : ident) (e : expr)
  | SExpr (e : expr)
  | SReturn (e : expr)
  | SDef (d : fdef)
  | SWrap (w : wrap) (body : list stmt)
with fdef :=
  | FDef (name : ident) (params globals nonlocals : list ident) (body : list stmt).

Definition d_name (d : fdef) := match d with FDef n _ _ _ _ => n end.
Definition d_params (d : fdef) := match d with FDef _ p _ _ _ => p end.
Definition d_globals (d : fdef) := match d with FDef _ _ g _ _ => g end.
Definition d_nonlocals (d : fdef) := match d with FDef _ _ _ n _ => n end.
Definition d_body (d : fdef) := match d with FDef _ _ _ _ b => b end.

(* ---------- values, store, state ---------- *)
Inductive val := VInt (z : Z) | VNone | VClo (d : fdef) (cap : list (ident * nat)) | VBuiltin (x : ident).

Record state := {
  st_store : list (option val);          (* cells (EvalLocalVar objects / CPython cell objects); None = unassigned *)
  st_globals : list (ident * val);       (* the module's global table, insertion order *)
  st_trace : list (option Z)             (* what tr() logged: the integer, or None for a non-integer *)
}.

Inductive err := ENameErr | ETypeErr | ESyntaxErr.
(* [Anomaly k]: the strict run stopped; k = 1 dynamic-scope capture, 2 private copy of an unassigned captured cell,
   3 var_names differ from the free variables, 4 a declared-global name that only the builtins define,
   5 an unassigned plain local named like a builtin,
   0 an internal consistency check *)
Inductive outcome (A : Type) := Ok (a : A) (st : state) | Err (e : err) | Fuel | Anomaly (k : nat).
Arguments Ok {A}. Arguments Err {A}. Arguments Fuel {A}. Arguments Anomaly {A}.

(* one activation: the function, a slot per own local (parameters first), the captured cells *)
Record frame := { fr_def : fdef; fr_own : list (ident * nat); fr_cap : list (ident * nat) }.

Fixpoint assoc {A} (x : ident) (l : list (ident * A)) : option A :=
  match l with [] => None | (k, v) :: r => if String.eqb x k then Some v else assoc x r end.
Fixpoint set_assoc {A} (x : ident) (v : A) (l : list (ident * A)) : list (ident * A) :=
  match l with
  | [] => [(x, v)]
  | (k, w) :: r => if String.eqb x k then (k, v) :: r else (k, w) :: set_assoc x v r
  end.
Fixpoint set_nth {A} (n : nat) (v : A) (l : list A) : list A :=
  match n, l with
  | O, _ :: r => v :: r
  | S n', x :: r => x :: set_nth n' v r
  | _, [] => []
  end.
Definition cell_get (st : state) (a : nat) : option val :=
  match nth_error (st_store st) a with Some (Some v) => Some v | _ => None end.
Definition cell_set (st : state) (a : nat) (v : val) : state :=
  {| st_store := set_nth a (Some v) (st_store st); st_globals := st_globals st; st_trace := st_trace st |}.
Definition global_set (st : state) (x : ident) (v : val) : state :=
  {| st_store := st_store st; st_globals := set_assoc x v (st_globals st); st_trace := st_trace st |}.
Definition log (st : state) (v : val) : state :=
  {| st_store := st_store st; st_globals := st_globals st;
     st_trace := st_trace st ++ [match v with VInt z => Some z | _ => None end] |}.
(* allocate one cell per name; values are taken from [vals] while they last (parameters), the rest is unassigned *)
Fixpoint alloc (names : list ident) (vals : list val) (store : list (option val))
  : list (ident * nat) * list (option val) :=
  match names with
  | [] => ([], store)
  | x :: r =>
      let v := match vals with v :: _ => Some v | [] => None end in
      let '(slots, store') := alloc r (tl vals) (store ++ [v]) in
      ((x, length store) :: slots, store')
  end.

(* ---------- the static pre-pass ---------- *)
Fixpoint names_expr (e : expr) : list ident :=
  match e with
  | EConst _ => []
  | EVar x => [x]
  | EAdd a b => names_expr a ++ names_expr b
  | ETr a => "tr"%string :: names_expr a
  | EIfPos c a b => names_expr c ++ names_expr a ++ names_expr b
  | ECall f args => names_expr f ++ flat_map names_expr args
  end.

Definition wrap_names (w : wrap) : list ident :=
  match w with WFor => ["w_"%string] | WHandler | WElse => ["ValueError"%string] | _ => [] end.
Definition wrap_binds (w : wrap) : list ident := match w with WFor => ["w_"%string] | _ => [] end.

(* names bound by the statements of one body (bodies of nested defs not entered, compound statements entered):
   assignment targets, def names, loop variables *)
Fixpoint bound_stmt (s : stmt) : list ident :=
  match s with
  | SAssign x _ => [x]
  | SDef d => [d_name d]
  | SWrap w body => wrap_binds w ++ flat_map bound_stmt body
  | _ => []
  end.

(* get_names_set's `names` for one statement; for a nested def: its name and the names it leaves unbound, where pyscript
   subtracts the inner function's assigned names and its global declarations, but neither its parameters nor the fact
   that an assigned name may be declared nonlocal (D38b) *)
Fixpoint vn_stmt (s : stmt) : list ident :=
  match s with
  | SAssign x e => x :: names_expr e
  | SExpr e | SReturn e => names_expr e
  | SDef d => d_name d :: vn_free d
  | SWrap w body => wrap_names w ++ flat_map vn_stmt body
  end
with vn_free (d : fdef) : list ident :=
  match d with
  | FDef _ _ gs _ body =>
      let inner := gs ++ flat_map vn_stmt body in
      let ilocal := flat_map bound_stmt body in
      filter (fun x => negb (smem x ilocal) && negb (smem x gs)) inner
  end.
(* resolve_nonlocals: var_names = args + get_names of every body statement (declarations add their names too) *)
Definition vn_ps (d : fdef) : list ident :=
  d_params d ++ d_globals d ++ d_nonlocals d ++ flat_map vn_stmt (d_body d).
(* EvalFunc.check_for_closure: is there a def anywhere below the statements of the body (ast.iter_child_nodes, all depths) *)
Fixpoint has_def (s : stmt) : bool :=
  match s with
  | SDef _ => true
  | SWrap _ body => existsb has_def body
  | _ => false
  end.
Definition has_closure (d : fdef) : bool := existsb has_def (d_body d).

(* reference: names a function uses; a nested function contributes its name and its free variables = what it uses
   minus its parameters, the names it binds and its global declarations (names declared nonlocal stay free) *)
Fixpoint uses_stmt (s : stmt) : list ident :=
  match s with
  | SAssign x e => x :: names_expr e
  | SExpr e | SReturn e => names_expr e
  | SDef d => d_name d :: free_py d
  | SWrap w body => wrap_names w ++ flat_map uses_stmt body
  end
with free_py (d : fdef) : list ident :=
  match d with
  | FDef _ ps gs ns body =>
      let bound := filter (fun x => negb (smem x ns)) (ps ++ flat_map bound_stmt body) in
      filter (fun x => negb (smem x bound) && negb (smem x gs)) (ns ++ flat_map uses_stmt body)
  end.
Definition uses_py (d : fdef) : list ident := d_nonlocals d ++ flat_map uses_stmt (d_body d).

(* every identifier occurring in a function, nested functions included: the canonical order both policies iterate in
   (the code iterates over Python sets, whose order is immaterial) *)
Fixpoint cand_stmt (s : stmt) : list ident :=
  match s with
  | SAssign x e => x :: names_expr e
  | SExpr e | SReturn e => names_expr e
  | SDef d => cand_def d
  | SWrap w body => wrap_names w ++ flat_map cand_stmt body
  end
with cand_def (d : fdef) : list ident :=
  match d with FDef n ps gs ns body => n :: ps ++ gs ++ ns ++ flat_map cand_stmt body end.
Fixpoint dedup (l : list ident) : list ident :=
  match l with [] => [] | x :: r => if smem x r then dedup r else x :: dedup r end.
Definition cand (d : fdef) : list ident := dedup (d_params d ++ d_globals d ++ d_nonlocals d ++ flat_map cand_stmt (d_body d)).

(* the body as Scope.v trees, so that both static analyses of core 2 apply unchanged *)
Definition nname (x : ident) : node := Node TgName [x] [].
Fixpoint node_expr (e : expr) : node :=
  match e with
  | EConst _ => Node TgOther [] []
  | EVar x => nname x
  | EAdd a b => Node TgOther [] [(FChild, node_expr a); (FChild, node_expr b)]
  | ETr a => Node TgCall [] [(FChild, nname "tr"%string); (FChild, node_expr a)]
  | EIfPos c a b => Node TgOther [] [(FChild, node_expr c); (FChild, node_expr a); (FChild, node_expr b)]
  | ECall f args => Node TgCall [] ((FChild, node_expr f) :: map (fun a => (FChild, node_expr a)) args)
  end.
Definition leaf : node := Node TgOther [] [].
Fixpoint node_stmt (s : stmt) : node :=
  match s with
  | SAssign x e => Node TgAssign [] [(FTargets, nname x); (FChild, node_expr e)]
  | SExpr e => Node TgOther [] [(FChild, node_expr e)]
  | SReturn e => Node TgOther [] [(FChild, node_expr e)]
  | SDef d => Node TgDef [d_name d] []
  | SWrap w body =>
      let kids := map (fun b => (FChild, node_stmt b)) body in
      match w with
      | WIf => Node TgOther [] ((FChild, leaf) :: kids)
      | WWhile => Node TgOther [] ((FChild, leaf) :: kids ++ [(FChild, leaf)])
      | WFor => Node TgFor [] ((FTarget, nname "w_"%string) :: (FChild, leaf) :: kids)
      | WTry => Node TgTry [] (kids ++ [(FChild, leaf)])
      | WHandler => Node TgTry [] [(FChild, Node TgOther [] [(FChild, nname "ValueError"%string)]);
                                   (FChild, Node TgHandler [] ((FChild, nname "ValueError"%string) :: kids))]
      | WElse => Node TgTry [] ((FChild, leaf) :: (FChild, Node TgHandler [] [(FChild, nname "ValueError"%string); (FChild, leaf)]) :: kids)
      end
  end.
Definition nodes_of (d : fdef) : list node :=
  (match d_globals d with [] => [] | gs => [Node TgGlobal gs []] end)
  ++ (match d_nonlocals d with [] => [] | ns => [Node TgNonlocal ns []] end)
  ++ map node_stmt (d_body d).

Definition ps_locals_list (cfg : sdeviations) (d : fdef) : list ident :=
  filter (ps_is_local cfg (d_params d) (nodes_of d)) (cand d).
Definition py_locals_list (d : fdef) : list ident :=
  filter (py_is_local (d_params d) (nodes_of d)) (cand d).
(* curr_func.local_names as ast_name consults it: parameters and every assigned/defined name, declarations ignored *)
Definition ps_raw_locals (cfg : sdeviations) (d : fdef) : list ident :=
  d_params d ++ st_local (ps_scan_body cfg (nodes_of d)).

(* ---------- the four scoping operations ---------- *)
Inductive rlk := LkVal (v : val) | LkErr | LkAnom (k : nat).
Inductive rcap := CapOk (cap : list (ident * nat)) | CapErr | CapAnom (k : nat).
Inductive rent := EntOk (fr : frame) (st : state) | EntErr | EntAnom (k : nat).

Record policy := {
  p_lookup : option frame -> state -> ident -> rlk;
  p_assign : option frame -> state -> ident -> val -> option state;
  p_capture : list frame -> option frame -> fdef -> state -> rcap;
  p_enter : fdef -> list (ident * nat) -> list val -> state -> rent
}.

(* the builtins scope (the B of LEGB), as far as the mini language can use it *)
Definition builtin_names : list ident := ["abs"; "max"; "min"]%string.
Definition lk_builtin (x : ident) : rlk := if smem x builtin_names then LkVal (VBuiltin x) else LkErr.
Definition lk_global (st : state) (x : ident) : rlk :=
  match assoc x (st_globals st) with Some v => LkVal v | None => lk_builtin x end.
Fixpoint all_ints (vs : list val) : option (list Z) :=
  match vs with
  | [] => Some []
  | VInt z :: r => match all_ints r with Some l => Some (z :: l) | None => None end
  | _ => None
  end.
Definition call_builtin (b : ident) (vs : list val) : option Z :=
  match all_ints vs with
  | Some [z] => if String.eqb b "abs" then Some (Z.abs z) else None          (* max(1): TypeError *)
  | Some (z :: z' :: r) =>
      if String.eqb b "max" then Some (fold_left Z.max (z' :: r) z)
      else if String.eqb b "min" then Some (fold_left Z.min (z' :: r) z)
      else None
  | _ => None
  end.
Definition lk_cell (st : state) (a : nat) : rlk :=
  match cell_get st a with Some v => LkVal v | None => LkErr end.

Definition is_some_b {A} (o : option A) : bool := match o with Some _ => true | None => false end.

(* ===== pyscript ===== *)
Section Ps.
Variable cfg : sdeviations.
Variable strict : bool.
(* [skip3]: a strict run that does not stop at event 3 (var_names differ from the free variables - mostly the harmless extra
   capture) but goes on as the code does; used only to find the first *other* event of a run (attribution) *)
Variable skip3 : bool.

(* an entry of a symbol table is an EvalLocalVar iff the function has an inner def (then all its locals get cells) or
   the entry is a captured cell *)
Definition slot_is_cell (f : frame) (x : ident) : bool :=
  has_closure (fr_def f) || is_some_b (assoc x (fr_cap f)).

(* ast_name, Load *)
Definition ps_lookup (fr : option frame) (st : state) (x : ident) : rlk :=
  match fr with
  | None => lk_global st x
  | Some f =>
      if smem x (d_globals (fr_def f)) then                           (* arg.id in curr_func.global_names: *)
        match assoc x (st_globals st) with                            (*   the global table or NameError - the builtins *)
        | Some v => LkVal v                                           (*   are not consulted (D302)                      *)
        | None => if strict && smem x builtin_names then LkAnom 4 else LkErr
        end
      else
        let outside :=                                                (* not in self.sym_table: *)
          match assoc x (st_globals st) with                          (* arg.id in self.global_sym_table *)
          | Some v => if smem x (ps_raw_locals cfg (fr_def f)) then LkErr else LkVal v
          | None => lk_builtin x                                      (* hasattr(builtins, arg.id) *)
          end in
        match assoc x (fr_own f ++ fr_cap f) with
        | Some a =>
            match cell_get st a with
            | Some v => LkVal v
            | None =>
                if slot_is_cell f x then LkErr                        (* EvalLocalVar.get() of an unassigned cell *)
                else                                                  (* a plain local not yet in the dict: *)
                  match outside with                                  (* a builtin of that name is returned (D303) *)
                  | LkVal (VBuiltin _) => if strict then LkAnom 5 else outside
                  | o => o
                  end
            end
        | None => outside
        end
  end.

(* recurse_assign on a plain name *)
Definition ps_assign (fr : option frame) (st : state) (x : ident) (v : val) : option state :=
  match fr with
  | None => Some (global_set st x v)
  | Some f =>
      if smem x (d_globals (fr_def f)) then Some (global_set st x v)
      else if strict && negb (smem x (d_nonlocals (fr_def f))) && negb (is_some_b (assoc x (fr_own f))) then
        None          (* strict: a name assigned in a function without declaration has a slot of its own *)
      else match assoc x (fr_own f ++ fr_cap f) with
           | Some a => Some (cell_set st a v)
           | None => None     (* the code would add a plain entry; never happens: every assigned name is in local_names *)
           end
  end.

(* `for sym_table in reversed(stack + [sym_table]): if var_name in sym_table and isinstance(.., EvalLocalVar)` *)
Fixpoint find_cell (tables : list frame) (x : ident) : option nat :=
  match tables with
  | [] => None
  | f :: r =>
      match assoc x (fr_own f ++ fr_cap f) with
      | Some a => if slot_is_cell f x then Some a else find_cell r x
      | None => find_cell r x
      end
  end.

Inductive capres := CrSkip | CrCell (a : nat) | CrSyntaxErr | CrAnom (k : nat).

Definition is_local_ps (d : fdef) (x : ident) : bool := ps_is_local cfg (d_params d) (nodes_of d) x.
Definition is_local_py (d : fdef) (x : ident) : bool := py_is_local (d_params d) (nodes_of d) x.

(* resolve_nonlocals, one var_name; [stack] = callers' tables, innermost first *)
Definition ps_capture_core (stack : list frame) (fr : option frame) (d : fdef) (st : state) (x : ident) : capres :=
  if negb (smem x (vn_ps d)) then CrSkip
  else if smem x (d_globals d) then CrSkip                              (* if var_name in global_names: continue *)
  else if is_local_ps d x then CrSkip                                   (* local and not nonlocal: own cell *)
  else
    match find_cell (match fr with Some f => f :: stack | None => stack end) x with
    | Some a => CrCell a
    | None =>
        if smem x (d_nonlocals d) then
          (* `val = ast_name(x); if isinstance(val, EvalName): raise SyntaxError(no binding for nonlocal)` *)
          match ps_lookup fr st x with LkVal _ => CrSkip | _ => CrSyntaxErr end
        else CrSkip
    end.

(* strict: stop where this step would part from the reference *)
Definition ps_capture_one (stack : list frame) (fr : option frame) (d : fdef) (st : state) (x : ident) : capres :=
  if negb strict then ps_capture_core stack fr d st x
  else if negb (Bool.eqb (is_local_ps d x) (is_local_py d x)) then CrAnom 0        (* the static analyses disagree *)
  else if match fr with Some f => negb (has_closure (fr_def f)) | None => false end then CrAnom 0
  else
    let capturable := negb (smem x (d_globals d)) && negb (is_local_ps d x) in
    let here := match fr with Some f => assoc x (fr_own f ++ fr_cap f) | None => None end in
    if negb skip3 && capturable && is_some_b here && negb (Bool.eqb (smem x (vn_ps d)) (smem x (uses_py d))) then
      CrAnom 3                                 (* var_names and the free variables differ on a visible name (D38b) *)
    else if capturable && smem x (vn_ps d) && negb (is_some_b here) && is_some_b (find_cell stack x) then
      CrAnom 1                                 (* a caller's variable would be captured: dynamic scoping *)
    else
      match ps_capture_core stack fr d st x with
      | CrSkip => if smem x (d_nonlocals d) then CrAnom 0 else CrSkip      (* pyscript accepts `nonlocal <global name>` *)
      | r => r
      end.

Fixpoint ps_capture_list (stack : list frame) (fr : option frame) (d : fdef) (st : state) (xs : list ident) : rcap :=
  match xs with
  | [] => CapOk []
  | x :: r =>
      match ps_capture_one stack fr d st x with
      | CrSkip => ps_capture_list stack fr d st r
      | CrCell a => match ps_capture_list stack fr d st r with CapOk l => CapOk ((x, a) :: l) | o => o end
      | CrSyntaxErr => CapErr
      | CrAnom k => CapAnom k
      end
  end.
Definition ps_capture (stack : list frame) (fr : option frame) (d : fdef) (st : state) : rcap :=
  ps_capture_list stack fr d st (cand d).

(* EvalFunc.call: bind parameters (positional only here), then `for name, value in self.local_sym_table.items()` *)
Fixpoint ps_share (cap : list (ident * nat)) (st : state) : option (list (ident * nat) * state) :=
  match cap with
  | [] => Some ([], st)
  | (x, a) :: r =>
      match cell_get st a with
      | Some _ =>                                                     (* value.is_defined(): share the cell *)
          match ps_share r st with Some (l, st') => Some ((x, a) :: l, st') | None => None end
      | None =>                                                       (* else: sym_table[name] = EvalLocalVar(name) *)
          if strict then None
          else let a' := length (st_store st) in
               let st1 := {| st_store := st_store st ++ [None]; st_globals := st_globals st; st_trace := st_trace st |} in
               match ps_share r st1 with Some (l, st') => Some ((x, a') :: l, st') | None => None end
      end
  end.

(* facts about one function that hold for every function the translator produces; the strict run checks them where
   the simulation needs them: both analyses list the same locals; every name the static pass lists as local has a slot
   of its own or a declaration; no declared name has a slot of its own *)
Definition own_names (d : fdef) (locals : list ident) : list ident :=
  d_params d ++ filter (fun x => negb (smem x (d_params d))) locals.
Definition def_consistent (d : fdef) : bool :=
  let own := own_names d (py_locals_list d) in
  list_eqb String.eqb (ps_locals_list cfg d) (py_locals_list d)
  && forallb (fun x => smem x (d_globals d) || smem x (d_nonlocals d) || smem x own) (ps_raw_locals cfg d)
  && forallb (fun x => negb (smem x own)) (d_globals d ++ d_nonlocals d).

Definition ps_enter (d : fdef) (cap : list (ident * nat)) (args : list val) (st : state) : rent :=
  if negb (Nat.eqb (length args) (length (d_params d))) then EntErr
  else if strict && negb (def_consistent d) then EntAnom 0
  else if strict && negb (forallb (fun x => is_some_b (assoc x cap)) (d_nonlocals d)) then EntAnom 0
  else
    (* parameters first (they are bound before the loop), then one cell per other own local *)
    let '(own, store') := alloc (own_names d (ps_locals_list cfg d)) args (st_store st) in
    let st1 := {| st_store := store'; st_globals := st_globals st; st_trace := st_trace st |} in
    match ps_share cap st1 with
    | Some (cap', st2) => EntOk {| fr_def := d; fr_own := own; fr_cap := cap' |} st2
    | None => EntAnom 2
    end.

Definition ps_policy : policy :=
  {| p_lookup := ps_lookup; p_assign := ps_assign; p_capture := ps_capture; p_enter := ps_enter |}.
End Ps.

(* ===== reference ===== *)
(* names are classified statically: declared global / local of this function / free (captured) / global *)
Definition py_lookup (fr : option frame) (st : state) (x : ident) : rlk :=
  match fr with
  | None => lk_global st x
  | Some f =>
      let d := fr_def f in
      if smem x (d_globals d) then lk_global st x
      else if smem x (py_locals_list d) || smem x (d_params d) then
        match assoc x (fr_own f) with Some a => lk_cell st a | None => LkErr end      (* UnboundLocalError if unassigned *)
      else match assoc x (fr_cap f) with
           | Some a => lk_cell st a                                   (* free variable; NameError if unassigned *)
           | None => lk_global st x
           end
  end.

Definition py_assign (fr : option frame) (st : state) (x : ident) (v : val) : option state :=
  match fr with
  | None => Some (global_set st x v)
  | Some f =>
      let d := fr_def f in
      if smem x (d_globals d) then Some (global_set st x v)
      else if smem x (d_nonlocals d) then
        match assoc x (fr_cap f) with Some a => Some (cell_set st a v) | None => None end
      else match assoc x (fr_own f) with Some a => Some (cell_set st a v) | None => None end
  end.

(* `def` executes in activation [fr]: the new function's free variables are the names it uses (itself or through nested
   functions) that it neither binds nor declares global, and that the defining activation has a cell for *)
Definition py_capture_one (fr : option frame) (d : fdef) (x : ident) : option nat :=
  if smem x (uses_py d) && negb (smem x (d_globals d)) && negb (py_is_local (d_params d) (nodes_of d) x)
  then match fr with Some f => assoc x (fr_own f ++ fr_cap f) | None => None end
  else None.
Fixpoint py_capture_list (fr : option frame) (d : fdef) (xs : list ident) : option (list (ident * nat)) :=
  match xs with
  | [] => Some []
  | x :: r =>
      match py_capture_one fr d x with
      | Some a => match py_capture_list fr d r with Some l => Some ((x, a) :: l) | None => None end
      | None =>
          (* "no binding for nonlocal 'x' found" is a compile-time SyntaxError in CPython *)
          if smem x (d_nonlocals d) then None else py_capture_list fr d r
      end
  end.
Definition py_capture (_ : list frame) (fr : option frame) (d : fdef) (_ : state) : rcap :=
  match py_capture_list fr d (cand d) with Some l => CapOk l | None => CapErr end.

(* a call: one fresh cell per local (parameters initialised), the function's captured cells as they are *)
Definition py_enter (d : fdef) (cap : list (ident * nat)) (args : list val) (st : state) : rent :=
  if negb (Nat.eqb (length args) (length (d_params d))) then EntErr
  else
    let ordered := d_params d ++ filter (fun x => negb (smem x (d_params d))) (py_locals_list d) in
    let '(own, store') := alloc ordered args (st_store st) in    (* = own_names *)
    EntOk {| fr_def := d; fr_own := own; fr_cap := cap |}
          {| st_store := store'; st_globals := st_globals st; st_trace := st_trace st |}.

Definition py_policy : policy :=
  {| p_lookup := py_lookup; p_assign := py_assign; p_capture := py_capture; p_enter := py_enter |}.

(* ---------- the shared skeleton ---------- *)
Section Run.
Variable P : policy.

Fixpoint ev (fuel : nat) (stack : list frame) (fr : option frame) (e : expr) (st : state) : outcome val :=
  match fuel with
  | O => Fuel
  | S n =>
      match e with
      | EConst z => Ok (VInt z) st
      | EVar x => match p_lookup P fr st x with LkVal v => Ok v st | LkErr => Err ENameErr | LkAnom k => Anomaly k end
      | EAdd a b =>
          match ev n stack fr a st with
          | Ok va st1 =>
              match ev n stack fr b st1 with
              | Ok vb st2 => match va, vb with VInt x, VInt y => Ok (VInt (x + y)) st2 | _, _ => Err ETypeErr end
              | o => o
              end
          | o => o
          end
      | ETr a => match ev n stack fr a st with Ok v st1 => Ok v (log st1 v) | o => o end
      | EIfPos c a b =>
          match ev n stack fr c st with
          | Ok (VInt z) st1 => if (0 <? z)%Z then ev n stack fr a st1 else ev n stack fr b st1
          | Ok _ _ => Err ETypeErr
          | o => o
          end
      | ECall f args =>
          match ev n stack fr f st with
          | Ok vf st1 =>
              match ev_args n stack fr args st1 with
              | Ok vs st2 =>
                  match vf with
                  | VClo d cap =>
                      match p_enter P d cap vs st2 with
                      | EntOk fr' st3 =>
                          (* sym_table_stack.append(sym_table) *)
                          let stack' := match fr with Some f => f :: stack | None => stack end in
                          match ex n stack' (Some fr') (d_body d) st3 with
                          | Ok (Some v) st4 => Ok v st4
                          | Ok None st4 => Ok VNone st4
                          | Err e => Err e | Fuel => Fuel | Anomaly k => Anomaly k
                          end
                      | EntErr => Err ETypeErr
                      | EntAnom k => Anomaly k
                      end
                  | VBuiltin b => match call_builtin b vs with Some z => Ok (VInt z) st2 | None => Err ETypeErr end
                  | _ => Err ETypeErr
                  end
              | Err e => Err e | Fuel => Fuel | Anomaly k => Anomaly k
              end
          | o => o
          end
      end
  end
with ev_args (fuel : nat) (stack : list frame) (fr : option frame) (es : list expr) (st : state) : outcome (list val) :=
  match fuel with
  | O => Fuel
  | S n =>
      match es with
      | [] => Ok [] st
      | e :: r =>
          match ev n stack fr e st with
          | Ok v st1 => match ev_args n stack fr r st1 with Ok vs st2 => Ok (v :: vs) st2 | o => o end
          | Err x => Err x | Fuel => Fuel | Anomaly k => Anomaly k
          end
      end
  end
with ex (fuel : nat) (stack : list frame) (fr : option frame) (ss : list stmt) (st : state) : outcome (option val) :=
  match fuel with
  | O => Fuel
  | S n =>
      match ss with
      | [] => Ok None st
      | s :: r =>
          match s with
          | SAssign x e =>
              match ev n stack fr e st with
              | Ok v st1 => match p_assign P fr st1 x v with Some st2 => ex n stack fr r st2 | None => Anomaly 0 end
              | Err x => Err x | Fuel => Fuel | Anomaly k => Anomaly k
              end
          | SExpr e =>
              match ev n stack fr e st with
              | Ok _ st1 => ex n stack fr r st1
              | Err x => Err x | Fuel => Fuel | Anomaly k => Anomaly k
              end
          | SReturn e =>
              match ev n stack fr e st with
              | Ok v st1 => Ok (Some v) st1
              | Err x => Err x | Fuel => Fuel | Anomaly k => Anomaly k
              end
          | SDef d =>
              match p_capture P stack fr d st with
              | CapOk cap =>
                  match p_assign P fr st (d_name d) (VClo d cap) with
                  | Some st1 => ex n stack fr r st1
                  | None => Anomaly 0
                  end
              | CapErr => Err ESyntaxErr
              | CapAnom k => Anomaly k
              end
          | SWrap w body =>
              (* the body runs once, in place (a `return` inside ends the function); `for w_ in [0]` binds w_ first *)
              match w with
              | WFor => ex n stack fr (SAssign "w_"%string (EConst 0) :: body ++ r) st
              | _ => ex n stack fr (body ++ r) st
              end
          end
      end
  end.

Definition empty_state : state := {| st_store := []; st_globals := []; st_trace := [] |}.
(* a program = the statements of the module *)
Definition run_module (fuel : nat) (prog : list stmt) : outcome (option val) := ex fuel [] None prog empty_state.
End Run.

Definition ps_run (cfg : sdeviations) (strict skip3 : bool) := run_module (ps_policy cfg strict skip3).
Definition py_run := run_module py_policy.

(* ---------- what is observed of a run ---------- *)
Inductive oval := OInt (z : Z) | ONone | OFun.
Definition oval_of (v : val) : oval := match v with VInt z => OInt z | VNone => ONone | VClo _ _ | VBuiltin _ => OFun end.
Inductive observed :=
  | ObsOk (trace : list (option Z)) (globals : list (ident * oval))
  | ObsErr (e : err)
  | ObsFuel | ObsAnomaly (k : nat).
Definition observe (o : outcome (option val)) : observed :=
  match o with
  | Ok _ st => ObsOk (st_trace st) (map (fun p => (fst p, oval_of (snd p))) (st_globals st))
  | Err e => ObsErr e
  | Fuel => ObsFuel
  | Anomaly k => ObsAnomaly k
  end.
