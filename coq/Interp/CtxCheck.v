(* Interp/CtxCheck.v — what the generated correspondence files evaluate for C11.
   A case = the files of one pyscript configuration (as model programs), the operations the harness performed
   (autoloads in load order, trigger firings) and what was observed afterwards: the global table of every
   registered context, projected to plain values (ints, None, functions as (defining context, name), modules as
   the context whose module object they are).  [cc_oracle] = the same observation made on CPython importing the
   same sources as ordinary modules. *)
From PV Require Import Common.Util Gen.CtxConsts Interp.Ctx.

Inductive oval := OInt (z : Z) | ONone | ONames (l : list N) | OFun (c : path) (f : N) | OMod (c : path) | OOther | OStr (p : path).
Definition otable := list (N * oval).
Definition otables := list (path * otable).

Record ccase := {
  cc_fs : list (path * list stmt);
  cc_ops : list op;
  cc_obs : otables;                 (* pyscript: GlobalContextMgr.contexts[..].global_sym_table *)
  cc_oracle : option otables;       (* CPython, None when the case uses pyscript.set_global_ctx *)
  cc_locals : list N                (* names the generated programs only ever use as function locals *)
}.

Definition model_fuel : nat := 120.

Definition oval_eqb (a b : oval) : bool :=
  match a, b with
  | OInt x, OInt y => Z.eqb x y
  | ONone, ONone => true
  | ONames x, ONames y => list_eqb N.eqb x y
  | OFun c f, OFun c' f' => path_eqb c c' && N.eqb f f'
  | OMod c, OMod c' => path_eqb c c'
  | OStr c, OStr c' => path_eqb c c'
  | _, _ => false
  end.

Fixpoint oget (t : otable) (x : N) : option oval :=
  match t with [] => None | (y, v) :: r => if N.eqb x y then Some v else oget r x end.
Definition otable_sub (a b : otable) : bool :=
  forallb (fun '(x, v) => match oget b x with Some v' => oval_eqb v v' | None => false end) a.
Definition otable_eqb (a b : otable) : bool :=
  Nat.eqb (length a) (length b) && otable_sub a b && otable_sub b a.
Definition otables_sub (a b : otables) : bool :=
  forallb (fun '(n, t) => match pget b n with Some t' => otable_eqb t t' | None => false end) a.
Definition otables_eqb (a b : otables) : bool :=
  Nat.eqb (length a) (length b) && otables_sub a b && otables_sub b a.

Definition name_of (w : world) (c : nat) : path := match ctx_of w c with Some g => g_name g | None => [] end.
Definition oval_of (w : world) (v : val) : oval :=
  match v with
  | VInt z => OInt z
  | VNone => ONone
  | VNames l => ONames l
  | VFun c f _ _ => OFun (name_of w c) f
  | VMod c => OMod (name_of w c)
  | VStr p => OStr p
  end.
(* the harness drops, on every side, the entry "x -> submodule x of this very package" from a package's table
   (CPython's import system sets that attribute on the parent package as a side effect of importing a submodule) *)
Definition is_self_submod (w : world) (owner : path) (x : N) (v : val) : bool :=
  match v with VMod c => path_eqb (name_of w c) (owner ++ [x]) | _ => false end.
Definition otable_of (w : world) (owner : path) (t : table) : otable :=
  map (fun '(x, v) => (x, oval_of w v)) (filter (fun '(x, v) => negb (is_self_submod w owner x v)) t).
Definition model_tables (w : world) : otables :=
  map (fun '(n, c) => (n, otable_of w n (tab w c))) (w_mgr w).

Definition run_case (cfg : deviations) (c : ccase) : world * bool :=
  run_ops cfg model_fuel (init_world (cc_fs c)) (cc_ops c).

Definition ccase_model_ok (cfg : deviations) (c : ccase) : bool :=
  let '(w, ok) := run_case cfg c in ok && otables_eqb (model_tables w) (cc_obs c).

(* Spec: every context's globals are exactly what CPython gives for the same files *)
(* without an oracle (set_global_ctx, which has no CPython counterpart): the documented function redirects *global*
   reads and writes only, so no name that is only ever a function local may show up in any context's global table *)
Definition no_local_leak (c : ccase) : bool :=
  forallb (fun '(_, t) => forallb (fun '(x, _) => negb (memN x (cc_locals c))) t) (cc_obs c).
Definition ccase_spec_ok (c : ccase) : bool :=
  match cc_oracle c with None => no_local_leak c | Some o => otables_eqb o (cc_obs c) end.

(* attribution: the conformant Model agrees with the oracle, and switching Dk off alone changes the Model's result *)
Definition tables_of (cfg : deviations) (c : ccase) : otables := model_tables (fst (run_case cfg c)).
Definition ccase_attrib (cfg : deviations) (c : ccase) : list nat :=
  match cc_oracle c with
  | None => []
  | Some o =>
      if snd (run_case all_off c) && otables_eqb (tables_of all_off c) o then
        (if d_rel_sibling cfg && negb (otables_eqb (tables_of {| d_rel_sibling := false; d_star_all := d_star_all cfg |} c) (tables_of cfg c))
         then [110%nat] else []) ++
        (if d_star_all cfg && negb (otables_eqb (tables_of {| d_rel_sibling := d_rel_sibling cfg; d_star_all := false |} c) (tables_of cfg c))
         then [111%nat] else [])
      else []
  end.

Definition ccase_explain (cfg : deviations) (c : ccase) :=
  let '(w, ok) := run_case cfg c in (ok, w_cyc w, model_tables w).
