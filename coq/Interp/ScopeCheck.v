(* Interp/ScopeCheck.v — what the generated correspondence files evaluate for C03 stream "scope".
   One case = one generated function (parameters + body as a generic tree) with
     - what the real AstEval.get_names computed for it (the sets EvalFunc.resolve_nonlocals uses),
     - what CPython's `symtable` module says about the same function,
     - whether running the enclosing program under the real AstEval and under CPython gave the same result.
   [scase_model_ok]: Model = code (ps_scan under the measured switches reproduces get_names) and reference = CPython
                     (py_bound/py_decl reproduce the symbol table); the tree satisfies the theorem's hypotheses.
   [scase_spec_ok] : pyscript classified every name as Python does, and the program behaved like Python. *)
From Coq Require Import String.
From PV Require Import Common.Util Interp.Scope.

Record scase := {
  sc_params : list ident;
  sc_body : list node;
  sc_ps_ok : bool;                    (* the real analysis returned (did not raise) *)
  sc_ps_local : list ident;           (* local_names, identifiers only *)
  sc_ps_global : list ident;
  sc_ps_nonlocal : list ident;
  sc_py_local : list ident;           (* symtable: bound in the block, not a parameter, not declared global/nonlocal *)
  sc_py_global : list ident;
  sc_py_nonlocal : list ident;
  sc_same : bool                      (* behaviour: real AstEval = CPython (NameError family identified) *)
}.

Definition subset (a b : list ident) : bool := forallb (fun x => smem x b) a.
Definition set_eqb (a b : list ident) : bool := subset a b && subset b a.

Definition py_local_list (params : list ident) (body : list node) : list ident :=
  let g := flat_map (py_decl TgGlobal) body in
  let nl := flat_map (py_decl TgNonlocal) body in
  filter (fun x => negb (smem x params) && negb (smem x g) && negb (smem x nl)) (flat_map py_bound body).

Definition scase_model_ok (cfg : sdeviations) (c : scase) : bool :=
  let s := ps_scan_body cfg (sc_body c) in
  forallb wf_top (sc_body c) && forallb supported (sc_body c)
  && sc_ps_ok c
  && set_eqb (st_local s) (sc_ps_local c)
  && set_eqb (st_global s) (sc_ps_global c)
  && set_eqb (st_nonlocal s) (sc_ps_nonlocal c)
  && set_eqb (py_local_list (sc_params c) (sc_body c)) (sc_py_local c)
  && set_eqb (flat_map (py_decl TgGlobal) (sc_body c)) (sc_py_global c)
  && set_eqb (flat_map (py_decl TgNonlocal) (sc_body c)) (sc_py_nonlocal c).

(* the classification pyscript actually computed, as resolve_nonlocals reads it off the three sets *)
Definition obs_is_local (c : scase) (x : ident) : bool :=
  (smem x (sc_params c) || smem x (sc_ps_local c))
  && negb (smem x (sc_ps_global c)) && negb (smem x (sc_ps_nonlocal c)).

Definition scase_spec_ok (c : scase) : bool :=
  let cand := sc_params c ++ sc_ps_local c ++ sc_ps_global c ++ sc_ps_nonlocal c ++ flat_map py_bound (sc_body c) in
  forallb (fun x => Bool.eqb (obs_is_local c x) (py_is_local (sc_params c) (sc_body c) x)) cand
  && sc_same c.

Definition sets_eqb (a b : sets) : bool :=
  set_eqb (st_local a) (st_local b) && set_eqb (st_global a) (st_global b) && set_eqb (st_nonlocal a) (st_nonlocal b).

(* Attribution of a Spec failure: starting from the measured switches, switch after switch is turned off as long as the
   Model keeps predicting the same three sets; the switches that had to stay on are a minimal set of deviations that
   reproduces what the code computed for this body (with all of them off the Model satisfies the Spec: C03_locals).
   The framework separately requires the Model under the measured switches to reproduce the observation. *)
Definition sw_list (c : sdeviations) : list bool :=
  [d_annassign c; d_comp_target c; d_import c; d_lambda_body c; d_def_outer c].
Definition sw_cfg (l : list bool) : sdeviations :=
  {| d_annassign := nth 0 l false; d_comp_target := nth 1 l false; d_import := nth 2 l false;
     d_lambda_body := nth 3 l false; d_def_outer := nth 4 l false |}.
Definition clear_nth (i : nat) (l : list bool) : list bool := firstn i l ++ false :: skipn (S i) l.

Definition scase_attrib (cfg : sdeviations) (c : scase) : list nat :=
  let target := ps_scan_body cfg (sc_body c) in
  let step l i :=
    if nth i l false && sets_eqb (ps_scan_body (sw_cfg (clear_nth i l)) (sc_body c)) target then clear_nth i l else l in
  let final := fold_left step [0; 1; 2; 3; 4]%nat (sw_list cfg) in
  flat_map (fun p => if nth (fst p) final false then [snd p] else [])
           [(0, 12); (1, 31); (2, 32); (3, 33); (4, 34)]%nat.

Definition scase_explain (cfg : sdeviations) (c : scase) :=
  (ps_scan_body cfg (sc_body c), py_local_list (sc_params c) (sc_body c),
   flat_map (py_decl TgGlobal) (sc_body c), flat_map (py_decl TgNonlocal) (sc_body c),
   (forallb wf_top (sc_body c), forallb supported (sc_body c))).

(* short constructors for the shipped trees (the Coq front end costs per token) *)
Definition nO (kids : list (fld * node)) : node := Node TgOther [] kids.
Definition nN (x : ident) : node := Node TgName [x] [].
Definition kc (n : node) : fld * node := (FChild, n).
