(* Interp/BindCheck.v — what the generated correspondence files evaluate for C03 stream "bind".
   One case = one signature + one call expression, with what the real EvalFunc.call bound (the function returns
   its locals) and what CPython bound for the same source.
   [bcase_model_ok]: Model = code  (call_ps under the measured switches reproduces pyscript) and
                     reference = CPython (call_py reproduces CPython; this validates the reference).
   [bcase_spec_ok] : what pyscript did is what the property demands (call_spec). *)
From Coq Require Import String.
From PV Require Import Common.Util Gen.BindConsts Interp.Bind.

Inductive oval :=
  | OV (b : bval)
  | OTuple (vs : list val)
  | ODict (kvs : kwargs)
  | OBad.                                   (* a value the harness could not interpret *)

Inductive obs :=
  | OBound (l : list (name * oval))         (* locals in canonical order: posonly, args, kwonly, *vararg, **kwarg *)
  | OTypeError
  | OOther.                                 (* any other exception, or a malformed result *)

Record bcase := {
  bc_def : fdef;         (* the def statement: default slots with the truthiness of their values *)
  bc_items : list citem;
  bc_ps : obs;           (* real AstEval *)
  bc_py : obs            (* CPython exec of the same source *)
}.

Definition bc_sig (c : bcase) : sig := ps_sig_of_def (bc_def c).      (* what eval_defaults hands to EvalFunc.call *)
Definition bc_pysig (c : bcase) : sig := py_sig_of_def (bc_def c).   (* what the language reference says *)

Definition obs_of (o : outcome) : obs :=
  match o with
  | TypeErr => OTypeError
  | Bound b =>
      OBound (map (fun p => (fst p, OV (snd p))) (b_params b)
              ++ match b_var b with Some (n, vs) => [(n, OTuple vs)] | None => [] end
              ++ match b_kw b with Some (n, kvs) => [(n, ODict kvs)] | None => [] end)
  end.

Definition bval_eqb (a b : bval) : bool :=
  match a, b with
  | BV x, BV y => N.eqb x y
  | BDef i, BDef j | BKwDef i, BKwDef j => Nat.eqb i j
  | _, _ => false
  end.
Definition kv_eqb (a b : name * val) : bool := String.eqb (fst a) (fst b) && N.eqb (snd a) (snd b).
Definition oval_eqb (a b : oval) : bool :=
  match a, b with
  | OV x, OV y => bval_eqb x y
  | OTuple x, OTuple y => list_eqb N.eqb x y
  | ODict x, ODict y => list_eqb kv_eqb x y
  | _, _ => false
  end.
Definition obs_eqb (a b : obs) : bool :=
  match a, b with
  | OBound x, OBound y => list_eqb (fun p q => String.eqb (fst p) (fst q) && oval_eqb (snd p) (snd q)) x y
  | OTypeError, OTypeError => true
  | _, _ => false
  end.

Definition bcase_model_ok (cfg : deviations) (c : bcase) : bool :=
  sig_wf_b (bc_sig c)
  && obs_eqb (obs_of (call_ps cfg TRIGGER_KWARGS (bc_sig c) (bc_items c))) (bc_ps c)
  && obs_eqb (obs_of (call_py (bc_pysig c) (bc_items c))) (bc_py c).

Definition bcase_spec_ok (c : bcase) : bool :=
  obs_eqb (obs_of (call_spec TRIGGER_KWARGS (bc_pysig c) (bc_items c))) (bc_ps c).

(* Attribution of a Spec failure: a minimal set of the measured switches under which the Model still predicts what it
   predicts under all of them (greedy: D11 is dropped first if D30 alone suffices, then D30); the framework separately
   requires that prediction to be the observation, and with both off the Model satisfies the Spec (C03_bind). *)
Definition bcase_attrib (cfg : deviations) (c : bcase) : list nat :=
  let run cf := obs_of (call_ps cf TRIGGER_KWARGS (bc_sig c) (bc_items c)) in
  let target := run cfg in
  let c1 := if d_posonly_kw cfg && obs_eqb (run {| d_posonly_kw := false; d_dup_kw := d_dup_kw cfg |}) target
            then {| d_posonly_kw := false; d_dup_kw := d_dup_kw cfg |} else cfg in
  let c2 := if d_dup_kw c1 && obs_eqb (run {| d_posonly_kw := d_posonly_kw c1; d_dup_kw := false |}) target
            then {| d_posonly_kw := d_posonly_kw c1; d_dup_kw := false |} else c1 in
  (if d_posonly_kw c2 then [11%nat] else []) ++ (if d_dup_kw c2 then [30%nat] else []).

Definition bcase_explain (cfg : deviations) (c : bcase) :=
  (obs_of (call_ps cfg TRIGGER_KWARGS (bc_sig c) (bc_items c)),
   obs_of (call_py (bc_pysig c) (bc_items c)),
   obs_of (call_spec TRIGGER_KWARGS (bc_pysig c) (bc_items c))).
