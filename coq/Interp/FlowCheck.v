(* Interp/FlowCheck.v — what the generated correspondence files evaluate for C02.
   A case = a skeleton + the scripts of its conditions / iterators / context managers + what the real AstEval
   and CPython each did with the same source (event log, returned value or propagated exception).
   [fcase_model_ok]: ps_exec (under the measured deviation cfg) reproduces pyscript's observation AND py_exec
                     reproduces CPython's (the latter validates the reference semantics itself);
   [fcase_spec_ok] : pyscript's observation equals CPython's (the property). *)
From PV Require Import Common.Util Interp.Flow.

(* ---------- the scripted host used by the harness ---------- *)
(* site k has a script (list of answers, 0 = false); the host state holds what is left of each script.
   c(k) / It(k).__next__ pop one answer; an exhausted script answers false and (for c) starts over;
   It(k) starts its script afresh.  A class-name site HCk is bound to the class (value - 1; 0 = the empty tuple) at
   the head of what is left of its script; sw(k) drops that head, starting over when nothing would be left. *)
Definition scripts := list (N * list N).
Fixpoint sc_get (k : N) (t : scripts) : list N :=
  match t with [] => [] | (j, l) :: r => if N.eqb j k then l else sc_get k r end.
Fixpoint sc_set (k : N) (l : list N) (t : scripts) : scripts :=
  match t with
  | [] => [(k, l)]
  | (j, l') :: r => if N.eqb j k then (k, l) :: r else (j, l') :: sc_set k l r
  end.
Definition sc_pop (full : scripts) (k : N) (cur : scripts) : bool * scripts :=
  match sc_get k cur with
  | v :: r => (negb (N.eqb v 0), sc_set k r cur)
  | [] => (false, sc_set k (sc_get k full) cur)
  end.

Definition mgr_table := list (N * (option exc * xres)).
Fixpoint mgr_get (k : N) (t : mgr_table) : option exc * xres :=
  match t with [] => (None, XRet false) | (j, b) :: r => if N.eqb j k then b else mgr_get k r end.

(* class table: class id -> ids of all its base classes including itself *)
Definition cls_table := list (N * list N).
Fixpoint cls_sub (t : cls_table) (a b : N) : bool :=
  match t with
  | [] => N.eqb a b
  | (j, anc) :: r => if N.eqb j a then existsb (N.eqb b) anc else cls_sub r a b
  end.

(* message sites of asserts: site id -> exception raised while building the message (None: builds fine) *)
Definition msg_table := list (N * option exc).
Fixpoint msg_get (j : N) (t : msg_table) : option exc :=
  match t with [] => None | (i, b) :: r => if N.eqb i j then b else msg_get j r end.

Definition chost (full : scripts) (mg : mgr_table) (ms : msg_table) (ct : cls_table) : host scripts := {|
  h_cond := sc_pop full;
  h_iter := fun k cur => sc_set k (sc_get k full) cur;
  h_next := sc_pop full;
  h_enter := fun k cur => (fst (mgr_get k mg), cur);
  h_exit := fun k _ cur => (snd (mgr_get k mg), cur);
  h_msg := fun j cur => (msg_get j ms, cur);
  h_sw := fun k cur => match sc_get k cur with _ :: (_ :: _) as r => sc_set k r cur | _ => sc_set k (sc_get k full) cur end;
  h_hget := fun k cur => match sc_get k cur with v :: _ => if N.eqb v 0 then [] else [N.pred v] | [] => [] end;
  h_sub := cls_sub ct
|}.

(* ---------- cases ---------- *)
Record obs := { o_log : list event; o_res : call_result }.
Record fcase := {
  fc_body : list stmt;
  fc_scripts : scripts;
  fc_mgrs : mgr_table;
  fc_msgs : msg_table;
  fc_ps : obs;            (* observed: the real AstEval *)
  fc_py : option obs      (* observed: CPython; None = identical to fc_ps (keeps the generated files small) *)
}.
Definition py_obs (c : fcase) : obs := match fc_py c with Some o => o | None => fc_ps c end.

Definition chk_fuel : nat := 64.

Definition oexc_eqb := option_eqb exc_eqb.
Definition oN_eqb := option_eqb N.eqb.
Definition event_eqb (a b : event) : bool :=
  match a, b with
  | EvT n, EvT n' => N.eqb n n'
  | EvC k v, EvC k' v' | EvN k v, EvN k' v' => N.eqb k k' && Bool.eqb v v'
  | EvIter k, EvIter k' | EvMk k, EvMk k' | EvEnter k, EvEnter k' => N.eqb k k'
  | EvExit k i, EvExit k' i' => N.eqb k k' && oexc_eqb i i'
  | EvP k n v, EvP k' n' v' => N.eqb k k' && N.eqb n n' && oexc_eqb v v'
  | EvRet k v, EvRet k' v' => N.eqb k k' && oN_eqb v v'
  | EvMsg j, EvMsg j' | EvSw j, EvSw j' => N.eqb j j'
  | _, _ => false
  end.
Definition cres_eqb (a b : call_result) : bool :=
  match a, b with
  | CRet v, CRet v' => oN_eqb v v'
  | CExc e, CExc e' => exc_eqb e e'
  | CFuel, CFuel => true
  | _, _ => false
  end.
Definition run_eqb (r : list event * call_result) (o : obs) : bool :=
  list_eqb event_eqb (fst r) (o_log o) && cres_eqb (snd r) (o_res o).

Definition model_ps (cfg : deviations) (ct : cls_table) (c : fcase) : list event * call_result :=
  ps_exec (chost (fc_scripts c) (fc_mgrs c) (fc_msgs c) ct) cfg chk_fuel (fc_body c) (fc_scripts c).
Definition model_py (ct : cls_table) (c : fcase) : list event * call_result :=
  py_exec (chost (fc_scripts c) (fc_mgrs c) (fc_msgs c) ct) chk_fuel (fc_body c) (fc_scripts c).

Definition fcase_model_ok (cfg : deviations) (ct : cls_table) (c : fcase) : bool :=
  supported (fc_body c) && run_eqb (model_ps cfg ct c) (fc_ps c) && run_eqb (model_py ct c) (py_obs c).

Definition fcase_spec_ok (c : fcase) : bool :=
  list_eqb event_eqb (o_log (fc_ps c)) (o_log (py_obs c)) && cres_eqb (o_res (fc_ps c)) (o_res (py_obs c)).

(* ---------- attribution of a Spec failure to open findings ---------- *)
(* the smallest set of measured-on switches under which the Model reproduces what pyscript did (with none of
   them on the Model is the reference, which reproduces CPython: that is fcase_model_ok's second half) *)
Definition restrict (cfg : deviations) (m : list bool) : deviations :=
  match m with
  | [a; b; c; d; e; f] =>
      {| d8_else_drops_jump := a && d8_else_drops_jump cfg; d9_with_flat := b && d9_with_flat cfg;
         d10_base_uncaught := c && d10_base_uncaught cfg; d200_unbind_keyerror := d && d200_unbind_keyerror cfg;
         d201_enter_in_try := e && d201_enter_in_try cfg; d202_asyncfor_sync := f && d202_asyncfor_sync cfg |}
  | _ => cfg
  end.
Definition dev_numbers (m : list bool) : list nat :=
  concat (map (fun p : bool * nat => if fst p then [snd p] else []) (combine m [8; 9; 10; 200; 201; 202]%nat)).
Fixpoint masks (n : nat) : list (list bool) :=
  match n with O => [[]] | S n' => map (cons false) (masks n') ++ map (cons true) (masks n') end.
Definition mask_size (m : list bool) : nat := length (filter (fun b => b) m).
(* masks of the 6 switches ordered by number of switches on (stable) *)
Definition masks_by_size : list (list bool) :=
  concat (map (fun k => filter (fun m => Nat.eqb (mask_size m) k) (masks 6)) [1; 2; 3; 4; 5; 6]%nat).
Definition mask_within (cfg : deviations) (m : list bool) : bool :=
  match m with
  | [a; b; c; d; e; f] =>
      implb a (d8_else_drops_jump cfg) && implb b (d9_with_flat cfg) && implb c (d10_base_uncaught cfg)
      && implb d (d200_unbind_keyerror cfg) && implb e (d201_enter_in_try cfg) && implb f (d202_asyncfor_sync cfg)
  | _ => false
  end.
Definition fcase_attrib (cfg : deviations) (ct : cls_table) (c : fcase) : list nat :=
  if fcase_spec_ok c then []
  else if negb (run_eqb (model_py ct c) (py_obs c)) then []
  else
    match find (fun m => mask_within cfg m && run_eqb (model_ps (restrict cfg m) ct c) (fc_ps c)) masks_by_size with
    | Some m => dev_numbers m
    | None => []
    end.

Definition fcase_explain (cfg : deviations) (ct : cls_table) (c : fcase) :=
  (model_ps cfg ct c, model_py ct c, supported (fc_body c)).
