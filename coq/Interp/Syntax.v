(* Interp/Syntax.v — abstract syntax of the Python subset of C01 (expressions and assignments).
   Mirrors Python's [ast] module: targets are expressions (Name/Tuple/List/Starred/Subscript/Attribute in
   Store position), [EStarred] and [ESlice] are expression nodes that are only meaningful inside displays /
   call arguments / subscripts.  Identifiers, attribute names, keyword names and string constants are ids
   into one string table kept by the harness.  C02 extends [stmt]; nothing here is about evaluation. *)
From Coq Require Import List NArith ZArith Bool.
Import ListNotations.

Definition ident := N.

Inductive binop := OAdd | OSub | OMult | ODiv | OMod | OPow | OLShift | ORShift | OBitOr | OBitXor | OBitAnd | OFloorDiv.
Inductive unop := UNot | UInvert | UPos | UNeg.
Inductive pcmp := CmEq | CmNe | CmLt | CmLe | CmGt | CmGe | CmIs | CmIsNot | CmIn | CmNotIn.
Inductive boolop := BAnd | BOr.
Inductive conv := ConvNone | ConvStr | ConvRepr | ConvAscii.

(* constants: a str is its list of code points; the payload of float / bytes literals is an id into the harness'
   table (0 = the falsy one: 0.0, b'') *)
Inductive const :=
  | CNone | CBool (b : bool) | CInt (z : Z) | CStr (s : list N) | CFloat (s : N) | CBytes (s : N) | CEllipsis.

Inductive expr :=
  | EConst (c : const)
  | EName (x : ident)
  | EBinOp (o : binop) (a b : expr)
  | EUnaryOp (o : unop) (a : expr)
  | EBoolOp (o : boolop) (a : expr) (rest : list expr)            (* values = a :: rest *)
  | ECompare (a : expr) (o : pcmp) (b : expr) (rest : list (pcmp * expr))
  | EIfExp (c a b : expr)
  | ECall (f : expr) (args : list expr) (kws : list (option (list N) * expr))   (* keyword name as str; None = **mapping *)
  | EStarred (e : expr)
  | EList (es : list expr)
  | ETuple (es : list expr)
  | ESet (es : list expr)
  | EDict (items : list (option expr * expr))                       (* None key = **mapping *)
  | ESubscript (v i : expr)
  | ESlice (lo hi st : option expr)
  | EAttribute (v : expr) (a : ident)
  | ENamedExpr (x : ident) (v : expr)
  | EListComp (elt : expr) (gens : list (expr * expr * list expr))   (* (target, iter, ifs) *)
  | ESetComp (elt : expr) (gens : list (expr * expr * list expr))
  | EDictComp (k v : expr) (gens : list (expr * expr * list expr))
  | EJoinedStr (parts : list expr)
  | EFormattedValue (v : expr) (c : conv) (spec : option expr).

Definition comp : Type := (expr * expr * list expr)%type.

Inductive stmt :=
  | SExpr (e : expr)
  | SAssign (targets : list expr) (v : expr)
  | SAugAssign (t : expr) (o : binop) (v : expr)
  | SDelete (targets : list expr)
  | SPass.

Definition program := list stmt.

(* ---------- decidable equalities used by the models ---------- *)
Definition binop_eqb (a b : binop) : bool :=
  match a, b with
  | OAdd, OAdd | OSub, OSub | OMult, OMult | ODiv, ODiv | OMod, OMod | OPow, OPow | OLShift, OLShift
  | ORShift, ORShift | OBitOr, OBitOr | OBitXor, OBitXor | OBitAnd, OBitAnd | OFloorDiv, OFloorDiv => true
  | _, _ => false
  end.
Definition unop_eqb (a b : unop) : bool :=
  match a, b with UNot, UNot | UInvert, UInvert | UPos, UPos | UNeg, UNeg => true | _, _ => false end.
Definition pcmp_eqb (a b : pcmp) : bool :=
  match a, b with
  | CmEq, CmEq | CmNe, CmNe | CmLt, CmLt | CmLe, CmLe | CmGt, CmGt | CmGe, CmGe | CmIs, CmIs | CmIsNot, CmIsNot
  | CmIn, CmIn | CmNotIn, CmNotIn => true
  | _, _ => false
  end.
Definition conv_eqb (a b : conv) : bool :=
  match a, b with ConvNone, ConvNone | ConvStr, ConvStr | ConvRepr, ConvRepr | ConvAscii, ConvAscii => true | _, _ => false end.
Definition const_eqb (a b : const) : bool :=
  match a, b with
  | CNone, CNone | CEllipsis, CEllipsis => true
  | CBool x, CBool y => Bool.eqb x y
  | CInt x, CInt y => Z.eqb x y
  | CStr x, CStr y => (fix eq (a b : list N) : bool := match a, b with [] , [] => true | c :: a', d :: b' => N.eqb c d && eq a' b' | _, _ => false end) x y
  | CFloat x, CFloat y | CBytes x, CBytes y => N.eqb x y
  | _, _ => false
  end.
