(* Interp/BuiltinHost.v — a small concrete host over builtin values (ints, bools, None, strings ids, native
   containers, a few opaque objects) used (a) to show that the host hypotheses H1/H2 of the C01 theorems are
   inhabited and (b) as the host of the witnesses of C01_refuted_Dk.  Object 0 is the tracer t(k, e) -> e,
   object 1 a function f( *args, **kw) -> first positional argument or None, other objects accept subscripting,
   attributes and the arithmetic operators (binary: a fresh object, in place: the same object).
   Host state: next fresh object id.  No proofs here. *)
From Coq Require Import List NArith ZArith Bool.
From PV Require Import Interp.Syntax Interp.Host Interp.PsEval.
Import ListNotations.

Definition bh_state := N.

Definition bh_truth (v : value) : bool :=
  match v with
  | VConst (CBool b) => b
  | VConst CNone => false
  | VConst (CInt z) => negb (Z.eqb z 0)
  | VConst (CStr s) => match s with [] => false | _ => true end
  | VConst (CBytes s) | VConst (CFloat s) => negb (N.eqb s 0)
  | VConst CEllipsis => true
  | VList l | VTuple l | VSet l => match l with [] => false | _ => true end
  | VDict l => match l with [] => false | _ => true end
  | VSlice _ _ _ => true
  | VObj _ => true
  end.

Definition bh_arith (o : binop) (a b : Z) : option Z :=
  match o with
  | OAdd => Some (a + b)%Z
  | OSub => Some (a - b)%Z
  | OMult => Some (a * b)%Z
  | OBitOr => Some (Z.lor a b)
  | OBitAnd => Some (Z.land a b)
  | OBitXor => Some (Z.lxor a b)
  | _ => None
  end.

Definition bh_cmp (o : pcmp) (a b : Z) : bool :=
  match o with
  | CmLt => Z.ltb a b | CmLe => Z.leb a b | CmGt => Z.ltb b a | CmGe => Z.leb b a
  | CmEq => Z.eqb a b | _ => negb (Z.eqb a b)
  end.

Definition bh_binop (inplace : bool) (o : binop) (a b : value) (h : bh_state) : bh_state * pres :=
  match a, b with
  | VConst (CInt x), VConst (CInt y) =>
      match bh_arith o x y with Some z => (h, PRet (VConst (CInt z))) | None => (h, PRaise ExTypeError) end
  | VList x, VList y => match o with OAdd => (h, PRet (VList (x ++ y))) | _ => (h, PRaise ExTypeError) end
  | VObj x, _ => if inplace then (h, PRet (VObj x)) else ((h + 1)%N, PRet (VObj h))
  | _, _ => (h, PRaise ExTypeError)
  end.

Definition bh_prim (op : primop) (args : list value) (h : bh_state) : bh_state * pres :=
  match op, args with
  | PTruth, [v] => (h, PRet (VBool (bh_truth v)))
  | PBin o, [a; b] => bh_binop false o a b h
  | PIBin o, [a; b] => bh_binop true o a b h
  | PUn UPos, [VConst (CBool b)] => (h, PRet (VConst (CInt (if b then 1 else 0))))
  | PUn UPos, [VConst (CInt z)] => (h, PRet (VConst (CInt z)))
  | PUn UNeg, [VConst (CInt z)] => (h, PRet (VConst (CInt (- z))))
  | PUn _, [VObj x] => ((h + 1)%N, PRet (VObj h))
  | PCmp o, [VConst (CInt x); VConst (CInt y)] => (h, PRet (VBool (bh_cmp o x y)))
  | PCmp CmEq, [a; b] => (h, PRet (VBool (value_eqb a b)))
  | PCmp CmNe, [a; b] => (h, PRet (VBool (negb (value_eqb a b))))
  | PContains, [VList l; x] | PContains, [VTuple l; x] | PContains, [VSet l; x] => (h, PRet (VBool (existsb (value_eqb x) l)))
  | PGetItem, [VObj _; _] => (h, PRet (VConst (CInt 0)))
  | PSetItem, [VObj _; _; _] | PDelItem, [VObj _; _] => (h, PRet VNone)
  | PGetAttr _, [VObj _] => (h, PRet (VConst (CInt 0)))
  | PSetAttr _, [VObj _; _] | PDelAttr _, [VObj _] => (h, PRet VNone)
  | PCall, [VObj 0%N; VTuple [_; e]; VDict []] => (h, PRet e)
  | PCall, [VObj 1%N; VTuple args; VDict _] => (h, PRet (match args with a :: _ => a | [] => VNone end))
  | PConv _, [_] => (h, PRet (VStrId [114%N]))
  | PFormat, [VConst (CStr s); _] => (h, PRet (VStrId s))
  | PFormat, [_; _] => (h, PRet (VStrId [102%N]))
  | _, _ => (h, PRaise ExTypeError)
  end.

Definition bh_hashable (o : N) : bool := true.

(* names used by the example programs *)
Definition n_t : ident := 1%N.   Definition n_f : ident := 2%N.   Definition n_o : ident := 3%N.
Definition n_a : ident := 4%N.   Definition n_x : ident := 5%N.   Definition n_y : ident := 6%N.
Definition n_z : ident := 7%N.   Definition n_d : ident := 8%N.   Definition n_i : ident := 9%N.
Definition n_k : list N := [107%N].      (* the string 'k' (keyword name and dict key) *)
Definition n_v : list N := [118%N].
Definition bh_env : env := [(n_t, VObj 0); (n_f, VObj 1); (n_o, VObj 2); (n_a, VObj 3)].
Definition bh_init : bh_state := 10%N.

Definition tr (k : Z) (e : expr) : expr := ECall (EName n_t) [EConst (CInt k); e] [].
Definition int (z : Z) : expr := EConst (CInt z).

(* exactly one deviation switched on *)
Definition only_dev (k : nat) : deviations :=
  {| d_dict_value_first := Nat.eqb k 1; d_call_kw_first := Nat.eqb k 2; d_compare_reeval := Nat.eqb k 3;
     d_aug_target_twice := Nat.eqb k 4; d_fstring_conv := Nat.eqb k 5; d_list_target := Nat.eqb k 6;
     d_del_attr_state := Nat.eqb k 7; d_aug_not_inplace := Nat.eqb k 100; d_uadd_identity := Nat.eqb k 101;
     d_dict_eager_insert := Nat.eqb k 102; d_kw_dup_silent := Nat.eqb k 103; d_comp_leak_on_exc := Nat.eqb k 104;
     d_set_late_hash := Nat.eqb k 105; d_fstr_conv_early := false; d_unpack_drain := false |}.

(* the witnesses of the findings, as Syntax terms (the same programs as in known_findings.d/C01.json) *)
Definition w_D1 : program := [SAssign [EName n_d] (EDict [(Some (tr 1 (EConst (CStr n_k))), tr 2 (EConst (CStr n_v)))])].
Definition w_D2 : program :=
  [SAssign [EName n_x] (ECall (EName n_f) [tr 1 (int 1); EStarred (tr 2 (EList [int 2]))] [(Some n_k, tr 3 (int 3))])].
Definition w_D3 : program := [SAssign [EName n_z] (ECompare (tr 1 (int 1)) CmLt (tr 2 (int 2)) [(CmLt, tr 3 (int 3))])].
Definition w_D4 : program := [SAugAssign (ESubscript (EName n_a) (tr 1 (int 0))) OAdd (int 1)].
Definition w_D5 : program := [SAssign [EName n_x] (EJoinedStr [EFormattedValue (tr 1 (int 5)) ConvRepr None])].
Definition w_D6 : program := [SAssign [EList [EName n_x; EName n_y]] (EList [int 1; int 2])].
Definition w_D7 : program := [SAssign [EAttribute (EName n_o) n_x] (int 1); SDelete [EAttribute (EName n_o) n_x]].
Definition w_D100 : program := [SAssign [EName n_y] (EName n_a); SAugAssign (EName n_a) OAdd (tr 1 (EList [int 2]))].
Definition w_D101 : program := [SAssign [EName n_x] (EUnaryOp UPos (tr 1 (EConst (CBool true))))].
Definition w_D102 : program :=
  [SAssign [EName n_x] (EDict [(Some (int 2), tr 1 (int 3)); (Some (tr 2 (EList [])), int 1); (Some (int 3), tr 3 (int 4))])].
Definition w_D103 : program :=
  [SAssign [EName n_x] (ECall (EName n_f) [] [(Some n_k, int 1); (None, EDict [(Some (EConst (CStr n_k)), int 2)])])].
Definition w_D104 : program :=
  [SAssign [EName n_x] (EListComp (EBinOp OAdd (tr 1 (EName n_i)) (EConst (CStr n_k))) [(EName n_i, EList [int 1; int 2], [])])].
Definition w_D105 : program := [SAssign [EName n_x] (ESet [tr 1 (EList []); EStarred (tr 2 (EList [int 1]))])].

(* a non-trivial conformant program: three-generator comprehension with a walrus and a starred call *)
Definition w_example : program :=
  [SAssign [EName n_x]
     (EListComp (ECall (EName n_f) [EStarred (ETuple [ENamedExpr n_z (tr 1 (EName n_i)); EName n_y])] [(Some n_k, tr 2 (EName n_d))])
        [(EName n_i, EList [int 1; int 2], []);
         (EName n_y, ETuple [int 3; int 4], [ECompare (EName n_i) CmLt (EName n_y) [(CmLt, tr 3 (int 9))]]);
         (EName n_d, EList [int 5], [EBoolOp BAnd (EName n_d) [tr 4 (EName n_i)]])]);
   SAugAssign (ESubscript (EName n_a) (tr 5 (int 0))) OAdd (EName n_z)].
