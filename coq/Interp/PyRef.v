(* Interp/PyRef.v — reference semantics of the same subset, written from the Python Language Reference
   (section 6 "Expressions", section 7.1-7.5 "Simple statements") and, where the Reference leaves the moment of
   an error open (hashing of display elements), from CPython 3.12's documented evaluation order.  Written
   independently of PsEval's structure: operands left to right, each exactly once.  Same fuel discipline as
   PsEval (one unit per descent into a child node) so that the two can be compared at every fuel.  No proofs. *)
From Coq Require Import List NArith ZArith Bool.
From PV Require Import Interp.Syntax Interp.Host.
Import ListNotations.

Section Py.
  Variable hstate : Type.
  Variable prim : primop -> list value -> hstate -> hstate * pres.
  Variable obj_hashable : N -> bool.
  Notation M := (M hstate).
  Notation do_prim := (do_prim hstate prim).
  Notation truth := (truth hstate prim).
  Notation do_call := (do_call hstate prim).
  Notation do_format := (do_format hstate prim).
  Notation do_conv := (do_conv hstate prim).
  Notation to_list := (to_list hstate prim).
  Notation cmp_apply := (cmp_apply hstate prim).
  Notation open_cursor := (open_cursor hstate prim).
  Notation for_each := (for_each hstate prim).
  Notation hashable := (hashable obj_hashable).
  Notation mk_set := (mk_set obj_hashable).
  Notation dict_put := (dict_put obj_hashable).
  Notation set_put := (set_put obj_hashable).
  Notation set_add_all := (set_add_all obj_hashable).
  Notation items_exact := (items_exact hstate prim).
  Notation items_star := (items_star hstate prim).
  Notation unpack_targets := (unpack_targets hstate prim).

  Section Rules.
    Variable ev : expr -> M value.              (* evaluation of a child expression *)
    Variable asg : expr -> value -> M unit.     (* assignment of an object to a child target *)
    Variable f : nat.

    (* 6.11 "x and y": x is evaluated; if false its value is returned, otherwise y is evaluated and its value
       returned.  "x or y" dually.  [BoolOp] groups equal operators, applied left to right. *)
    Fixpoint py_bool (o : boolop) (x : expr) (ys : list expr) : M value :=
      match ys with
      | [] => ev x
      | y :: r =>
          bind (ev x) (fun vx => bind (truth vx) (fun t =>
            match o with
            | BAnd => if t then py_bool o y r else ret vx
            | BOr => if t then ret vx else py_bool o y r
            end))
      end.

    (* 6.10 "a op1 b op2 c ... y opN z is equivalent to a op1 b and b op2 c and ... y opN z, except that each
       expression is evaluated at most once"; [a] is the already evaluated left operand *)
    Fixpoint py_chain (a : value) (o : pcmp) (e : expr) (more : list (pcmp * expr)) : M value :=
      match more with
      | [] => bind (ev e) (fun b => cmp_apply o a b)
      | (o2, e2) :: r =>
          bind (ev e) (fun b => bind (cmp_apply o a b) (fun c => bind (truth c) (fun t =>
            if t then py_chain b o2 e2 r else ret c)))
      end.

    (* 6.2.5-6.2.7, 6.15: the elements of a display / positional arguments are evaluated left to right; an
       iterable after [*] is expanded at its place *)
    Fixpoint py_items (es : list expr) : M (list value) :=
      match es with
      | [] => ret []
      | e :: r =>
          bind (match e with
                | EStarred x => bind (ev x) (fun v => to_list f v)
                | _ => bind (ev e) (fun v => ret [v])
                end) (fun here => bind (py_items r) (fun rest => ret (here ++ rest)))
      end.

    (* 6.2.6 set display: CPython builds the set from the elements that precede the first [*] element and then adds
       every further element (or the items of every further iterable) as soon as it is evaluated *)
    Fixpoint leading (es : list expr) : list expr * list expr :=
      match es with
      | [] => ([], [])
      | EStarred x :: r => ([], es)
      | e :: r => let '(a, b) := leading r in (e :: a, b)
      end.
    Fixpoint py_set_more (es : list expr) (acc : list value) : M (list value) :=
      match es with
      | [] => ret acc
      | e :: r =>
          bind (match e with
                | EStarred x =>
                    (* set.update(iterable): each item is hashed as soon as the iterator yields it *)
                    bind (ev x) (fun v => bind (open_cursor v) (fun c =>
                      bind (for_each f c (fun item => if hashable item then ret [item] else raise ExTypeError) [])
                           (fun items => set_add_all items acc)))
                | _ => bind (ev e) (fun v => set_put v acc)
                end) (fun acc' => py_set_more r acc')
      end.
    Definition py_set (es : list expr) : M value :=
      let '(first, more) := leading es in
      bind (py_items first) (fun vs => bind (set_add_all vs []) (fun s0 => bind (py_set_more more s0) (fun s1 => ret (VSet s1)))).

    (* 6.3.4 keyword arguments: left to right after the positional ones; a keyword given twice is a TypeError *)
    Definition py_kw_add (k v : value) (d : list (value * value)) : M (list (value * value)) :=
      if existsb (fun p => value_eqb k (fst p)) d then raise ExTypeError else ret (d ++ [(k, v)]).
    Fixpoint py_kw_add_all (m d : list (value * value)) : M (list (value * value)) :=
      match m with
      | [] => ret d
      | (k, v) :: r => bind (py_kw_add k v d) (fun d' => py_kw_add_all r d')
      end.
    Fixpoint py_keywords (kws : list (option (list N) * expr)) (d : list (value * value)) : M (list (value * value)) :=
      match kws with
      | [] => ret d
      | (name, e) :: r =>
          bind (ev e) (fun v =>
            bind (match name with
                  | Some k => py_kw_add (VStrId k) v d
                  | None => bind (to_dict v) (fun m => py_kw_add_all m d)
                  end) (fun d' => py_keywords r d'))
      end.

    (* 6.2.7 dict display: "key/datum pairs are evaluated from left to right to define the entries"; a later
       pair with an equal key prevails; [**m] unpacks a mapping at its place.  CPython stores a run of
       evaluated pairs when it meets [**] or the end of the display. *)
    Fixpoint py_store_pairs (pairs d : list (value * value)) : M (list (value * value)) :=
      match pairs with
      | [] => ret d
      | (k, v) :: r => if hashable k then py_store_pairs r (dict_set k v d) else raise ExTypeError
      end.
    Fixpoint py_dict (items : list (option expr * expr)) (run d : list (value * value)) : M (list (value * value)) :=
      match items with
      | [] => py_store_pairs run d
      | (Some k, e) :: r => bind (ev k) (fun kv => bind (ev e) (fun v => py_dict r (run ++ [(kv, v)]) d))
      | (None, e) :: r =>
          bind (py_store_pairs run d) (fun d1 => bind (ev e) (fun mv => bind (to_dict mv) (fun m => py_dict r [] (dict_update m d1))))
      end.

    Definition py_bound (o : option expr) : M value :=
      match o with None => ret VNone | Some e => ev e end.

    (* 6.2.4 comprehensions: the [for]/[if] clauses nest left to right; the element is evaluated each time the
       innermost block is reached *)
    Fixpoint py_ifs (cs : list expr) : M bool :=
      match cs with
      | [] => ret true
      | c :: r => bind (ev c) (fun v => bind (truth v) (fun t => if t then py_ifs r else ret false))
      end.
    Fixpoint py_clauses (gens : list comp) (element : M (list value)) : M (list value) :=
      match gens with
      | [] => element
      | (target, iterable, conds) :: inner =>
          bind (ev iterable) (fun it => bind (open_cursor it) (fun c =>
            for_each f c (fun item =>
              bind (asg target item) (fun _ => bind (py_ifs conds) (fun pass =>
                if pass then py_clauses inner element else ret []))) []))
      end.
    (* "the comprehension is executed in a separate implicitly nested scope.  This ensures that names assigned
       to in the target list don't leak into the enclosing scope": the names bound by the clause targets are
       put back to what the enclosing scope held *)
    Fixpoint bound_names (fuel : nat) (t : expr) : list ident :=
      match fuel with
      | O => []
      | S n =>
        match t with
        | EName x => [x]
        | EStarred (EName x) => [x]
        | ETuple ts => flat_map (bound_names n) ts
        | _ => []
        end
      end.
    Definition unleak (gens : list comp) (outer : env) : M unit :=
      bind get_env (fun now =>
        put_env (fold_left (fun e x => match env_get x outer with None => env_del x e | Some v => env_set x v e end)
                           (flat_map (fun g => bound_names 50 (fst (fst g))) gens) now)).
    Definition py_nested (gens : list comp) (m : M value) : M value :=
      bind get_env (fun outer => ensure m (unleak gens outer)).

    Definition py_dict_of (l : list value) : list (value * value) :=
      fold_left (fun d p => match p with VTuple [k; v] => dict_set k v d | _ => d end) l [].

    (* 2.4.3 / 6.2 f-strings: the pieces (literal text and formatted replacement fields) left to right, concatenated *)
    Fixpoint py_pieces (ps : list expr) : M (list N) :=
      match ps with
      | [] => ret []
      | p :: r => bind (ev p) (fun v => match v with
                                        | VConst (CStr s) => bind (py_pieces r) (fun rest => ret (s ++ rest))
                                        | _ => raise ExUnsupported
                                        end)
      end.

    (* 7.2 target lists: the rule is [unpack_targets] in Interp/Host.v (shared with the conformant branch of PsEval) *)
    Definition py_unpack (ts : list expr) (v : value) : M unit := unpack_targets asg f ts v.

    Definition py_expr_rule (e : expr) : M value :=
      match e with
      | EConst c => ret (VConst c)                                           (* 6.2.2 literals *)
      | EName x => lookup x                                                  (* 6.2.1: unbound -> NameError *)
      | EBinOp o a b => bind (ev a) (fun x => bind (ev b) (fun y => do_prim (PBin o) [x; y]))     (* 6.7-6.9 *)
      | EUnaryOp o a =>                                                       (* 6.6, 6.11 *)
          bind (ev a) (fun x => match o with
                                | UNot => bind (truth x) (fun t => ret (VBool (negb t)))
                                | _ => do_prim (PUn o) [x]
                                end)
      | EBoolOp o a rest => py_bool o a rest
      | ECompare a o b rest => bind (ev a) (fun x => py_chain x o b rest)
      | EIfExp c a b => bind (ev c) (fun x => bind (truth x) (fun t => if t then ev a else ev b))   (* 6.13 *)
      | ECall fn args kws =>                                                  (* 6.3.4 *)
          bind (ev fn) (fun callee =>
            match args with
            | [EStarred x] =>
                (* CPython hands a lone *iterable to the call unexpanded: it is iterated after the keyword values *)
                bind (ev x) (fun it => bind (py_keywords kws []) (fun kw => bind (to_list f it) (fun pos => do_call callee pos kw)))
            | _ => bind (py_items args) (fun pos => bind (py_keywords kws []) (fun kw => do_call callee pos kw))
            end)
      | EStarred _ => raise ExUnsupported
      | EList es => bind (py_items es) (fun l => ret (VList l))
      | ETuple es => bind (py_items es) (fun l => ret (VTuple l))
      | ESet es => py_set es
      | EDict items => bind (py_dict items [] []) (fun d => ret (VDict d))
      | ESubscript v i => bind (ev v) (fun x => bind (ev i) (fun k => do_prim PGetItem [x; k]))     (* 6.3.2 *)
      | ESlice lo hi st =>                                                    (* 6.3.3 *)
          bind (py_bound lo) (fun a => bind (py_bound hi) (fun b => bind (py_bound st) (fun c => ret (VSlice a b c))))
      | EAttribute v a => bind (ev v) (fun x => do_prim (PGetAttr a) [x])    (* 6.3.1 *)
      | ENamedExpr x v => bind (ev v) (fun y => bind (store x y) (fun _ => ret y))                  (* 6.12 *)
      | EListComp elt gens =>
          py_nested gens (bind (py_clauses gens (bind (ev elt) (fun v => ret [v]))) (fun l => ret (VList l)))
      | ESetComp elt gens =>
          py_nested gens (bind (py_clauses gens (bind (ev elt) (fun v => if hashable v then ret [v] else raise ExTypeError)))
                            (fun l => ret (VSet (set_of_list l []))))
      | EDictComp k v gens =>
          py_nested gens (bind (py_clauses gens (bind (ev k) (fun x => bind (ev v) (fun y =>
                                  if hashable x then ret [VTuple [x; y]] else raise ExTypeError))))
                            (fun l => ret (VDict (py_dict_of l))))
      | EJoinedStr parts => bind (py_pieces parts) (fun s => ret (VConst (CStr s)))
      | EFormattedValue v c spec =>
          (* the expression and the expressions of the format spec are evaluated first; then the conversion (!s !r !a)
             is applied to the value and the resulting string is formatted with the spec (CPython: one FORMAT_VALUE) *)
          bind (ev v) (fun x => bind (match spec with Some sp => ev sp | None => ret VEmptyStr end) (fun fmt =>
            bind (do_conv c x) (fun y => do_format y fmt)))
      end.

    (* 7.2 assignment of an object to a single target *)
    Definition py_assign_rule (t : expr) (v : value) : M unit :=
      match t with
      | EName x => store x v
      | ETuple ts | EList ts => py_unpack ts v
      | EAttribute o a => bind (ev o) (fun x => bind (do_prim (PSetAttr a) [x; v]) (fun _ => ret tt))
      | ESubscript o i => bind (ev o) (fun x => bind (ev i) (fun k => bind (do_prim PSetItem [x; k; v]) (fun _ => ret tt)))
      | _ => raise ExUnsupported
      end.

    Fixpoint py_targets (ts : list expr) (v : value) : M unit :=
      match ts with
      | [] => ret tt
      | t :: r => bind (asg t v) (fun _ => py_targets r v)
      end.

    (* 7.5 del: each target left to right *)
    Definition py_del (t : expr) : M unit :=
      match t with
      | EName x => unbind x
      | EAttribute o a => bind (ev o) (fun x => bind (do_prim (PDelAttr a) [x]) (fun _ => ret tt))
      | ESubscript o i => bind (ev o) (fun x => bind (ev i) (fun k => bind (do_prim PDelItem [x; k]) (fun _ => ret tt)))
      | _ => raise ExUnsupported
      end.
    Fixpoint py_dels (ts : list expr) : M unit :=
      match ts with
      | [] => ret tt
      | t :: r => bind (py_del t) (fun _ => py_dels r)
      end.

    Definition py_stmt_rule (s : stmt) : M unit :=
      match s with
      | SExpr e => bind (ev e) (fun _ => ret tt)                              (* 7.1 *)
      | SAssign ts e => bind (ev e) (fun v => py_targets ts v)                (* 7.2: "from left to right" *)
      | SAugAssign t o e =>
          (* 7.2.1: the target is evaluated once, then the expression, then the in-place operation, then the
             result is assigned to the original target *)
          match t with
          | EName x =>
              bind (ev t) (fun old => bind (ev e) (fun v => bind (do_prim (PIBin o) [old; v]) (fun new => asg t new)))
          | EAttribute ob a =>
              bind (ev ob) (fun x => bind (do_prim (PGetAttr a) [x]) (fun old => bind (ev e) (fun v =>
              bind (do_prim (PIBin o) [old; v]) (fun new => bind (do_prim (PSetAttr a) [x; new]) (fun _ => ret tt)))))
          | ESubscript ob i =>
              bind (ev ob) (fun x => bind (ev i) (fun k => bind (do_prim PGetItem [x; k]) (fun old => bind (ev e) (fun v =>
              bind (do_prim (PIBin o) [old; v]) (fun new => bind (do_prim PSetItem [x; k; new]) (fun _ => ret tt))))))
          | _ => raise ExUnsupported
          end
      | SDelete ts => py_dels ts
      | SPass => ret tt
      end.
  End Rules.

  Fixpoint py_expr (fuel : nat) (e : expr) : M value :=
    match fuel with
    | O => nofuel
    | S n => py_expr_rule (py_expr n) (py_assign n) n e
    end
  with py_assign (fuel : nat) (t : expr) (v : value) : M unit :=
    match fuel with
    | O => nofuel
    | S n => py_assign_rule (py_expr n) (py_assign n) n t v
    end.

  Definition py_stmt (fuel : nat) (s : stmt) : M unit :=
    match fuel with
    | O => nofuel
    | S n => py_stmt_rule (py_expr n) (py_assign n) s
    end.

  Fixpoint py_block (fuel : nat) (p : program) : M unit :=
    match p with
    | [] => ret tt
    | s :: r => bind (py_stmt fuel s) (fun _ => py_block fuel r)
    end.

  Definition py_run (fuel : nat) (p : program) (h : hstate) (e : env) : option (run_result hstate) :=
    finish (py_block fuel p (init_state h e)).
End Py.
