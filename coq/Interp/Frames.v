(* Interp/Frames.v — C18, attribution core.  Executable model, NO proofs (see Proofs/InterpFrames.v).

   What is modelled (eval.py):
   * the chain of interpreter frames found in [exc.__traceback__] when an exception escapes from user code run by
     AstEval: one [AstEval.aeval] frame per AST node on the path to the fault, [AstEval.call_func] and
     [EvalFunc.call] frames at every pyscript-function call, [AstEval.eval] of an imported module's interpreter,
     frames of other source files (trigger.py, global_ctx.py: "real" frames) and all remaining eval.py frames
     (ast_call, ast_binop, listcomp_loop, EvalFuncVar.call ...: [FOther]);
   * [EvalExceptionFormatter._build_stack / ast_frame / real_frame] as a left fold [step] over that chain, and the
     cause/context recursion of [__init__]/[format] ([format_exc]);
   * the reference: the (file, function, line) entries of CPython's own traceback for the same program.

   Programs are written in a mini language of statements and expressions that carry only what attribution depends
   on: AST nodes with their line numbers, which node faults, where user functions are called (plain / method /
   comprehension element / decorator wrapper / function of an imported module are all "a call node + a callee
   activation"), where modules are imported, and try statements that swallow, pass on or chain an exception.  A
   program is given *unfolded along its run*: every activation has its own entry in the function table (a
   recursive function appears once per activation, with the same file and name).

   One generic evaluator [g_expr/g_stmt] is instantiated twice: with the algebra of pyscript's interpreter frames
   ([ps_*]) and with the algebra of CPython traceback entries ([py_*]).  Which statement faults first is the same
   for both by construction (that part of "runs like Python" is C01/C02's business, not C18's). *)
From PV Require Import Common.Util.

Definition line := N.
Definition fileid := N.          (* 0 = not a script file (pyscript / Home Assistant / library source) *)
Definition nameid := N.          (* function names and non-module interpreter names; the harness keeps the string table *)

(* a frame's function name: module level of script file f ('<module>' in CPython, the global context's name in
   pyscript; the harness maps both to [FnModule f]) or any other name *)
Inductive fname := FnModule (f : fileid) | FnNamed (n : nameid).
Definition triple : Type := (fileid * fname * line).

Definition fname_eqb (a b : fname) : bool :=
  match a, b with
  | FnModule f, FnModule g => N.eqb f g
  | FnNamed n, FnNamed m => N.eqb n m
  | _, _ => false
  end.
Definition triple_eqb (t u : triple) : bool :=
  let '(f, n, l) := t in let '(g, m, k) := u in N.eqb f g && fname_eqb n m && N.eqb l k.
Definition same_fn (t u : triple) : bool :=
  let '(f, n, _) := t in let '(g, m, _) := u in N.eqb f g && fname_eqb n m.

(* ---------- deviation switches: on = what the code does today, all off = conformant ---------- *)
Record deviations := mkDev {
  d_merge_same_name : bool;  (* D182 ast_frame replaces the previous entry whenever (filename, name) are equal: a call
                                     to a function of the same name in the same file (recursion) collapses into one entry *)
  d_deco_rename : bool;      (* D183 ast_functiondef renames the function returned by a user decorator to the decorated
                                     function's name (set_name): the wrapper's frame carries the wrong name *)
  d_chain_ctx : bool;        (* D184 an aeval frame not preceded by an EvalFunc.call frame (start of the traceback of an
                                     exception caught inside a function) is attributed to the interpreter object's
                                     file/name instead of the running function's *)
  d_node_start_line : bool;  (* D185 the line is the AST node's lineno where CPython uses the position of the instruction: a
                                     method call / attribute access spanning lines is attributed to the first line of the
                                     expression (CPython: the attribute's line), a failing decorator application to the
                                     'def' line (CPython: the decorator's line) *)
  d_with_swallow : bool;     (* D186 ast_with: an exception raised while evaluating a with-item (before any manager was
                                     entered) is swallowed - nothing is reported and execution continues after the with *)
  d_import_sticky : bool;    (* D187 module-level code of an imported module (failing at import) keeps the importer's
                                     file name and current function *)
  d_lambda_name : bool       (* D190 a lambda is compiled as a function named __lambda_defn_temp__: its frame carries that
                                     name instead of <lambda> *)
}.
Definition all_off : deviations := mkDev false false false false false false false.
Definition as_is : deviations := mkDev true true true true true true true.

(* ---------- mini language ---------- *)
Inductive nkind := NkPlain | NkAttr | NkDeco.
(* n_line: the node's AST lineno; n_alt: for NkAttr the line of the attribute name, for NkDeco the line of the
   decorator expression (ignored for NkPlain) *)
Record node := mkNode { nk : nkind; n_line : line; n_alt : line }.

Definition node_py_line (n : node) : line :=
  match nk n with NkPlain => n_line n | NkAttr => n_alt n | NkDeco => n_alt n end.
Definition node_ps_line (dv : deviations) (n : node) : line :=
  match nk n with
  | NkPlain => n_line n
  | NkAttr => if d_node_start_line dv then n_line n else n_alt n
  | NkDeco => if d_node_start_line dv then n_line n else n_alt n
  end.

Inductive callee := CFunc (k : nat) | CMod (k : nat).

(* one CPython frame of natively compiled script code (@pyscript_compile, @pyscript_executor, lambda): file, co_name in
   CPython, co_name under pyscript (differs for lambdas), line.  Native code runs under CPython in both worlds, so its own
   traceback entries are data, not something the interpreter model computes *)
Definition nentry : Type := (fileid * nameid * nameid * line).

Inductive expr :=
  | ENative (n : node) (es : list nentry)                 (* call at node n of a native script function that raises with frames es *)
  | EAtom (n : node)                                      (* evaluates without fault and without user calls *)
  | EFault (n : node)                                     (* this node's own evaluation raises *)
  | EOp (n : node) (subs : list expr) (fault : bool)      (* compound node: sub-expressions in order, then its own operation *)
  | ECall (n : node) (args : list expr) (c : callee).     (* arguments in order, then a user function / module body runs *)

Inductive handler :=
  | HNone                       (* no handler matches (or only finally): the exception passes on *)
  | HSwallow                    (* handled, execution continues *)
  | HRaise (n : node).          (* handler body raises a new exception at node n ([raise X from e] / [raise X]) *)

Inductive bkind := BkPlain | BkWith.     (* if / for / while  |  with (header = the context expression) *)

Inductive stmt :=
  | SExpr (n : node) (es : list expr)                     (* Expr / Assign / AugAssign / Assert / Import ...: evaluates es *)
  | SRaise (n : node) (cause : bool)                      (* raise E(..) [from F(..)]: cause = a fresh cause without traceback *)
  | SReturn (n : node) (es : list expr)
  | SBlock (n : node) (k : bkind) (hdr : list expr) (enter : bool) (body : list stmt)   (* header, then (if enter) the body once *)
  | STry (n : node) (body : list stmt) (h : handler).

Record efunc := mkFunc { ef_file : fileid; ef_name : nameid; ef_rename : option nameid; ef_body : list stmt }.
Record emod := mkMod { em_file : fileid; em_body : list stmt }.
Record prog := mkProg { p_funcs : list efunc; p_mods : list emod }.

(* identity of an activation = what CPython prints for its frame *)
Record act := mkAct { a_file : fileid; a_name : fname }.
(* what the formatter can read, at format time, from the AstEval object found in an aeval frame:
   ctx.global_ctx.get_file_path() and ctx.name *)
Record ctxinfo := mkCtx { cx_file : fileid; cx_name : fname }.

Definition func_act (f : efunc) : act := mkAct (ef_file f) (FnNamed (ef_name f)).
Definition mod_act (m : emod) : act := mkAct (em_file m) (FnModule (em_file m)).
Definition mod_ctx (m : emod) : ctxinfo := mkCtx (em_file m) (FnModule (em_file m)).

(* how user code is entered *)
Inductive entry :=
  | EnModule (k : nat)                                     (* load_file: the module body of p_mods[k] *)
  | EnFunc (k : nat) (cxname : nameid) (direct : bool).    (* function p_funcs[k] run by an interpreter named cxname
                                                               (trigger action, service, task.create, done-callback);
                                                               direct: func.call(...) instead of ast_ctx.call_func(func, None, ...) *)

(* ---------- generic evaluator ---------- *)
Inductive res (X : Type) := RNormal | RReturn | RRaise (x : X) | RFuel.
Arguments RNormal {X}. Arguments RReturn {X}. Arguments RRaise {X} x. Arguments RFuel {X}.

Definition wrap {X} (f : X -> X) (r : res X) : res X := match r with RRaise x => RRaise (f x) | o => o end.

Fixpoint g_list {X A} (ev : A -> res X) (l : list A) : res X :=
  match l with
  | [] => RNormal
  | a :: r => match ev a with RNormal => g_list ev r | o => o end
  end.

Record alg (X : Type) := mkAlg {
  x_raise : ctxinfo -> act -> node -> X;                  (* the node's own evaluation raises *)
  x_native : ctxinfo -> act -> node -> list nentry -> X;  (* a natively compiled script function called at the node raises *)
  x_node : ctxinfo -> act -> node -> X -> X;              (* passes out through an enclosing node of the same activation *)
  x_call : ctxinfo -> act -> node -> efunc -> X -> X;     (* leaves the callee's activation through the caller's call node *)
  x_import : ctxinfo -> act -> node -> emod -> X -> X;    (* leaves an imported module's body through the import node *)
  x_chain : ctxinfo -> act -> node -> node -> X -> X;     (* caught by try node, handler raises at the second node *)
  x_cause : X -> X;                                       (* [raise .. from F(..)]: a cause without traceback *)
  x_with_hdr : X -> option X;                             (* raised by a with-item expression: passes on, or (None) is swallowed *)
  x_enter_mod : emod -> X -> X;                           (* outermost: load_file -> AstEval.eval -> Module *)
  x_enter_func : ctxinfo -> efunc -> bool -> X -> X       (* outermost: the catching site -> [call_func ->] EvalFunc.call *)
}.
Arguments x_raise {X}. Arguments x_native {X}. Arguments x_node {X}. Arguments x_call {X}. Arguments x_import {X}. Arguments x_chain {X}.
Arguments x_cause {X}. Arguments x_with_hdr {X}. Arguments x_enter_mod {X}. Arguments x_enter_func {X}.

Section Gen.
  Context {X : Type}.
  Variable A : alg X.
  Variable p : prog.

  Definition ret_to_normal (r : res X) : res X := match r with RReturn => RNormal | o => o end.

  Fixpoint g_expr (fuel : nat) (cx : ctxinfo) (a : act) (e : expr) {struct fuel} : res X :=
    match fuel with
    | O => RFuel
    | S fu =>
      match e with
      | ENative n es => RRaise (x_native A cx a n es)
      | EAtom _ => RNormal
      | EFault n => RRaise (x_raise A cx a n)
      | EOp n subs fault =>
          match wrap (x_node A cx a n) (g_list (g_expr fu cx a) subs) with
          | RNormal => if fault then RRaise (x_raise A cx a n) else RNormal
          | o => o
          end
      | ECall n args c =>
          match wrap (x_node A cx a n) (g_list (g_expr fu cx a) args) with
          | RNormal =>
              match c with
              | CFunc k =>
                  match nth_error (p_funcs p) k with
                  | None => RRaise (x_raise A cx a n)
                  | Some f => ret_to_normal (wrap (x_call A cx a n f) (g_list (g_stmt fu cx (func_act f)) (ef_body f)))
                  end
              | CMod k =>
                  match nth_error (p_mods p) k with
                  | None => RRaise (x_raise A cx a n)
                  | Some m => ret_to_normal (wrap (x_import A cx a n m) (g_list (g_stmt fu (mod_ctx m) (mod_act m)) (em_body m)))
                  end
              end
          | o => o
          end
      end
    end
  with g_stmt (fuel : nat) (cx : ctxinfo) (a : act) (s : stmt) {struct fuel} : res X :=
    match fuel with
    | O => RFuel
    | S fu =>
      match s with
      | SExpr n es => wrap (x_node A cx a n) (g_list (g_expr fu cx a) es)
      | SRaise n cause => RRaise (if cause then x_cause A (x_raise A cx a n) else x_raise A cx a n)
      | SReturn n es =>
          match wrap (x_node A cx a n) (g_list (g_expr fu cx a) es) with
          | RNormal => RReturn
          | o => o
          end
      | SBlock n k hdr enter body =>
          match wrap (x_node A cx a n) (g_list (g_expr fu cx a) hdr) with
          | RNormal => if enter then wrap (x_node A cx a n) (g_list (g_stmt fu cx a) body) else RNormal
          | RRaise x =>
              match k with
              | BkPlain => RRaise x
              | BkWith => match x_with_hdr A x with Some x' => RRaise x' | None => RNormal end
              end
          | o => o
          end
      | STry n body h =>
          match g_list (g_stmt fu cx a) body with
          | RRaise x =>
              match h with
              | HNone => RRaise (x_node A cx a n x)
              | HSwallow => RNormal
              | HRaise nr => RRaise (x_chain A cx a n nr x)
              end
          | o => o
          end
      end
    end.

  Definition g_run (fuel : nat) (en : entry) : res X :=
    match en with
    | EnModule k =>
        match nth_error (p_mods p) k with
        | None => RNormal
        | Some m => ret_to_normal (wrap (x_enter_mod A m) (g_list (g_stmt fuel (mod_ctx m) (mod_act m)) (em_body m)))
        end
    | EnFunc k cxname direct =>
        match nth_error (p_funcs p) k with
        | None => RNormal
        | Some f =>
            let cx := mkCtx (ef_file f) (FnNamed cxname) in
            ret_to_normal (wrap (x_enter_func A cx f direct) (g_list (g_stmt fuel cx (func_act f)) (ef_body f)))
        end
    end.
End Gen.

(* ---------- pyscript: interpreter frames ---------- *)
Inductive frame :=
  | FAeval (cx : ctxinfo) (a : act) (ln : option line)  (* AstEval.aeval / recurse_assign; ln: lineno of the first AST-valued
                                                            local that is an expr/stmt (None: Module, Expression, ...);
                                                            [a] is the activation the node belongs to - the formatter of
                                                            today's code cannot see it and does not use it *)
  | FCallFunc (nm : option fname)                        (* AstEval.call_func with its func_name local *)
  | FEvalFuncCall (file : fileid) (nm : fname)           (* EvalFunc.call: self.global_ctx.get_file_path(), self.get_name() *)
  | FAstEval                                             (* AstEval.eval of the interpreter created by load_file for an import *)
  | FOther                                               (* any other eval.py frame *)
  | FReal (file : fileid) (nm : nameid) (ln : line).     (* a frame of another source file *)

Definition exc_ps : Type := list (list frame).   (* head: the exception itself; tail: its __cause__/__context__ chain *)
Definition exc_py : Type := list (list triple).

Definition on_head {T} (f : list T -> list T) (x : list (list T)) : list (list T) :=
  match x with [] => [] | h :: c => f h :: c end.

Definition disp_name (dv : deviations) (f : efunc) : fname :=
  FnNamed (if d_deco_rename dv then match ef_rename f with Some n => n | None => ef_name f end else ef_name f).

(* names of pyscript's own functions that show up as real frames (ids fixed by the harness's string table) *)
Definition nm_catch_site : nameid := 1%N.
Definition nm_module_import : nameid := 2%N.
Definition nm_load_file : nameid := 3%N.

Definition native_frame (dv : deviations) (e : nentry) : frame :=
  let '(f, pyname, psname, l) := e in FReal f (if d_lambda_name dv then psname else pyname) l.
Definition native_entry (e : nentry) : triple := let '(f, pyname, _, l) := e in (f, FnNamed pyname, l).

Definition ps_alg (dv : deviations) : alg exc_ps := {|
  x_raise := fun cx a n => [[FAeval cx a (Some (node_ps_line dv n)); FOther]];
  x_native := fun cx a n es =>
      [FAeval cx a (Some (node_ps_line dv n)) :: FOther :: FCallFunc None :: map (native_frame dv) es];
  x_node := fun cx a n => on_head (fun F => FAeval cx a (Some (node_ps_line dv n)) :: FOther :: F);
  x_call := fun cx a n f => on_head (fun F =>
      FAeval cx a (Some (node_ps_line dv n)) :: FOther :: FCallFunc (Some (disp_name dv f)) :: FOther
      :: FEvalFuncCall (ef_file f) (disp_name dv f) :: F);
  x_import := fun cx a n m => on_head (fun F =>
      FAeval cx a (Some (node_ps_line dv n)) :: FOther :: FReal 0%N nm_module_import 0%N :: FReal 0%N nm_load_file 0%N
      :: FAstEval :: FAeval (mod_ctx m) (mod_act m) None :: FOther :: F);
  x_chain := fun cx a nt nr x =>
      [FAeval cx a (Some (node_ps_line dv nt)); FOther; FAeval cx a (Some (node_ps_line dv nr)); FOther]
      :: on_head (fun F => FOther :: F) x;
  x_cause := fun x => x ++ [[]];
  x_with_hdr := fun x => if d_with_swallow dv then None else Some x;
  x_enter_mod := fun m => on_head (fun F =>
      FReal 0%N nm_load_file 0%N :: FAstEval :: FAeval (mod_ctx m) (mod_act m) None :: FOther :: F);
  x_enter_func := fun cx f direct => on_head (fun F =>
      FReal 0%N nm_catch_site 0%N
            :: (if direct then [] else [FCallFunc (Some (disp_name dv f))]) ++ FEvalFuncCall (ef_file f) (disp_name dv f) :: F)
|}.

(* ---------- CPython: traceback entries ---------- *)
Definition py_entry (a : act) (n : node) : triple := (a_file a, a_name a, node_py_line n).

Definition is_script (t : triple) : bool := let '(f, _, _) := t in negb (N.eqb f 0%N).

Definition py_alg : alg exc_py := {|
  x_raise := fun _ a n => [[py_entry a n]];
  x_native := fun _ a n es => [py_entry a n :: filter is_script (map native_entry es)];
  x_node := fun _ _ _ x => x;
  x_call := fun _ a n _ => on_head (fun T => py_entry a n :: T);
  x_import := fun _ a n _ => on_head (fun T => py_entry a n :: T);
  x_chain := fun _ a _ nr x => [py_entry a nr] :: x;
  x_cause := fun x => x ++ [[]];
  x_with_hdr := fun x => Some x;
  x_enter_mod := fun _ x => x;
  x_enter_func := fun _ _ _ x => x
|}.

Definition frames_at_fault (dv : deviations) (p : prog) (fuel : nat) (en : entry) : res exc_ps := g_run (ps_alg dv) p fuel en.
Definition reference_triples (p : prog) (fuel : nat) (en : entry) : res exc_py := g_run py_alg p fuel en.

(* ---------- EvalExceptionFormatter ---------- *)
(* s_rstack is self.stack reversed (head = stack[-1]); s_fresh: an activation boundary (EvalFunc.call, AstEval.eval of
   an import, a real frame) was crossed since the last ast_frame - only the conformant replace rule looks at it *)
Record fstate := mkSt {
  s_func : option fname;       (* self.current_func *)
  s_file : option fileid;      (* self.current_filename *)
  s_line : line;               (* self.lineno *)
  s_fresh : bool;
  s_rstack : list triple
}.
Definition init_st : fstate := mkSt None None 1%N true [].

Definition file_or_ctx (st : fstate) (cx : ctxinfo) : fileid := match s_file st with Some f => f | None => cx_file cx end.

(* ast_frame: build the entry for the node at line l and replace-or-append it *)
Definition ast_frame (dv : deviations) (cx : ctxinfo) (a : act) (l : line) (st : fstate) : fstate :=
  let file :=
    match s_func st with
    | Some _ => file_or_ctx st cx
    | None => if d_chain_ctx dv then file_or_ctx st cx else a_file a
    end in
  let name :=
    match s_func st with
    | Some nm => nm
    | None => if d_chain_ctx dv then cx_name cx else a_name a
    end in
  let new : triple := (file, name, l) in
  let rstack :=
    match s_rstack st with
    | [] => [new]
    | last :: rest =>
        if (if d_merge_same_name dv then same_fn last new else negb (s_fresh st))
        then new :: rest else new :: last :: rest
    end in
  mkSt (s_func st) (Some (file_or_ctx st cx)) l false rstack.

Definition step (dv : deviations) (st : fstate) (fr : frame) : fstate :=
  match fr with
  | FOther => st
  | FCallFunc nm =>
      match s_func st with
      | None => mkSt nm (s_file st) (s_line st) (s_fresh st) (s_rstack st)
      | Some _ => st
      end
  | FEvalFuncCall file nm => mkSt (Some nm) (Some file) (s_line st) true (s_rstack st)
  | FAstEval =>
      if d_import_sticky dv then st else mkSt None None (s_line st) true (s_rstack st)
  | FReal file nm ln => mkSt (s_func st) (s_file st) (s_line st) true ((file, FnNamed nm, ln) :: s_rstack st)
  | FAeval cx a None => mkSt (s_func st) (Some (file_or_ctx st cx)) (s_line st) (s_fresh st) (s_rstack st)
  | FAeval cx a (Some l) => ast_frame dv cx a l st
  end.

Definition run_frames (dv : deviations) (st : fstate) (F : list frame) : fstate := fold_left (step dv) F st.
Definition format_stack (dv : deviations) (F : list frame) : list triple := rev (s_rstack (run_frames dv init_st F)).

Definition script_frames (T : list triple) : list triple := filter is_script T.

(* the whole report: one list of script entries per exception of the cause/context chain (the logged exception first) *)
Definition format_exc (dv : deviations) (x : exc_ps) : exc_py := map (fun F => script_frames (format_stack dv F)) x.

Definition res_map {X Y} (f : X -> Y) (r : res X) : res Y :=
  match r with RNormal => RNormal | RReturn => RReturn | RRaise x => RRaise (f x) | RFuel => RFuel end.

(* what pyscript's log shows for program p entered at en *)
Definition reported (dv : deviations) (p : prog) (fuel : nat) (en : entry) : res exc_py :=
  res_map (format_exc dv) (frames_at_fault dv p fuel en).

(* well-formedness: every piece of user code lives in a script file *)
Definition wf_prog (p : prog) : bool :=
  forallb (fun f => negb (N.eqb (ef_file f) 0%N)) (p_funcs p) && forallb (fun m => negb (N.eqb (em_file m) 0%N)) (p_mods p).
