(* Interp/Flow.v — C02: control-flow skeletons, pyscript's marker-passing evaluator [ps_exec] and the
   textbook reference evaluator [py_exec].  No proofs here (see Proofs/InterpFlow.v).

   Expressions are opaque.  A skeleton's only observable effects are *events*: the tracer call t(n), the
   evaluation of a scripted condition c(k), the creation / advancing of a scripted iterator It(k), the
   construction / __enter__ / __exit__ of a scripted context manager M(k), a probe of a handler name and the
   value returned through a function boundary.  What the conditions, iterators and managers answer comes from
   a *host oracle* with an arbitrary state [H]; the theorems quantify over every host.

   [ps_*] mirrors custom_components/pyscript/eval.py literally: statement evaluators *return* stop-flow markers
   (EvalBreak / EvalContinue / EvalReturn, l.204-233) that the enclosing construct inspects with isinstance
   (ast_if l.1004, ast_for l.1019, ast_while l.1042, ast_try l.1220, ast_with l.1281, EvalFunc.call l.796-802);
   exceptions are host (Python) exceptions.  Deviations of today's code from Python are behind [deviations].
   [py_*] is the Language Reference: outcome Normal | Brk | Cont | Ret v | Exc e, `with` = nested
   try/except/finally (reference §8.5), handler name unbound by `e = None; del e` (§8.4).

   Both evaluators recurse on fuel: a descent into a sub-statement uses fuel-1 and a loop spends one unit of a
   separate counter per iteration; running out is the distinguished result [PFuel]/[Fuel]. *)
From PV Require Import Common.Util.

(* ---------------------------------------------------------------------------------------------------- *)
(* syntax                                                                                               *)
(* ---------------------------------------------------------------------------------------------------- *)
(* an exception value: its class id and the class of its __cause__ (raise X from Y) *)
Record exc := mkExc { x_cls : N; x_cause : option N }.
Definition exc_of (c : N) : exc := mkExc c None.
Definition exc_eqb (a b : exc) : bool := N.eqb (x_cls a) (x_cls b) && option_eqb N.eqb (x_cause a) (x_cause b).

(* class ids with a fixed meaning (all others are user classes; the subclass relation is the host's) *)
Definition cls_BaseException : N := 0.
Definition cls_Exception : N := 1.
Definition cls_RuntimeError : N := 2.     (* bare `raise` with no active exception *)
Definition cls_AssertionError : N := 3.
Definition cls_KeyError : N := 4.         (* D200: del sym_table[name] *)
Definition cls_SyntaxError : N := 5.      (* only for skeletons Python's compiler rejects *)
Definition cls_TypeError : N := 11.       (* D202: 'AIt' object is not iterable *)

Inductive matcher :=
  | MAny                       (* except:                 *)
  | MCls (cs : list N)         (* except C: / except (C1, C2): *)
  | MVar (cs : list N) (k : N).   (* except HCk: / except (C1, HCk): — HCk is a global name that sw(k) rebinds *)

(* how a for statement iterates: `for` / `async for` over an object with both protocols / `async for` over a
   proper asynchronous iterator (only __aiter__/__anext__) *)
Inductive fmode := FSync | FAsyncDual | FAsyncOnly.
Definition fmode_async_only (m : fmode) : bool := match m with FAsyncOnly => true | _ => false end.

(* The [a]/[m] arguments select the async form of a statement (`async with`, `async for`, `async def` + await).
   Python gives the async forms the same control flow as the plain ones (the protocol methods are awaited);
   eval.py implements them as wrappers (ast_asyncwith, ast_asyncfor, ast_asyncfunctiondef) around the plain
   evaluators, so both evaluators below ignore the flag except for deviation D202. *)
Inductive stmt :=
  | STrace (n : N)                                   (* t(n) *)
  | SPass
  | SProbe (k name : N)                              (* p(k, locals(), 'name'): is the handler name bound, to what *)
  | SIf (k : N) (body orelse : list stmt)            (* if c(k): *)
  | SWhile (k : N) (body orelse : list stmt)         (* while c(k): ... else: *)
  | SFor (m : fmode) (k : N) (body orelse : list stmt)   (* [async] for _ in It(k) / AIt(k): ... else: *)
  | SBreak
  | SContinue
  | SReturn (v : option N)                           (* return / return v *)
  | SRaise (c : N) (cause : option N)                (* raise C / raise C from D *)
  | SReraise                                         (* raise *)
  | STry (body : list stmt) (handlers : list (matcher * option N * list stmt)) (orelse finalbody : list stmt)
  | SWith (a : bool) (items : list N) (body : list stmt)   (* [async] with M(k1), M(k2): *)
  | SAssert (k : N) (msg : option N)                 (* assert c(k) / assert c(k), ms(j) — ms(j) is a message site *)
  | SFunc (a : bool) (k : N) (body : list stmt)      (* [async] def g(): body ; fr(k, [await] g())  — a function boundary *)
  | SSwitch (k : N)                                  (* sw(k): rebinds the global class name HCk *)
  | SWithS (a : bool) (k : N) (xbody body : list stmt).   (* [async] with MSk(): body — a manager class written in the script whose
                                                        __exit__ runs xbody as a function body (its returned value
                                                        decides suppression) *)

Definition handler : Type := (matcher * option N * list stmt)%type.

(* skeletons accepted by Python's compiler as far as jumps are concerned: break/continue only inside a loop of
   the same function (a loop's else clause belongs to the *enclosing* loop) *)
Fixpoint supp (inl : bool) (s : stmt) {struct s} : bool :=
  match s with
  | SBreak | SContinue => inl
  | SIf _ b o => forallb (supp inl) b && forallb (supp inl) o
  | SWhile _ b o | SFor _ _ b o => forallb (supp true) b && forallb (supp inl) o
  | STry b hs o f =>
      forallb (supp inl) b && forallb (fun hd : handler => forallb (supp inl) (snd hd)) hs
      && forallb (supp inl) o && forallb (supp inl) f
  | SWith _ _ b => forallb (supp inl) b
  | SFunc _ _ b => forallb (supp false) b
  | SWithS _ _ x b => forallb (supp false) x && forallb (supp inl) b
  | _ => true
  end.
Definition supported (body : list stmt) : bool := forallb (supp false) body.

(* ---------------------------------------------------------------------------------------------------- *)
(* events, host oracle, state                                                                           *)
(* ---------------------------------------------------------------------------------------------------- *)
Inductive event :=
  | EvT (n : N)                              (* t(n) *)
  | EvC (k : N) (b : bool)                   (* c(k) evaluated, answered b *)
  | EvIter (k : N)                           (* It(k) created *)
  | EvN (k : N) (b : bool)                   (* It(k).__next__: yielded (true) / StopIteration (false) *)
  | EvMk (k : N)                             (* M(k) constructed *)
  | EvEnter (k : N)
  | EvExit (k : N) (info : option exc)       (* __exit__ called with this exception information *)
  | EvP (k name : N) (v : option exc)        (* probe *)
  | EvRet (k : N) (v : option N)             (* value returned through function boundary k *)
  | EvMsg (j : N)                            (* the message expression ms(j) of an assert was evaluated *)
  | EvSw (k : N).                            (* sw(k) *)

Inductive xres := XRet (b : bool) | XRaise (e : exc).       (* what __exit__ does *)

Record host (H : Type) := {
  h_cond : N -> H -> bool * H;
  h_iter : N -> H -> H;
  h_next : N -> H -> bool * H;
  h_enter : N -> H -> option exc * H;                       (* Some e: __enter__ raises e *)
  h_exit : N -> option exc -> H -> xres * H;
  h_msg : N -> H -> option exc * H;                         (* Some e: evaluating the assert message raises e *)
  h_sw : N -> H -> H;                                       (* sw(k): the host rebinds HCk *)
  h_hget : N -> H -> list N;                                (* the class(es) HCk is bound to now (reading has no effect) *)
  h_sub : N -> N -> bool                                    (* issubclass *)
}.
Arguments h_cond {H}. Arguments h_iter {H}. Arguments h_next {H}. Arguments h_enter {H}.
Arguments h_exit {H}. Arguments h_msg {H}. Arguments h_sw {H}. Arguments h_hget {H}. Arguments h_sub {H}.

Record deviations := {
  d8_else_drops_jump : bool;     (* D8: break/continue marker ignored in a loop's else clause *)
  d9_with_flat : bool;           (* D9: all items of one `with` handled as one block instead of nested *)
  d10_base_uncaught : bool;      (* D10: `except Exception` in ast_try / ast_with *)
  d200_unbind_keyerror : bool;   (* D200: `del sym_table[name]` raises KeyError if already unbound *)
  d201_enter_in_try : bool;      (* D201: __enter__ runs inside the try whose handler calls __exit__ *)
  d202_asyncfor_sync : bool      (* D202: ast_asyncfor iterates with the synchronous protocol (`for x in obj`) *)
}.
Definition no_dev : deviations :=
  {| d8_else_drops_jump := false; d9_with_flat := false; d10_base_uncaught := false;
     d200_unbind_keyerror := false; d201_enter_in_try := false; d202_asyncfor_sync := false |}.
Definition all_off (c : deviations) : Prop := c = no_dev.

(* what a pyscript statement evaluator returns / raises *)
Inductive pval := VNone | VBreak | VContinue | VReturn (v : option N).
Inductive pres := PV (v : pval) | PX (e : exc) | PFuel.
(* textbook outcome of a statement *)
Inductive outcome := Normal | Brk | Cont | Ret (v : option N) | Exc (e : exc) | Fuel.
(* how a function call ends *)
Inductive call_result := CRet (v : option N) | CExc (e : exc) | CFuel.

Definition env := list (N * exc).
Fixpoint env_get (n : N) (e : env) : option exc :=
  match e with [] => None | (m, x) :: r => if N.eqb m n then Some x else env_get n r end.
Fixpoint env_del (n : N) (e : env) : env :=
  match e with [] => [] | (m, x) :: r => if N.eqb m n then env_del n r else (m, x) :: env_del n r end.
Definition env_mem (n : N) (e : env) : bool := match env_get n e with Some _ => true | None => false end.
Definition env_set (n : N) (x : exc) (e : env) : env := (n, x) :: env_del n e.

Section Exec.
  Context {H : Type}.
  Variable h : host H.

  Record state := mkSt { s_h : H; s_tr : list event; s_env : env }.    (* trace newest first *)
  Definition emit (e : event) (st : state) : state := mkSt (s_h st) (e :: s_tr st) (s_env st).
  Definition set_h (x : H) (st : state) : state := mkSt x (s_tr st) (s_env st).
  Definition set_env (e : env) (st : state) : state := mkSt (s_h st) (s_tr st) e.

  Definition q_cond (k : N) (st : state) : bool * state :=
    match h_cond h k (s_h st) with (b, x) => (b, emit (EvC k b) (set_h x st)) end.
  Definition q_iter (k : N) (st : state) : state := emit (EvIter k) (set_h (h_iter h k (s_h st)) st).
  Definition q_next (k : N) (st : state) : bool * state :=
    match h_next h k (s_h st) with (b, x) => (b, emit (EvN k b) (set_h x st)) end.
  Definition do_enter (m : N) (st : state) : option exc * state :=
    let st1 := emit (EvEnter m) st in
    match h_enter h m (s_h st1) with (r, x) => (r, set_h x st1) end.
  Definition do_exit (m : N) (info : option exc) (st : state) : xres * state :=
    let st1 := emit (EvExit m info) st in
    match h_exit h m info (s_h st1) with (r, x) => (r, set_h x st1) end.

  (* a failing assert: `if arg.msg: raise AssertionError(await self.aeval(arg.msg))` / `raise AssertionError`;
     the message expression is evaluated only here, i.e. only when the test was false *)
  Definition assert_fail (msg : option N) (st : state) : state * exc :=
    match msg with
    | None => (st, exc_of cls_AssertionError)
    | Some j =>
        let st1 := emit (EvMsg j) st in
        match h_msg h j (s_h st1) with
        | (Some e, x) => (set_h x st1, e)
        | (None, x) => (set_h x st1, exc_of cls_AssertionError)
        end
    end.

  Definition is_exc (e : exc) : bool := h_sub h (x_cls e) cls_Exception.
  (* the class expression of an except clause is evaluated when the clause is tried: a rebound name is seen *)
  Definition h_matches (x : H) (m : matcher) (e : exc) : bool :=
    match m with
    | MAny => true
    | MCls cs => existsb (fun c => h_sub h (x_cls e) c) cs
    | MVar cs k => existsb (fun c => h_sub h (x_cls e) c) (cs ++ h_hget h k x)
    end.
  Definition truthy (v : option N) : bool := match v with Some n => negb (N.eqb n 0) | None => false end.
  Definition bind (name : option N) (e : exc) (st : state) : state :=
    match name with Some n => set_env (env_set n e (s_env st)) st | None => st end.
  (* Python: `name = None; del name` — never fails *)
  Definition unbind (name : option N) (st : state) : state :=
    match name with Some n => set_env (env_del n (s_env st)) st | None => st end.
  Definition reraise (cur : option exc) : exc :=
    match cur with Some e => e | None => exc_of cls_RuntimeError end.

  (* ================================================================================================== *)
  (* pyscript                                                                                           *)
  (* ================================================================================================== *)
  Definition is_stopflow (v : pval) : bool := match v with VNone => false | _ => true end.

  (* for arg1 in body: val = await self.aeval(arg1); if isinstance(val, EvalStopFlow): return val / break *)
  Fixpoint ps_block (ev : stmt -> state -> state * pres) (b : list stmt) (st : state) : state * pres :=
    match b with
    | [] => (st, PV VNone)
    | s :: r =>
        match ev s st with
        | (st1, PV VNone) => ps_block ev r st1
        | other => other
        end
    end.

  (* else clause of ast_for / ast_while:
       for arg1 in arg.orelse: val = aeval(arg1); if isinstance(val, EvalReturn): return val
     followed by `return None` (D8).  Repaired: the test is isinstance(val, EvalStopFlow). *)
  Fixpoint ps_else_block (d8 : bool) (ev : stmt -> state -> state * pres) (b : list stmt) (st : state) : state * pres :=
    match b with
    | [] => (st, PV VNone)
    | s :: r =>
        match ev s st with
        | (st1, PV VNone) => ps_else_block d8 ev r st1
        | (st1, PV (VReturn v)) => (st1, PV (VReturn v))
        | (st1, PV m) => if d8 then ps_else_block d8 ev r st1 else (st1, PV m)
        | other => other
        end
    end.

  (* the Python-level loop of ast_for / ast_while; [query] advances the iterator / evaluates the test *)
  Fixpoint ps_loop (d8 : bool) (query : state -> bool * state) (ev : stmt -> state -> state * pres)
           (k : nat) (body orelse : list stmt) (st : state) : state * pres :=
    match k with
    | O => (st, PFuel)
    | S k' =>
        match query st with
        | (true, st1) =>
            match ps_block ev body st1 with
            | (st2, PV VBreak) => (st2, PV VNone)                    (* break (skips else); return None *)
            | (st2, PV (VReturn v)) => (st2, PV (VReturn v))         (* return val *)
            | (st2, PV _) => ps_loop d8 query ev k' body orelse st2  (* next iteration *)
            | other => other
            end
        | (false, st1) => ps_else_block d8 ev orelse st1
        end
    end.

  (* EvalFunc.call: for arg1 in body: val = aeval(arg1); if isinstance(val, EvalReturn): return val.value
     ... return None.  Any other marker is ignored. *)
  Fixpoint ps_func_block (ev : stmt -> state -> state * pres) (b : list stmt) (st : state) : state * call_result :=
    match b with
    | [] => (st, CRet None)
    | s :: r =>
        match ev s st with
        | (st1, PV (VReturn v)) => (st1, CRet v)
        | (st1, PV _) => ps_func_block ev r st1
        | (st1, PX e) => (st1, CExc e)
        | (st1, PFuel) => (st1, CFuel)
        end
    end.

  Definition ps_call (ev : stmt -> state -> state * pres) (k : N) (body : list stmt) (st : state) : state * pres :=
    let env0 := s_env st in
    match ps_func_block ev body (set_env [] st) with
    | (st1, CRet v) => (emit (EvRet k v) (set_env env0 st1), PV VNone)
    | (st1, CExc e) => (set_env env0 st1, PX e)
    | (st1, CFuel) => (st1, PFuel)
    end.

  (* call_func(exit, "__exit__", manager, info...) of a script-defined manager: EvalFunc.call on the method body *)
  Definition ps_xcall (ev : stmt -> state -> state * pres) (k : N) (info : option exc) (xbody : list stmt)
             (st : state) : state * call_result :=
    let env0 := s_env st in
    match ps_func_block ev xbody (set_env [] (emit (EvExit k info) st)) with
    | (st1, CFuel) => (st1, CFuel)
    | (st1, r) => (set_env env0 st1, r)
    end.

  Section WithCfg.
    Variable cfg : deviations.

    (* does `except Exception` (today) / `except BaseException` (repaired) catch e *)
    Definition ps_caught (e : exc) : bool := negb (d10_base_uncaught cfg) || is_exc e.

    (* finally: if handler.name is not None: del self.sym_table[handler.name] *)
    Definition ps_unbind (name : option N) (st : state) : option state :=
      match name with
      | None => Some st
      | Some n =>
          if d200_unbind_keyerror cfg && negb (env_mem n (s_env st)) then None
          else Some (set_env (env_del n (s_env st)) st)
      end.

    (* ast_try: for handler in arg.handlers: ... else: raise err *)
    Fixpoint ps_handlers (evh : stmt -> state -> state * pres) (e : exc) (hs : list handler) (st : state) : state * pres :=
      match hs with
      | [] => (st, PX e)
      | (m, name, hb) :: r =>
          if h_matches (s_h st) m e then
            match ps_block evh hb (bind name e st) with
            | (st2, PFuel) => (st2, PFuel)
            | (st2, r2) =>
                match ps_unbind name st2 with
                | Some st3 => (st3, r2)
                | None => (st2, PX (exc_of cls_KeyError))
                end
            end
          else ps_handlers evh e r st
      end.

    (* finally: for arg1 in arg.finalbody: val = aeval(arg1); if isinstance(val, EvalStopFlow): return val
       [p] is how the try/except/else part ended; the finally clause runs with that exception (if any) active *)
    Definition ps_finally (rec : option exc -> stmt -> state -> state * pres) (cur : option exc)
               (finalbody : list stmt) (p : state * pres) : state * pres :=
      match p with
      | (st2, PFuel) => (st2, PFuel)
      | (st2, r2) =>
          let cur' := match r2 with PX e => Some e | _ => cur end in
          match ps_block (rec cur') finalbody st2 with
          | (st3, PV VNone) => (st3, r2)
          | other => other
          end
      end.

    Definition ps_try (rec : option exc -> stmt -> state -> state * pres) (cur : option exc)
               (body : list stmt) (hs : list handler) (orelse finalbody : list stmt) (st : state) : state * pres :=
      ps_finally rec cur finalbody
        (match ps_block (rec cur) body st with
         | (st1, PV VNone) => ps_block (rec cur) orelse st1                  (* else: *)
         | (st1, PV m) => (st1, PV m)                                        (* return val (from try:) *)
         | (st1, PX e) =>
             if ps_caught e then ps_handlers (rec (Some e)) e hs st1         (* except Exception as err: *)
             else (st1, PX e)
         | (st1, PFuel) => (st1, PFuel)
         end).

    (* exits of a `with` when no exception was caught (the `finally:` of ast_with, hit_except false) *)
    Fixpoint ps_exits_none (ms : list N) (st : state) : state * option exc :=
      match ms with
      | [] => (st, None)
      | m :: r =>
          match do_exit m None st with
          | (XRaise e', st1) => (st1, Some e')
          | (XRet _, st1) => ps_exits_none r st1
          end
      end.
    (* exits in the `except Exception:` clause: every manager gets the exception; exit_ok = exit_ok and ret *)
    Fixpoint ps_exits_exc (e : exc) (ms : list N) (ok : bool) (st : state) : state * (bool + exc) :=
      match ms with
      | [] => (st, inl ok)
      | m :: r =>
          match do_exit m (Some e) st with
          | (XRaise e', st1) => (st1, inr e')
          | (XRet b, st1) => ps_exits_exc e r (ok && b) st1
          end
      end.

    (* what ast_with does once its try-part ended with [r], for the managers [ms] (already reversed) *)
    Definition ps_with_finish (ms : list N) (st : state) (r : pres) : state * pres :=
      match r with
      | PFuel => (st, PFuel)
      | PX e =>
          if ps_caught e then
            match ps_exits_exc e ms true st with
            | (st1, inr e') => (st1, PX e')
            | (st1, inl true) => (st1, PV VNone)            (* suppressed: return val *)
            | (st1, inl false) => (st1, PX e)               (* raise *)
            end
          else
            match ps_exits_none ms st with
            | (st1, Some e') => (st1, PX e')
            | (st1, None) => (st1, PX e)
            end
      | PV v =>
          match ps_exits_none ms st with
          | (st1, Some e') => (st1, PX e')
          | (st1, None) => (st1, PV v)
          end
      end.

    Fixpoint ps_enters (ms : list N) (st : state) : state * option exc :=
      match ms with
      | [] => (st, None)
      | m :: r =>
          match do_enter m st with
          | (Some e, st1) => (st1, Some e)
          | (None, st1) => ps_enters r st1
          end
      end.

    (* ast_with as written: all context expressions, then all __enter__s, then the body, one try around all *)
    Definition ps_with_flat (ev : stmt -> state -> state * pres) (items : list N) (body : list stmt) (st : state) : state * pres :=
      let st1 := fold_left (fun s m => emit (EvMk m) s) items st in
      match ps_enters items st1 with
      | (st2, Some e) =>
          if d201_enter_in_try cfg then ps_with_finish (rev items) st2 (PX e) else (st2, PX e)
      | (st2, None) =>
          match ps_block ev body st2 with
          | (st3, r) => ps_with_finish (rev items) st3 r
          end
      end.

    (* the same code applied to one item whose body is the rest of the statement (repair of D9) *)
    Definition ps_with1 (m : N) (inner : state -> state * pres) (st : state) : state * pres :=
      match do_enter m (emit (EvMk m) st) with
      | (Some e, st2) =>
          if d201_enter_in_try cfg then ps_with_finish [m] st2 (PX e) else (st2, PX e)
      | (None, st2) =>
          match inner st2 with
          | (st3, r) => ps_with_finish [m] st3 r
          end
      end.
    Fixpoint ps_with_nested (ev : stmt -> state -> state * pres) (items : list N) (body : list stmt) (st : state) : state * pres :=
      match items with
      | [] => ps_block ev body st
      | m :: r => ps_with1 m (ps_with_nested ev r body) st
      end.

    (* ast_with on one script-defined manager (flat and nested handling coincide for one item; its __enter__ only
       logs): the body's outcome decides, as in [ps_with_finish], which __exit__ call is made; the method body runs
       with the exception in flight as the one being handled (sys.exc_info) *)
    Definition ps_withS (rec : option exc -> stmt -> state -> state * pres) (cur : option exc)
               (k : N) (xbody body : list stmt) (st : state) : state * pres :=
      match ps_block (rec cur) body (emit (EvEnter k) st) with
      | (st3, PFuel) => (st3, PFuel)
      | (st3, PX e) =>
          if ps_caught e then
            match ps_xcall (rec (Some e)) k (Some e) xbody st3 with
            | (st4, CFuel) => (st4, PFuel)
            | (st4, CExc e') => (st4, PX e')
            | (st4, CRet v) => if truthy v then (st4, PV VNone) else (st4, PX e)
            end
          else
            match ps_xcall (rec (Some e)) k None xbody st3 with
            | (st4, CFuel) => (st4, PFuel)
            | (st4, CExc e') => (st4, PX e')
            | (st4, CRet _) => (st4, PX e)
            end
      | (st3, PV v) =>
          match ps_xcall (rec cur) k None xbody st3 with
          | (st4, CFuel) => (st4, PFuel)
          | (st4, CExc e') => (st4, PX e')
          | (st4, CRet _) => (st4, PV v)
          end
      end.

    (* one statement; [rec] is aeval at the lower fuel, [lf] the loop counter *)
    Definition ps_step (rec : option exc -> stmt -> state -> state * pres) (lf : nat)
               (cur : option exc) (s : stmt) (st : state) : state * pres :=
      match s with
      | STrace n => (emit (EvT n) st, PV VNone)
      | SPass => (st, PV VNone)
      | SProbe k name => (emit (EvP k name (env_get name (s_env st))) st, PV VNone)
      | SIf k b o =>
          match q_cond k st with
          | (true, st1) => ps_block (rec cur) b st1
          | (false, st1) => ps_block (rec cur) o st1
          end
      | SWhile k b o => ps_loop (d8_else_drops_jump cfg) (q_cond k) (rec cur) lf b o st
      | SFor m k b o =>
          (* ast_asyncfor = ast_for: `for loop_var in await self.aeval(arg.iter)` needs __iter__ *)
          if d202_asyncfor_sync cfg && fmode_async_only m then (q_iter k st, PX (exc_of cls_TypeError))
          else ps_loop (d8_else_drops_jump cfg) (q_next k) (rec cur) lf b o (q_iter k st)
      | SBreak => (st, PV VBreak)
      | SContinue => (st, PV VContinue)
      | SReturn v => (st, PV (VReturn v))
      | SRaise c cause => (st, PX (mkExc c cause))
      | SReraise => (st, PX (reraise cur))
      | STry b hs o f => ps_try rec cur b hs o f st
      | SWith _ items b =>
          if d9_with_flat cfg then ps_with_flat (rec cur) items b st else ps_with_nested (rec cur) items b st
      | SAssert k msg =>
          match q_cond k st with
          | (true, st1) => (st1, PV VNone)
          | (false, st1) => match assert_fail msg st1 with (st2, e) => (st2, PX e) end
          end
      | SFunc _ k b => ps_call (rec cur) k b st
      | SSwitch k => (emit (EvSw k) (set_h (h_sw h k (s_h st)) st), PV VNone)
      | SWithS _ k x b => ps_withS rec cur k x b st
      end.

    Fixpoint ps_stmt (fuel : nat) (cur : option exc) (s : stmt) (st : state) : state * pres :=
      match fuel with
      | O => (st, PFuel)
      | S f => ps_step (ps_stmt f) (S f) cur s st
      end.
  End WithCfg.

  (* ================================================================================================== *)
  (* reference                                                                                          *)
  (* ================================================================================================== *)
  Fixpoint py_block (ev : stmt -> state -> state * outcome) (b : list stmt) (st : state) : state * outcome :=
    match b with
    | [] => (st, Normal)
    | s :: r =>
        match ev s st with
        | (st1, Normal) => py_block ev r st1
        | other => other
        end
    end.

  Fixpoint py_loop (query : state -> bool * state) (ev : stmt -> state -> state * outcome)
           (k : nat) (body orelse : list stmt) (st : state) : state * outcome :=
    match k with
    | O => (st, Fuel)
    | S k' =>
        match query st with
        | (true, st1) =>
            match py_block ev body st1 with
            | (st2, Normal) | (st2, Cont) => py_loop query ev k' body orelse st2
            | (st2, Brk) => (st2, Normal)
            | other => other
            end
        | (false, st1) => py_block ev orelse st1
        end
    end.

  Fixpoint py_find_handler (x : H) (e : exc) (hs : list handler) : option (option N * list stmt) :=
    match hs with
    | [] => None
    | (m, name, hb) :: r => if h_matches x m e then Some (name, hb) else py_find_handler x e r
    end.

  (* the first handler whose class matches runs with the exception bound to its name; the name is unbound
     afterwards however the handler ends (reference 8.4: `try: body finally: name = None; del name`) *)
  Definition py_handle (ev : stmt -> state -> state * outcome) (e : exc) (hs : list handler) (st : state) : state * outcome :=
    match py_find_handler (s_h st) e hs with
    | None => (st, Exc e)
    | Some (name, hb) =>
        match py_block ev hb (bind name e st) with
        | (st2, Fuel) => (st2, Fuel)
        | (st2, o) => (unbind name st2, o)
        end
    end.

  Definition py_finally (rec : option exc -> stmt -> state -> state * outcome) (cur : option exc)
             (finalbody : list stmt) (p : state * outcome) : state * outcome :=
    match p with
    | (st2, Fuel) => (st2, Fuel)
    | (st2, o2) =>
        let cur' := match o2 with Exc e => Some e | _ => cur end in
        match py_block (rec cur') finalbody st2 with
        | (st3, Normal) => (st3, o2)
        | other => other
        end
    end.

  Definition py_try (rec : option exc -> stmt -> state -> state * outcome) (cur : option exc)
             (body : list stmt) (hs : list handler) (orelse finalbody : list stmt) (st : state) : state * outcome :=
    py_finally rec cur finalbody
      (match py_block (rec cur) body st with
       | (st1, Exc e) => py_handle (rec (Some e)) e hs st1
       | (st1, Normal) => py_block (rec cur) orelse st1
       | other => other
       end).

  (* Language Reference 8.5, one item *)
  Definition py_with1 (m : N) (inner : state -> state * outcome) (st : state) : state * outcome :=
    match do_enter m (emit (EvMk m) st) with
    | (Some e, st2) => (st2, Exc e)
    | (None, st2) =>
        match inner st2 with
        | (st3, Fuel) => (st3, Fuel)
        | (st3, Exc e) =>
            match do_exit m (Some e) st3 with
            | (XRaise e', st4) => (st4, Exc e')
            | (XRet true, st4) => (st4, Normal)
            | (XRet false, st4) => (st4, Exc e)
            end
        | (st3, o) =>
            match do_exit m None st3 with
            | (XRaise e', st4) => (st4, Exc e')
            | (XRet _, st4) => (st4, o)
            end
        end
    end.
  (* `with A, B: body` is `with A: with B: body` *)
  Fixpoint py_with (ev : stmt -> state -> state * outcome) (items : list N) (body : list stmt) (st : state) : state * outcome :=
    match items with
    | [] => py_block ev body st
    | m :: r => py_with1 m (py_with ev r body) st
    end.

  Definition py_call_result (o : outcome) : call_result :=
    match o with
    | Normal => CRet None
    | Ret v => CRet v
    | Exc e => CExc e
    | Fuel => CFuel
    | Brk | Cont => CExc (exc_of cls_SyntaxError)        (* rejected by the compiler; excluded by [supported] *)
    end.

  Definition py_call (ev : stmt -> state -> state * outcome) (k : N) (body : list stmt) (st : state) : state * outcome :=
    let env0 := s_env st in
    match py_block ev body (set_env [] st) with
    | (st1, o) =>
        match py_call_result o with
        | CRet v => (emit (EvRet k v) (set_env env0 st1), Normal)
        | CExc e => (set_env env0 st1, Exc e)
        | CFuel => (st1, Fuel)
        end
    end.

  Definition py_xcall (ev : stmt -> state -> state * outcome) (k : N) (info : option exc) (xbody : list stmt)
             (st : state) : state * call_result :=
    let env0 := s_env st in
    match py_block ev xbody (set_env [] (emit (EvExit k info) st)) with
    | (st1, o) =>
        match py_call_result o with
        | CFuel => (st1, CFuel)
        | r => (set_env env0 st1, r)
        end
    end.

  (* reference 8.5 for a manager whose __exit__ is a script function: called with the exception (being handled
     while it runs) or with None; a true result suppresses *)
  Definition py_withS (rec : option exc -> stmt -> state -> state * outcome) (cur : option exc)
             (k : N) (xbody body : list stmt) (st : state) : state * outcome :=
    match py_block (rec cur) body (emit (EvEnter k) st) with
    | (st3, Fuel) => (st3, Fuel)
    | (st3, Exc e) =>
        match py_xcall (rec (Some e)) k (Some e) xbody st3 with
        | (st4, CFuel) => (st4, Fuel)
        | (st4, CExc e') => (st4, Exc e')
        | (st4, CRet v) => if truthy v then (st4, Normal) else (st4, Exc e)
        end
    | (st3, o) =>
        match py_xcall (rec cur) k None xbody st3 with
        | (st4, CFuel) => (st4, Fuel)
        | (st4, CExc e') => (st4, Exc e')
        | (st4, CRet _) => (st4, o)
        end
    end.

  Definition py_step (rec : option exc -> stmt -> state -> state * outcome) (lf : nat)
             (cur : option exc) (s : stmt) (st : state) : state * outcome :=
    match s with
    | STrace n => (emit (EvT n) st, Normal)
    | SPass => (st, Normal)
    | SProbe k name => (emit (EvP k name (env_get name (s_env st))) st, Normal)
    | SIf k b o =>
        match q_cond k st with
        | (true, st1) => py_block (rec cur) b st1
        | (false, st1) => py_block (rec cur) o st1
        end
    | SWhile k b o => py_loop (q_cond k) (rec cur) lf b o st
    | SFor _ k b o => py_loop (q_next k) (rec cur) lf b o (q_iter k st)
    | SBreak => (st, Brk)
    | SContinue => (st, Cont)
    | SReturn v => (st, Ret v)
    | SRaise c cause => (st, Exc (mkExc c cause))
    | SReraise => (st, Exc (reraise cur))
    | STry b hs o f => py_try rec cur b hs o f st
    | SWith _ items b => py_with (rec cur) items b st
    | SAssert k msg =>
        match q_cond k st with
        | (true, st1) => (st1, Normal)
        | (false, st1) => match assert_fail msg st1 with (st2, e) => (st2, Exc e) end
        end
    | SFunc _ k b => py_call (rec cur) k b st
    | SSwitch k => (emit (EvSw k) (set_h (h_sw h k (s_h st)) st), Normal)
    | SWithS _ k x b => py_withS rec cur k x b st
    end.

  Fixpoint py_stmt (fuel : nat) (cur : option exc) (s : stmt) (st : state) : state * outcome :=
    match fuel with
    | O => (st, Fuel)
    | S f => py_step (py_stmt f) (S f) cur s st
    end.

  (* ================================================================================================== *)
  (* a skeleton wrapped in a function and called with no exception being handled                         *)
  (* ================================================================================================== *)
  Definition init (h0 : H) : state := mkSt h0 [] [].
  Definition finish (r : state * call_result) : list event * call_result := (rev (s_tr (fst r)), snd r).

  Definition ps_exec (cfg : deviations) (fuel : nat) (body : list stmt) (h0 : H) : list event * call_result :=
    finish (ps_func_block (ps_stmt cfg fuel None) body (init h0)).
  Definition py_exec (fuel : nat) (body : list stmt) (h0 : H) : list event * call_result :=
    finish (match py_block (py_stmt fuel None) body (init h0) with (st, o) => (st, py_call_result o) end).
End Exec.

Arguments state : clear implicits.
