(* Task/LifecycleCheck.v — what the generated correspondence files evaluate for C14.

   [sim]              a deterministic discrete-event scheduler (virtual clock, FIFO of wake-ups inside one instant) that
                      drives the transition system of Task/Lifecycle.v through a generated task graph: every registry
                      effect goes through [step]; the scheduler only decides WHICH label comes next and WHEN.
   [lcase_model_ok]   the events the real pyscript produced (markers, callback invocations, wait results, fault
                      injections, each with virtual time and a snapshot of the registries) are the ones the simulation
                      predicts, task by task; and the label sequence the simulation chose is a path of the transition
                      system ([run]) whose final state shows the registries / task results observed at quiescence (tie T2).
   [lcase_spec_ok]    what the real code did satisfies the property - computed from the observation and the generated
                      programs only, never from the model.
   [lcase_attrib]     which open findings explain a Spec failure.
   Times are in ticks of 2^-12 s; all timers of a case fall on distinct instants (the generator builds durations from
   distinct powers of two); a tie is reported as a model error. *)
From PV Require Import Common.Util Task.Lifecycle.
Local Open Scope N_scope.

(* ---------- generated programs ---------- *)
Inductive sop :=
  | SSleep (d : N) | SAdd (x : tid) (j : cbid) (a : N) | SRem (x : tid) (j : cbid) | SWait (x : tid)
  | SCancel (x : tid) | SCancelSelf | SCreate (c : tid) | SClaim (n : name) | SRaise | SRet (v : N)
  | SCall (x : tid).       (* service.call("pyscript", <service x>, blocking=True): starts service run x and awaits it *)
Record tdesc := mkTd { td_kind : kind; td_at : N; td_steps : list sop }.
Record cbdesc := mkCd { cd_sleep : N; cd_raise : bool }.
Inductive fpoint := FStep (k : N) | FCb (j : cbid).
Record fault := mkF { f_task : tid; f_pt : fpoint; f_off : N }.

(* ---------- observations ---------- *)
Inductive ekind :=
  | EM (k : N)                                  (* marker: task is about to execute step k (k = #steps: fell off the end) *)
  | EX (e : N)                                  (* the body raised: 1 KeyError, 2 TypeError, 3 ValueError, 0 other *)
  | EW (x : tid) (dn cn : bool) (res : N)       (* task.wait({x}) returned; x.done(), x.cancelled(), result code *)
  | ER (x : tid) (dn cn : bool) (res : N)       (* the blocking service.call that started x returned; same data *)
  | ECb (j : cbid) (a : N)                      (* done-callback j called with argument a *)
  | ECe (j : cbid)                              (* a suspending callback resumed *)
  | EF (i : tid) (ok : bool)                    (* fault: the real user_task_cancel(task i) was called; ok = no TypeError *)
  | EL (me : N).                                (* an event of this run carried the value [me] of its local variable `me`, which is not the run's own number *)
Record event := mkE { e_time : N; e_who : N; e_kind : ekind; e_snap : N }.
Definition DRIVER : N := 99.
(* result code: 0 = None, v+1 = integer v, 999 = an exception object *)

Record fin_task := mkFt { ft_known : bool; ft_done : bool; ft_cancelled : bool; ft_res : N; ft_bits : N }.

Record lcase := mkLc {
  lc_legacy : bool;
  lc_tasks : list tdesc;
  lc_cbs : list cbdesc;
  lc_faults : list fault;
  lc_names : list name;                 (* the unique names used, ascending *)
  lc_events : list event;               (* observed *)
  lc_fin : list fin_task;               (* observed at quiescence, per task *)
  lc_fin_names : list (N * N);          (* observed unique_name2task: (name, owner or 99) *)
  lc_fin_rq : N;                        (* observed length of the reaper queue *)
  lc_stray : N;                         (* observed registry entries of tasks that are not part of the case *)
  lc_clean : bool                       (* no harness error *)
}.

(* ---------- scheduler state ---------- *)
Inductive susp := UNone | USleep | UWait (x : tid) | USelf | UCb | UCall (x : tid).
Inductive timer := TWake (t : tid) | TFault (x : tid) | TInject (t : tid).
(* one entry = one callback in asyncio's ready queue (call_soon order) *)
Inductive work :=
  | WStart (t : tid)                 (* first step of a new task *)
  | WTimer (t : tid)                 (* the sleep of t (body or done-callback) is over *)
  | WCancelWake (t : tid)            (* Task.cancel() cancelled the future t waits on *)
  | WCompletion (w x : tid)          (* asyncio.wait's _on_completion for waiter w: x is done *)
  | WWaitDone (w x : tid)            (* ... which resolved w's waiter future: w resumes *)
  | WCallDone (w x : tid)            (* the service task x that w awaits inside service.call is done *)
  | WReaper                          (* the reaper's q.get() has an item *)
  | WReaperWake.                     (* the task the reaper awaits is done *)
Inductive awaiter := AWait (w : tid) | ACall (w : tid) | AReaper.

Record sched := mkSc {
  sc_st : state;
  sc_now : N;
  sc_pc : tid -> nat;
  sc_susp : tid -> susp;
  sc_timers : list (N * timer);
  sc_waiters : list (awaiter * tid);    (* (who awaits, awaited task), in registration order *)
  sc_work : list work;
  sc_faults : list fault;
  sc_events : list event;               (* newest first *)
  sc_labels : list label;               (* newest first *)
  sc_err : bool
}.

Definition with_st (sc : sched) (s : state) (ls : list label) : sched :=
  mkSc s (sc_now sc) (sc_pc sc) (sc_susp sc) (sc_timers sc) (sc_waiters sc) (sc_work sc) (sc_faults sc) (sc_events sc) ls (sc_err sc).
Definition with_now (sc : sched) (n : N) : sched :=
  mkSc (sc_st sc) n (sc_pc sc) (sc_susp sc) (sc_timers sc) (sc_waiters sc) (sc_work sc) (sc_faults sc) (sc_events sc) (sc_labels sc) (sc_err sc).
Definition with_pc (sc : sched) (t : tid) (k : nat) : sched :=
  mkSc (sc_st sc) (sc_now sc) (upd (sc_pc sc) t k) (sc_susp sc) (sc_timers sc) (sc_waiters sc) (sc_work sc) (sc_faults sc) (sc_events sc) (sc_labels sc) (sc_err sc).
Definition with_susp (sc : sched) (t : tid) (u : susp) : sched :=
  mkSc (sc_st sc) (sc_now sc) (sc_pc sc) (upd (sc_susp sc) t u) (sc_timers sc) (sc_waiters sc) (sc_work sc) (sc_faults sc) (sc_events sc) (sc_labels sc) (sc_err sc).
Definition with_timers (sc : sched) (l : list (N * timer)) : sched :=
  mkSc (sc_st sc) (sc_now sc) (sc_pc sc) (sc_susp sc) l (sc_waiters sc) (sc_work sc) (sc_faults sc) (sc_events sc) (sc_labels sc) (sc_err sc).
Definition with_waiters (sc : sched) (l : list (awaiter * tid)) : sched :=
  mkSc (sc_st sc) (sc_now sc) (sc_pc sc) (sc_susp sc) (sc_timers sc) l (sc_work sc) (sc_faults sc) (sc_events sc) (sc_labels sc) (sc_err sc).
Definition with_work (sc : sched) (l : list work) : sched :=
  mkSc (sc_st sc) (sc_now sc) (sc_pc sc) (sc_susp sc) (sc_timers sc) (sc_waiters sc) l (sc_faults sc) (sc_events sc) (sc_labels sc) (sc_err sc).
Definition with_faults (sc : sched) (l : list fault) : sched :=
  mkSc (sc_st sc) (sc_now sc) (sc_pc sc) (sc_susp sc) (sc_timers sc) (sc_waiters sc) (sc_work sc) l (sc_events sc) (sc_labels sc) (sc_err sc).
Definition with_events (sc : sched) (l : list event) : sched :=
  mkSc (sc_st sc) (sc_now sc) (sc_pc sc) (sc_susp sc) (sc_timers sc) (sc_waiters sc) (sc_work sc) (sc_faults sc) l (sc_labels sc) (sc_err sc).
Definition set_err (sc : sched) : sched :=
  mkSc (sc_st sc) (sc_now sc) (sc_pc sc) (sc_susp sc) (sc_timers sc) (sc_waiters sc) (sc_work sc) (sc_faults sc) (sc_events sc) (sc_labels sc) true.

Definition push_work (w : work) (sc : sched) : sched := with_work sc (sc_work sc ++ [w]).
Definition add_timer (at_ : N) (tm : timer) (sc : sched) : sched := with_timers sc (sc_timers sc ++ [(at_, tm)]).

Definition fpoint_eqb (a b : fpoint) : bool :=
  match a, b with FStep k, FStep k' => N.eqb k k' | FCb j, FCb j' => N.eqb j j' | _, _ => false end.

Definition bits_of (s : state) (t : tid) : N :=
  (if st_ours s t then 1 else 0) + (match st_cb s t with Some _ => 2 | None => 0 end)
  + (if st_ctx s t then 4 else 0) + (match st_t2n s t with Some _ => 8 | None => 0 end).

Definition res_code (r : trec) : N :=
  match tr_final r with
  | Some (ORet (Some v)) => match tr_kind r with KTrig | KShutL => 0 | _ => v + 1 end
  | Some OEscape => 999
  | _ => 0
  end.
Definition is_cancelled (r : trec) : bool := match tr_final r with Some OCancel => true | _ => false end.

Definition NO_INJECT : N := 2 ^ 40.

Section Sim.
  Variable cfg : deviations.
  Variable tasks : list tdesc.
  Variable cbs : list cbdesc.

  Definition ntasks : N := N.of_nat (length tasks).
  Definition desc_of (t : tid) : option tdesc := nth_error tasks (N.to_nat t).
  Definition steps_of (t : tid) : list sop := match desc_of t with Some d => td_steps d | None => [] end.
  Definition kind_of (t : tid) : kind := match desc_of t with Some d => td_kind d | None => KCreate end.
  Definition cb_of (j : cbid) : cbdesc := nth (N.to_nat j) cbs (mkCd 0 false).

  (* the script's table T has an entry for x: set by the creator for task.create, by the task's first statement otherwise *)
  Definition known (s : state) (x : tid) : bool :=
    (x <? ntasks) &&
    match phase_of s x with
    | PNone => false
    | PCreated => match kind_of x with KCreate => true | _ => false end
    | PDone => match kind_of x, tr_out (st_task s x) with
               | KCreate, _ => true
               | _, None => false                 (* cancelled before its first step: T[x] was never set *)
               | _, _ => true
               end
    | _ => true
    end.

  Fixpoint snap_from (s : state) (i : nat) (n : nat) (w : N) : N :=
    match n with
    | O => 0
    | S n' => (if known s (N.of_nat i) then bits_of s (N.of_nat i) * w else 0) + snap_from s (S i) n' (w * 16)
    end.
  Definition snap (s : state) : N := snap_from s 0 (length tasks) 1.

  Definition app (l : label) (sc : sched) : sched :=
    match step cfg (sc_st sc) l with
    | Some s' => with_st sc s' (l :: sc_labels sc)
    | None => set_err sc
    end.
  Definition emit (who : N) (k : ekind) (sc : sched) : sched :=
    with_events sc (mkE (sc_now sc) who k (snap (sc_st sc)) :: sc_events sc).

  (* a fault attached to this point is armed: the cancel request arrives [off] ticks later *)
  Definition arm (t : tid) (pt : fpoint) (sc : sched) : sched :=
    let hit := fun f => N.eqb (f_task f) t && fpoint_eqb (f_pt f) pt in
    let mine := filter hit (sc_faults sc) in
    let rest := filter (fun f => negb (hit f)) (sc_faults sc) in
    fold_left (fun sc' f => add_timer (sc_now sc' + f_off f) (TFault t) sc') mine (with_faults sc rest).

  Definition cur_cb (s : state) (t : tid) : option (cbid * N) :=
    match find (fun e => N.eqb (fst (fst e)) t) (st_log s) with Some e => Some (snd (fst e), snd e) | None => None end.

  (* task t is done: its done-callbacks are scheduled in registration order (asyncio.wait's _on_completion of each
     waiter, the reaper's wake-up) *)
  Definition task_done (t : tid) (sc : sched) : sched :=
    let mine := filter (fun p => N.eqb (snd p) t) (sc_waiters sc) in
    let rest := filter (fun p => negb (N.eqb (snd p) t)) (sc_waiters sc) in
    let sc1 := fold_left (fun sc' p => push_work (match fst p with
                                                  | AReaper => WReaperWake
                                                  | AWait w => WCompletion w t
                                                  | ACall w => WCallDone w t
                                                  end) sc')
                         mine (with_waiters sc rest) in
    with_susp sc1 t UNone.

  (* reaper_cancel = q.put_nowait: the reaper is woken (one ready-queue entry) only if the queue really got an item while the
     reaper sits in q.get() and has not been woken already *)
  Definition kick_reaper (before : sched) (sc : sched) : sched :=
    if Nat.ltb (length (st_rq (sc_st before))) (length (st_rq (sc_st sc)))
       && match st_rbusy (sc_st sc) with None => true | Some _ => false end
       && negb (existsb (fun w => match w with WReaper => true | _ => false end) (sc_work sc))
    then push_work WReaper sc else sc.

  Definition FUEL : nat := 40.

  (* run_coro's finally from the current position up to the next suspension *)
  Fixpoint fin_loop (fuel : nat) (t : tid) (sc : sched) : sched :=
    match fuel with
    | O => set_err sc
    | S f =>
      match step cfg (sc_st sc) (LCbBegin t) with
      | Some _ =>
          let sc1 := app (LCbBegin t) sc in
          if is_done (sc_st sc1) t then task_done t sc1                 (* RuntimeError left run_coro *)
          else match cur_cb (sc_st sc1) t with
               | Some (j, a) =>
                   let sc2 := arm t (FCb j) (emit t (ECb j a) sc1) in
                   let cd := cb_of j in
                   if 0 <? cd_sleep cd then with_susp (add_timer (sc_now sc2 + cd_sleep cd) (TWake t) sc2) t UCb
                   else fin_loop f t (app (LCbEnd t (if cd_raise cd then CbRaise else CbOk)) sc2)
               | None => set_err sc1
               end
      | None =>
          let sc1 := app (LExit t) sc in
          if is_done (sc_st sc1) t then task_done t sc1 else set_err sc1
      end
    end.

  (* the body of t from its program counter up to the next suspension *)
  Fixpoint body_loop (fuel : nat) (t : tid) (sc : sched) : sched :=
    match fuel with
    | O => set_err sc
    | S f =>
      let k := sc_pc sc t in
      let kN := N.of_nat k in
      match nth_error (steps_of t) k with
      | None => fin_loop FUEL t (app (LEnd t (ORet None)) (emit t (EM kN) sc))
      | Some op =>
        let sc1 := arm t (FStep kN) (emit t (EM kN) sc) in
        let next := fun sc' => body_loop f t (with_pc sc' t (S k)) in
        let fail := fun (e : N) sc' => fin_loop FUEL t (emit t (EX e) sc') in
        let nokey := fun (_ : unit) => fail 1 (app (LEnd t ORaise) sc1) in        (* T[x]: KeyError *)
        match op with
        | SSleep d => with_susp (add_timer (sc_now sc1 + d) (TWake t) (with_pc sc1 t (S k))) t USleep
        | SAdd x j a =>
            if known (sc_st sc1) x then
              let sc2 := app (LAdd t x j a) sc1 in
              if running (sc_st sc2) t then next sc2 else fail 1 sc2
            else nokey tt
        | SRem x j =>
            if known (sc_st sc1) x then
              let sc2 := app (LRem t x j) sc1 in
              if running (sc_st sc2) t then next sc2 else fail 1 sc2
            else nokey tt
        | SWait x =>
            if known (sc_st sc1) x then
              let sc2 := with_susp (with_pc sc1 t (S k)) t (UWait x) in
              if is_done (sc_st sc2) x then push_work (WCompletion t x) sc2
              else with_waiters sc2 (sc_waiters sc2 ++ [(AWait t, x)])
            else nokey tt
        | SCancel x =>
            if known (sc_st sc1) x then
              let sc2 := app (LCancel (Some t) x) sc1 in
              if running (sc_st sc2) t then next (kick_reaper sc1 sc2) else fail 2 sc2
            else nokey tt
        | SCancelSelf =>
            with_susp (kick_reaper sc1 (app (LCancel (Some t) t) (with_pc sc1 t (S k)))) t USelf
        | SCreate c => next (push_work (WStart c) (app (LCreate c KCreate) sc1))
        | SClaim n => next (kick_reaper sc1 (app (LClaim t n) sc1))
        | SCall x =>
            (* HA runs the handler inline: create_task for the service run, then [await task] *)
            let sc2 := push_work (WStart x) (app (LCreate x KSvc) (with_pc sc1 t (S k))) in
            with_susp (with_waiters sc2 (sc_waiters sc2 ++ [(ACall t, x)])) t (UCall x)
        | SRaise => fail 3 (app (LEnd t ORaise) sc1)
        | SRet v => fin_loop FUEL t (app (LEnd t (ORet (Some v))) sc1)
        end
      end
    end.

  (* the event loop steps task t because of wake-up [w] *)
  Definition resume (w : work) (t : tid) (sc : sched) : sched :=
    let u := sc_susp sc t in
    let r := st_task (sc_st sc) t in
    match u with
    | UNone => sc                                                    (* stale wake-up *)
    | _ =>
      if tr_creq r then                                              (* CancelledError is thrown into the coroutine *)
        let sc0 := with_susp sc t UNone in
        match tr_phase r with
        | PBody => fin_loop FUEL t (app (LEnd t OCancel) sc0)
        | PFin _ _ true _ =>
            let sc1 := app (LCbEnd t CbCancelled) sc0 in
            if is_done (sc_st sc1) t then task_done t sc1 else fin_loop FUEL t sc1
        | _ => set_err sc0
        end
      else
        match w, u with
        | WTimer _, USleep => body_loop FUEL t (with_susp sc t UNone)
        | WTimer _, UCb =>
            match cur_cb (sc_st sc) t with
            | Some (j, _) =>
                let sc1 := emit t (ECe j) (with_susp sc t UNone) in
                fin_loop FUEL t (app (LCbEnd t (if cd_raise (cb_of j) then CbRaise else CbOk)) sc1)
            | None => set_err sc
            end
        | WWaitDone _ x, UWait x' =>
            if N.eqb x x' && is_done (sc_st sc) x then
              let rx := st_task (sc_st sc) x in
              body_loop FUEL t (emit t (EW x true (is_cancelled rx) (res_code rx)) (with_susp sc t UNone))
            else sc
        | WCallDone _ x, UCall x' =>
            if N.eqb x x' && is_done (sc_st sc) x then
              let rx := st_task (sc_st sc) x in
              let sc0 := with_susp sc t UNone in
              if is_cancelled rx && d_call_cancel_kills cfg then fin_loop FUEL t (app (LCallKilled t x) sc0)
              else body_loop FUEL t (emit t (ER x true (is_cancelled rx) (if is_cancelled rx then 0 else res_code rx)) sc0)
            else sc
        | _, _ => sc
        end
    end.

  (* task_reaper: pop commands until one needs awaiting (or the queue is empty) - one atomic step of the reaper task *)
  Fixpoint reaper_loop (fuel : nat) (sc : sched) : sched :=
    match fuel with
    | O => set_err sc
    | S f =>
      match st_rbusy (sc_st sc), st_rq (sc_st sc) with
      | None, x :: _ =>
          let sc1 := app LReaper sc in
          match st_rbusy (sc_st sc1) with
          | Some _ =>
              (* Task.cancel(): the future x waits on is cancelled, x is scheduled with CancelledError; then [await x] *)
              let sc2 := with_timers sc1 (filter (fun p => match snd p with TWake t => negb (N.eqb t x) | _ => true end)
                                                 (sc_timers sc1)) in
              let sc3 := with_waiters sc2 (filter (fun p => match fst p with AWait w => negb (N.eqb w x) | _ => true end)
                                                  (sc_waiters sc2) ++ [(AReaper, x)]) in
              match sc_susp sc3 x with
              | UCall y =>
                  (* x awaits task y: the cancellation goes to y, x is resumed (with CancelledError) when y is done *)
                  let was_done := is_done (sc_st sc3) y in
                  let sc4 := app (LPropCancel x y) sc3 in
                  if was_done then sc4
                  else if is_done (sc_st sc4) y then task_done y sc4
                  else
                    let sc5 := with_timers sc4 (filter (fun p => match snd p with TWake t => negb (N.eqb t y) | _ => true end)
                                                       (sc_timers sc4)) in
                    let sc6 := with_waiters sc5 (filter (fun p => match fst p with AWait w => negb (N.eqb w y) | _ => true end)
                                                        (sc_waiters sc5)) in
                    push_work (WCancelWake y) sc6
              | _ => push_work (WCancelWake x) sc3
              end
          | None => if sc_err sc1 then sc1 else reaper_loop f sc1            (* cancel() of a finished task, [await] returns at once *)
          end
      | _, _ => sc
      end
    end.

  Definition do_work (w : work) (sc : sched) : sched :=
    match w with
    | WStart t =>
        match phase_of (sc_st sc) t with
        | PCreated => body_loop FUEL t (app (LStart t) sc)
        | _ => sc                                  (* cancelled before its first step: the coroutine never runs *)
        end
    | WTimer t | WCancelWake t => resume w t sc
    | WCompletion t x => push_work (WWaitDone t x) sc
    | WWaitDone t _ | WCallDone t _ => resume w t sc
    | WReaper => reaper_loop FUEL sc
    | WReaperWake =>
        match st_rbusy (sc_st sc) with
        | Some x => if is_done (sc_st sc) x then reaper_loop FUEL (app LReaperWake sc) else sc
        | None => sc
        end
    end.

  Definition do_timer (tm : timer) (sc : sched) : sched :=
    match tm with
    | TWake t => push_work (WTimer t) sc
    | TInject t => push_work (WStart t) (app (LCreate t (kind_of t)) sc)
    | TFault x =>
        if known (sc_st sc) x then
          let ok := st_ours (sc_st sc) x in
          let sc1 := emit DRIVER (EF x ok) (app (LCancel None x) sc) in
          if ok then kick_reaper sc sc1 else sc1
        else emit DRIVER (EF x false) sc
    end.

  Fixpoint min_time (l : list (N * timer)) (best : N) : N :=
    match l with [] => best | (a, _) :: r => min_time r (N.min a best) end.
  Fixpoint take_at (a : N) (l : list (N * timer)) : option (timer * list (N * timer)) :=
    match l with
    | [] => None
    | (b, tm) :: r => if N.eqb a b then Some (tm, r)
                      else match take_at a r with Some (tm', r') => Some (tm', (b, tm) :: r') | None => None end
    end.

  Fixpoint main_loop (fuel : nat) (sc : sched) : sched :=
    match fuel with
    | O => set_err sc
    | S f =>
      match sc_work sc with
      | w :: rest => main_loop f (do_work w (with_work sc rest))
      | [] =>
        match sc_timers sc with
        | [] => sc
        | (a0, _) :: _ =>
            let a := min_time (sc_timers sc) a0 in
            match take_at a (sc_timers sc) with
            | Some (tm, rest) =>
                if existsb (fun p => N.eqb (fst p) a) rest then set_err sc            (* a tie: outside the generated space *)
                else main_loop f (do_timer tm (with_now (with_timers sc rest) a))
            | None => set_err sc
            end
        end
      end
    end.

  (* a @service that is started by some task's SCall step, never by the driver: marked by td_at = NO_INJECT *)
  Definition is_callee (x : tid) : bool :=
    match desc_of x with Some d => N.eqb (td_at d) NO_INJECT | None => false end.
  Fixpoint inject_timers (l : list tdesc) (i : N) : list (N * timer) :=
    match l with
    | [] => []
    | d :: r => match td_kind d with
                | KCreate => inject_timers r (i + 1)
                | _ => if is_callee i then inject_timers r (i + 1) else (td_at d, TInject i) :: inject_timers r (i + 1)
                end
    end.

  Definition sim (faults : list fault) : sched :=
    main_loop 3000 (mkSc init_state 0 (fun _ => O) (fun _ => UNone) (inject_timers tasks 0) [] [] faults [] [] false).
End Sim.

(* ---------- comparison with the observation ---------- *)
Definition ekind_eqb (a b : ekind) : bool :=
  match a, b with
  | EM k, EM k' => N.eqb k k'
  | EX e, EX e' => N.eqb e e'
  | EW x d c r, EW x' d' c' r' | ER x d c r, ER x' d' c' r' => N.eqb x x' && Bool.eqb d d' && Bool.eqb c c' && N.eqb r r'
  | ECb j a, ECb j' a' => N.eqb j j' && N.eqb a a'
  | ECe j, ECe j' => N.eqb j j'
  | EF i ok, EF i' ok' => N.eqb i i' && Bool.eqb ok ok'
  | EL m, EL m' => N.eqb m m'
  | _, _ => false
  end.
Definition event_eqb (a b : event) : bool :=
  N.eqb (e_time a) (e_time b) && N.eqb (e_who a) (e_who b) && ekind_eqb (e_kind a) (e_kind b) && N.eqb (e_snap a) (e_snap b).
Definition proj (who : N) (l : list event) : list event := filter (fun e => N.eqb (e_who e) who) l.
Fixpoint upto (n : nat) : list N := match n with O => [] | S n' => upto n' ++ [N.of_nat n'] end.

Definition fin_task_eqb (a b : fin_task) : bool :=
  Bool.eqb (ft_known a) (ft_known b) && Bool.eqb (ft_done a) (ft_done b) && Bool.eqb (ft_cancelled a) (ft_cancelled b)
  && N.eqb (ft_res a) (ft_res b) && N.eqb (ft_bits a) (ft_bits b).

Definition fin_of (tasks : list tdesc) (s : state) (t : tid) : fin_task :=
  if known tasks s t then
    let r := st_task s t in
    mkFt true (is_done s t) (is_cancelled r) (if is_cancelled r then 0 else res_code r) (bits_of s t)
  else mkFt false false false 0 0.
Definition names_of (s : state) (names : list name) : list (N * N) :=
  flat_map (fun n => match st_n2t s n with Some o => [(n, o)] | None => [] end) names.
Definition pair_eqb (a b : N * N) : bool := N.eqb (fst a) (fst b) && N.eqb (snd a) (snd b).

(* what the model predicts for a case, in the shape of an observation *)
Definition predict (cfg : deviations) (c : lcase) : lcase :=
  let sc := sim cfg (lc_tasks c) (lc_cbs c) (lc_faults c) in
  match run cfg (rev (sc_labels sc)) with
  | Some s =>
      mkLc (lc_legacy c) (lc_tasks c) (lc_cbs c) (lc_faults c) (lc_names c) (rev (sc_events sc))
           (map (fin_of (lc_tasks c) s) (upto (length (lc_tasks c)))) (names_of s (lc_names c))
           (N.of_nat (length (st_rq s))) 0 (negb (sc_err sc))
  | None => mkLc (lc_legacy c) (lc_tasks c) (lc_cbs c) (lc_faults c) (lc_names c) [] [] [] 0 0 false
  end.

Definition obs_eqb (p c : lcase) : bool :=
  forallb (fun who => list_eqb event_eqb (proj who (lc_events p)) (proj who (lc_events c)))
          (upto (length (lc_tasks c)) ++ [DRIVER])
  && Nat.eqb (length (lc_events p)) (length (lc_events c))
  && list_eqb fin_task_eqb (lc_fin p) (lc_fin c)
  && list_eqb pair_eqb (lc_fin_names p) (lc_fin_names c)
  && N.eqb (lc_fin_rq p) (lc_fin_rq c) && N.eqb (lc_stray p) (lc_stray c).

Definition lcase_model_ok (cfg : deviations) (c : lcase) : bool :=
  lc_clean c && (let p := predict cfg c in lc_clean p && obs_eqb p c).

(* ---------- the Spec, on observations ---------- *)
Section Spec.
  Variable c : lcase.
  Definition sp_steps (t : tid) : list sop := steps_of (lc_tasks c) t.
  Definition sp_kind (t : tid) : kind := kind_of (lc_tasks c) t.
  Definition sp_fin (t : tid) : fin_task := nth (N.to_nat t) (lc_fin c) (mkFt false false false 0 0).

  Definition next_is (rest : list event) (who k : N) : bool :=
    match rest with
    | e :: _ => N.eqb (e_who e) who && match e_kind e with EM k' => N.eqb k k' | _ => false end
    | [] => false
    end.

  (* operations that took effect, in global order, with their position: an add/remove/cancel/claim/create step succeeded
     iff the very next event is the same task's next marker *)
  Fixpoint succ_ops (evs : list event) (idx : nat) : list (nat * N * sop) :=
    match evs with
    | [] => []
    | e :: rest =>
        (match e_kind e with
         | EM k =>
             match nth_error (sp_steps (e_who e)) (N.to_nat k) with
             | Some op =>
                 let ok := match op with
                           | SAdd _ _ _ | SRem _ _ | SCancel _ | SClaim _ | SCreate _ => next_is rest (e_who e) (k + 1)
                           | SCancelSelf => true
                           | _ => false
                           end in
                 if ok then [(idx, e_who e, op)] else []
             | None => []
             end
         | EF i true => [(idx, DRIVER, SCancel i)]
         | _ => []
         end) ++ succ_ops rest (S idx)
    end.
  Definition ops : list (nat * N * sop) := succ_ops (lc_events c) 0.

  Fixpoint find_idx (f : event -> bool) (evs : list event) (idx : nat) : option nat :=
    match evs with [] => None | e :: r => if f e then Some idx else find_idx f r (S idx) end.
  Definition first_cb (t : tid) : option nat :=
    find_idx (fun e => N.eqb (e_who e) t && match e_kind e with ECb _ _ => true | _ => false end) (lc_events c) 0.
  Definition before_fin (t : tid) (idx : nat) : bool :=
    match first_cb t with Some i => Nat.ltb idx i | None => true end.

  Fixpoint assoc_set (j : cbid) (a : N) (l : list (cbid * N)) : list (cbid * N) :=
    match l with
    | [] => [(j, a)]
    | (j', a') :: r => if N.eqb j' j then (j, a) :: r else (j', a') :: assoc_set j a r
    end.
  Definition assoc_del (j : cbid) (l : list (cbid * N)) : list (cbid * N) := filter (fun p => negb (N.eqb (fst p) j)) l.

  (* the callbacks registered on t and not removed when its body ended *)
  Definition expected (t : tid) : list (cbid * N) :=
    fold_left (fun acc o =>
                 let '(idx, _, op) := o in
                 if before_fin t idx then
                   match op with
                   | SAdd x j a => if N.eqb x t then assoc_set j a acc else acc
                   | SRem x j => if N.eqb x t then assoc_del j acc else acc
                   | _ => acc
                   end
                 else acc) ops [].
  (* callbacks whose registration on t was changed while t's done-callbacks were already running: no claim *)
  Definition touched (t : tid) (j : cbid) : bool :=
    existsb (fun o => let '(idx, _, op) := o in
                      negb (before_fin t idx) &&
                      match op with
                      | SAdd x j' _ | SRem x j' => N.eqb x t && N.eqb j' j
                      | _ => false
                      end) ops.
  Definition calls_obs (t : tid) : list (cbid * N) :=
    flat_map (fun e => if N.eqb (e_who e) t then match e_kind e with ECb j a => [(j, a)] | _ => [] end else []) (lc_events c).
  Definition count_cb (j : cbid) (l : list (cbid * N)) : nat := length (filter (fun p => N.eqb (fst p) j) l).

  (* S2: each registered, not removed callback ran exactly once with its arguments; no other callback ran *)
  Definition spec_callbacks (t : tid) : bool :=
    let exp := expected t in
    let got := calls_obs t in
    forallb (fun j =>
               if touched t j then Nat.leb (count_cb j got) 1
               else match tbl_lookup j exp with
                    | Some a => Nat.eqb (count_cb j got) 1 && existsb (fun p => N.eqb (fst p) j && N.eqb (snd p) a) got
                    | None => Nat.eqb (count_cb j got) 0
                    end)
            (upto (length (lc_cbs c))).

  (* S1: nothing remembers a finished task *)
  Definition spec_cleanup (t : tid) : bool :=
    N.eqb (ft_bits (sp_fin t)) 0 && negb (existsb (fun p => N.eqb (snd p) t) (lc_fin_names c)).

  (* who was asked to be cancelled (task.cancel, faults, task.unique taking a name over) *)
  Fixpoint owners_after (l : list (nat * N * sop)) (own : list (name * N)) (acc : list tid) : list tid :=
    match l with
    | [] => acc
    | (_, who, op) :: r =>
        match op with
        | SCancel x => owners_after r own (x :: acc)
        | SCancelSelf => owners_after r own (who :: acc)
        | SClaim n =>
            let prev := tbl_lookup n own in
            let acc' := match prev with Some o => if N.eqb o who then acc else o :: acc | None => acc end in
            owners_after r (assoc_set n who own) acc'
        | _ => owners_after r own acc
        end
    end.
  Definition targeted_directly (t : tid) : bool := existsb (N.eqb t) (owners_after ops [] []).
  (* the service run started by a blocking service.call is cancelled together with its caller (no claim on it then) *)
  Definition callers_of (x : tid) : list tid :=
    filter (fun t => existsb (fun o => match o with SCall y => N.eqb y x | _ => false end) (sp_steps t)) (upto (length (lc_tasks c))).
  Definition targeted (t : tid) : bool := targeted_directly t || existsb targeted_directly (callers_of t).

  Definition my_events (t : tid) : list event := proj t (lc_events c).
  Definition raised (t : tid) : bool := existsb (fun e => match e_kind e with EX _ => true | _ => false end) (my_events t).
  (* Some code: the body reached its end / a return statement *)
  Definition returned (t : tid) : option N :=
    let n := N.of_nat (length (sp_steps t)) in
    fold_left (fun acc e =>
                 match e_kind e with
                 | EM k => if N.eqb k n then Some 0
                           else match nth_error (sp_steps t) (N.to_nat k) with
                                | Some (SRet v) => Some (match sp_kind t with KTrig | KShutL => 0 | _ => v + 1 end)
                                | _ => acc
                                end
                 | _ => acc
                 end) (my_events t) None.
  Definition last_marker (t : tid) : option N :=
    fold_left (fun acc e => match e_kind e with EM k => Some k | _ => acc end) (my_events t) None.

  (* S3: done()/cancelled()/result() reflect how the body ended *)
  Definition spec_outcome (t : tid) : bool :=
    let f := sp_fin t in
    if negb (ft_known f) then true
    else if raised t then (if targeted t then ft_done f else ft_done f && negb (ft_cancelled f) && N.eqb (ft_res f) 0)
    else match returned t with
         | Some code => if targeted t then ft_done f && (ft_cancelled f || N.eqb (ft_res f) code)
                        else ft_done f && negb (ft_cancelled f) && N.eqb (ft_res f) code
         | None => if ft_done f then ft_cancelled f else true
         end.
  (* ... and task.wait reported exactly that *)
  Definition spec_wait_reports : bool :=
    forallb (fun e => match e_kind e with
                      | EW x dn cn res | ER x dn cn res =>
                          let f := sp_fin x in
                          dn && ft_done f && Bool.eqb cn (ft_cancelled f) && (cn || N.eqb res (ft_res f))
                      | _ => true
                      end) (lc_events c).

  (* S4: a run is never delayed by another one: every marker not preceded by a wait comes at start + own sleeps *)
  Fixpoint sleeps_before (l : list sop) (k : nat) : option N :=
    match k with
    | O => Some 0
    | S k' => match l with
              | [] => Some 0
              | SSleep d :: r => match sleeps_before r k' with Some x => Some (d + x) | None => None end
              | SWait _ :: _ | SCall _ :: _ => None
              | _ :: r => sleeps_before r k'
              end
    end.
  Definition spec_timing (t : tid) : bool :=
    match my_events t with
    | [] => true
    | e0 :: _ =>
        (match sp_kind t with
         | KCreate => true
         | _ => is_callee (lc_tasks c) t || match desc_of (lc_tasks c) t with Some d => N.eqb (e_time e0) (td_at d) | None => false end
         end)
        && forallb (fun e => match e_kind e with
                             | EM k => match sleeps_before (sp_steps t) (N.to_nat k) with
                                       | Some d => N.eqb (e_time e) (e_time e0 + d)
                                       | None => true
                                       end
                             | _ => true
                             end) (my_events t)
    end.

  (* S5: a run nobody asked to cancel is never terminated: it reaches its end, unless it still waits for a task
     that is not done *)
  Definition spec_not_killed (t : tid) : bool :=
    let f := sp_fin t in
    if negb (ft_known f) || targeted t then true
    else if raised t then true
    else match returned t with
         | Some _ => true
         | None => match last_marker t with
                   | Some k => match nth_error (sp_steps t) (N.to_nat k) with
                               | Some (SWait x) => negb (ft_done (sp_fin x)) || negb (ft_known (sp_fin x))
                               | Some (SCall x) => negb (ft_done (sp_fin x))
                               | _ => false
                               end
                   | None => false
                   end
         end.

  (* S0: add/remove_done_callback on a task that is one of ours and has not started its done-callbacks succeeds *)
  Definition snap_ours (sn : N) (x : tid) : bool := N.odd (sn / 16 ^ x).
  Fixpoint spec_ops_succeed (evs : list event) (idx : nat) : bool :=
    match evs with
    | [] => true
    | e :: rest =>
        (match e_kind e with
         | EM k =>
             match nth_error (sp_steps (e_who e)) (N.to_nat k) with
             | Some (SAdd x _ _) | Some (SRem x _) =>
                 if snap_ours (e_snap e) x && before_fin x idx then next_is rest (e_who e) (k + 1) else true
             | _ => true
             end
         | _ => true
         end) && spec_ops_succeed rest (S idx)
    end.

  (* S6: a cancelled task really ends where it is.  Judged when no callback of the case suspends (then every cancellation
     completes within its instant and the reaper is never busy): after a successful cancel request for x made while x was
     suspended in its body, x emits no further marker / wait / call-return event, it ends cancelled, and whatever it still
     does (its done-callbacks) happens at the instant of the request: nobody has to wait for it *)
  Definition body_event (e : event) : bool :=
    match e_kind e with EM _ | EW _ _ _ _ | ER _ _ _ _ => true | _ => false end.
  Definition ended_by (x : tid) (e : event) : bool :=
    N.eqb (e_who e) x &&
    match e_kind e with
    | EX _ => true
    | EM k => N.eqb k (N.of_nat (length (sp_steps x)))
              || match nth_error (sp_steps x) (N.to_nat k) with Some (SRet _) | Some SRaise => true | _ => false end
    | _ => false
    end.
  Definition spec_cancel_ends : bool :=
    if negb (forallb (fun cd => N.eqb (cd_sleep cd) 0) (lc_cbs c)) then true
    else
      forallb (fun o =>
        let '(idx, who, op) := o in
        let target := match op with SCancel x => if N.eqb x who then None else Some x | SCancelSelf => Some who | _ => None end in
        match target, nth_error (lc_events c) idx with
        | Some x, Some ereq =>
            let before := firstn idx (lc_events c) in
            let after := skipn (S idx) (lc_events c) in
            let mine_before := proj x before in
            let selfc := N.eqb x who in
            let suspended := selfc || (negb (existsb (ended_by x) before)
                                        && match rev mine_before with e :: _ => e_time e <? e_time ereq | [] => false end) in
            if suspended then
              negb (existsb (fun e => N.eqb (e_who e) x && body_event e) after) && ft_cancelled (sp_fin x)
              && forallb (fun e => negb (N.eqb (e_who e) x) || N.eqb (e_time e) (e_time ereq)) after
            else true
        | _, _ => true
        end) ops.

  (* S7: a run keeps its own arguments and locals, and dies only of exceptions its own program can raise *)
  Definition spec_own_frame : bool :=
    forallb (fun e => match e_kind e with EL _ => false | EX 0 => false | _ => true end) (lc_events c).

  Definition spec_task (t : tid) : bool :=
    let f := sp_fin t in
    (if ft_done f then spec_cleanup t && spec_callbacks t else true)
    && spec_outcome t && spec_timing t && spec_not_killed t.

  Definition spec_all : bool :=
    forallb spec_task (upto (length (lc_tasks c))) && spec_wait_reports && spec_ops_succeed (lc_events c) 0 && spec_cancel_ends && spec_own_frame && N.eqb (lc_stray c) 0.
End Spec.

Definition lcase_spec_ok (c : lcase) : bool := negb (lc_clean c) || spec_all c.

(* ---------- attribution of a Spec failure to open findings ---------- *)
Definition with_off (k : nat) (dv : deviations) : deviations :=
  mkDev (if Nat.eqb k 22 then false else d_cb_raise_breaks dv) (if Nat.eqb k 20 then false else d_service_no_cbrec dv)
        (if Nat.eqb k 140 then false else d_fin_cancel_escapes dv) (if Nat.eqb k 141 then false else d_live_iter dv)
        (if Nat.eqb k 142 then false else d_call_cancel_kills dv) (if Nat.eqb k 143 then false else d_shutdown_no_cbrec dv).
Definition switches (dv : deviations) : list (nat * bool) :=
  [(22%nat, d_cb_raise_breaks dv); (20%nat, d_service_no_cbrec dv); (140%nat, d_fin_cancel_escapes dv); (141%nat, d_live_iter dv);
   (142%nat, d_call_cancel_kills dv); (143%nat, d_shutdown_no_cbrec dv)].

(* Dk is blamed iff the Model under the measured switches reproduces the observation, the Model with every switch off
   satisfies the Spec on this case, and switch k is on and changes the prediction for this case (if no single switch
   does, all switches that are on are blamed together). *)
Definition lcase_attrib (dv : deviations) (c : lcase) : list nat :=
  if lcase_model_ok dv c && lcase_spec_ok (predict no_dev c) then
    let base := predict dv c in
    let on := filter (fun p => snd p) (switches dv) in
    let act := filter (fun p => negb (obs_eqb (predict (with_off (fst p) dv) c) base)) on in
    match act with
    | [] => map fst on
    | _ => map fst act
    end
  else [].

Definition show_event (e : event) : N * N * (N * N * N) * N :=
  (e_time e, e_who e,
   match e_kind e with
   | EM k => (0, k, 0) | EX x => (1, x, 0) | EW x d cn r => (2, x, (if d then 1 else 0) + (if cn then 2 else 0) + 4 * r)
   | ER x d cn r => (6, x, (if d then 1 else 0) + (if cn then 2 else 0) + 4 * r)
   | ECb j a => (3, j, a) | ECe j => (4, j, 0) | EF i ok => (5, i, if ok then 1 else 0) | EL m => (7, m, 0)
   end, e_snap e).
Definition show_fin (f : fin_task) := (ft_known f, ft_done f, ft_cancelled f, ft_res f, ft_bits f).
Definition lcase_explain (dv : deviations) (c : lcase) :=
  let p := predict dv c in
  (lc_clean p, map show_event (lc_events p), map show_fin (lc_fin p), lc_fin_names p, lc_fin_rq p,
   (lcase_spec_ok c, map (fun t => (spec_cleanup c t, spec_callbacks c t, spec_outcome c t, spec_timing c t, spec_not_killed c t))
                         (upto (length (lc_tasks c))), spec_wait_reports c, spec_ops_succeed c (lc_events c) 0, spec_cancel_ends c, spec_own_frame c)).
