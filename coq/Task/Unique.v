(* Task/Unique.v — executable model of task.unique / @task_unique / the reaper / run_coro's finally
   (function.py task_unique_factory l.230, task_reaper l.118, reaper_cancel l.171, run_coro l.430-463,
    task_name2id_factory; trigger.py call_action l.1345-1412; decorators/task.py TaskUniqueDecorator).

   asyncio is cooperative: the code between two awaits that really suspend is one atomic step.  The model
   is a labelled transition system over these atomic steps; a "schedule" / "interleaving" of any number of
   tasks is an arbitrary list of labels, so a statement proved for every [run cfg ls = Some s] holds for
   all interleavings.  No proofs here (see Proofs/TaskUnique.v).

   Keys are built the way the code builds them: [ctx ++ "." ++ name] on real strings (switch d17 on); the
   conformant alternative keeps the pair (ctx, name).  Injectivity of the concatenation is therefore a proof
   obligation (it fails: D17), not an assumption. *)
From PV Require Import Common.Util Gen.UniqueConsts.
From Coq Require Import String Ascii.
Import List ListNotations.
Local Open Scope list_scope.

Definition task := N.
(* a key of Function.unique_name2task.  Concatenated keys are ("", ctx.name); pair keys are (ctx, name). *)
Definition key := (string * string)%type.

Definition key_eqb (a b : key) : bool := String.eqb (fst a) (fst b) && String.eqb (snd a) (snd b).
(* the separator is re-read from function.py on every run (Gen/UniqueConsts.v) *)
Definition dot : string := String key_sep_char EmptyString.
Definition cat (a b : string) : string := String.append a b.

(* ---------- deviation switches (on = what the code does today) ---------- *)
Record deviations := {
  d17_concat_keys : bool;        (* D17: key = ctx ++ "." ++ name, name2id filters by string prefix *)
  d130_dispatch_precheck : bool  (* D130: legacy @task_unique(kill_me=True) is tested when the trigger is dispatched
                                    (call_action), the claim is made later by the new task with kill_me=False *)
}.
Definition all_off : deviations := {| d17_concat_keys := false; d130_dispatch_precheck := false |}.
Definition as_is : deviations := {| d17_concat_keys := true; d130_dispatch_precheck := true |}.

Definition key_of (cfg : deviations) (ctx name : string) : key :=
  if d17_concat_keys cfg then (EmptyString, cat ctx (cat dot name)) else (ctx, name).

(* names without the separator: the hypothesis under which concatenated keys are injective *)
Fixpoint dot_free (s : string) : bool :=
  match s with
  | EmptyString => true
  | String c r => negb (Ascii.eqb c key_sep_char) && dot_free r
  end.

(* ---------- small finite maps as association lists ---------- *)
Definition memN (t : task) (l : list task) : bool := existsb (N.eqb t) l.
Definition removeN (t : task) (l : list task) : list task := filter (fun x => negb (N.eqb x t)) l.

Fixpoint lookup (k : key) (m : list (key * task)) : option task :=
  match m with
  | [] => None
  | (k', t) :: r => if key_eqb k' k then Some t else lookup k r
  end.
Definition remove_key (k : key) (m : list (key * task)) : list (key * task) :=
  filter (fun p => negb (key_eqb (fst p) k)) m.
Definition upd (k : key) (t : task) (m : list (key * task)) : list (key * task) := (k, t) :: remove_key k m.
Definition mem_key (k : key) (ks : list key) : bool := existsb (key_eqb k) ks.
Definition remove_keys (ks : list key) (m : list (key * task)) : list (key * task) :=
  filter (fun p => negb (mem_key (fst p) ks)) m.

(* unique_task2name as a relation: (t, k) present  <->  k in unique_task2name[t] *)
Definition pair_is (t : task) (k : key) (p : task * key) : bool := N.eqb (fst p) t && key_eqb (snd p) k.
Definition remove_pair (t : task) (k : key) (r : list (task * key)) : list (task * key) :=
  filter (fun p => negb (pair_is t k p)) r.
Definition keys_of (t : task) (r : list (task * key)) : list key :=
  map snd (filter (fun p => N.eqb (fst p) t) r).
Definition remove_task (t : task) (r : list (task * key)) : list (task * key) :=
  filter (fun p => negb (N.eqb (fst p) t)) r.

(* ---------- state ---------- *)
Record ustate := {
  n2t : list (key * task);       (* Function.unique_name2task *)
  t2n : list (task * key);       (* Function.unique_task2name *)
  ours : list task;              (* Function.our_tasks *)
  rq : list task;                (* pending ["cancel", t] commands of the reaper queue, oldest first *)
  busy : option task;            (* the reaper called t.cancel() and awaits t *)
  live : list task;              (* started and not yet ended *)
  started : list task;           (* ever started (or refused at dispatch) *)
  waiting : list task;           (* suspended inside task.unique(kill_me=True), waiting to be cancelled *)
  admitted : list task;          (* trigger dispatched, run not yet started *)
  claimed : list (key * task)    (* history variable: every claim ever made (not part of the code's state) *)
}.

Definition init_state : ustate :=
  {| n2t := []; t2n := []; ours := []; rq := []; busy := None; live := []; started := []; waiting := [];
     admitted := []; claimed := [] |}.

Definition set_maps (s : ustate) (m : list (key * task)) (r : list (task * key)) (c : list (key * task)) : ustate :=
  {| n2t := m; t2n := r; ours := ours s; rq := rq s; busy := busy s; live := live s; started := started s;
     waiting := waiting s; admitted := admitted s; claimed := c |}.
Definition enqueue (s : ustate) (t : task) : ustate :=
  {| n2t := n2t s; t2n := t2n s; ours := ours s; rq := rq s ++ [t]; busy := busy s; live := live s;
     started := started s; waiting := waiting s; admitted := admitted s; claimed := claimed s |}.
Definition set_waiting (s : ustate) (w : list task) : ustate :=
  {| n2t := n2t s; t2n := t2n s; ours := ours s; rq := rq s; busy := busy s; live := live s;
     started := started s; waiting := w; admitted := admitted s; claimed := claimed s |}.
Definition set_reaper (s : ustate) (q : list task) (b : option task) : ustate :=
  {| n2t := n2t s; t2n := t2n s; ours := ours s; rq := q; busy := b; live := live s;
     started := started s; waiting := waiting s; admitted := admitted s; claimed := claimed s |}.
Definition set_admitted (s : ustate) (a : list task) : ustate :=
  {| n2t := n2t s; t2n := t2n s; ours := ours s; rq := rq s; busy := busy s; live := live s;
     started := started s; waiting := waiting s; admitted := a; claimed := claimed s |}.
Definition set_started (s : ustate) (st : list task) : ustate :=
  {| n2t := n2t s; t2n := t2n s; ours := ours s; rq := rq s; busy := busy s; live := live s;
     started := st; waiting := waiting s; admitted := admitted s; claimed := claimed s |}.

(* run_coro entry: our_tasks.add(task) *)
Definition start (s : ustate) (t : task) (o : bool) : ustate :=
  {| n2t := n2t s; t2n := t2n s; ours := if o then t :: ours s else ours s; rq := rq s; busy := busy s;
     live := t :: live s; started := t :: started s; waiting := waiting s; admitted := admitted s;
     claimed := claimed s |}.

(* task_unique, second half:  if curr_task in our_tasks: discard name from the previous owner's set,
   name2task[name] = curr_task, task2name[curr_task].add(name) *)
Definition claim (s : ustate) (t : task) (k : key) : ustate :=
  if memN t (ours s) then
    let r1 := match lookup k (n2t s) with Some o => remove_pair o k (t2n s) | None => t2n s end in
    set_maps s (upd k t (n2t s)) ((t, k) :: remove_pair t k r1) ((k, t) :: claimed s)
  else s.

(* task_unique up to its only suspension *)
Definition do_unique (cfg : deviations) (s : ustate) (t : task) (ctx name : string) (kill_me : bool) : ustate :=
  let k := key_of cfg ctx name in
  match lookup k (n2t s) with
  | Some o =>
      if kill_me then
        if N.eqb o t then claim s t k
        else set_waiting (enqueue s t) (t :: waiting s)       (* reaper_cancel(curr_task); await sleep(100000) *)
      else
        let s1 := if negb (N.eqb o t) && memN o (ours s) then enqueue s o else s in
        claim s1 t k
  | None => claim s t k
  end.

(* one atomic segment of task_reaper: commands whose task is already done are consumed without suspending
   (cancel() is a no-op and awaiting a done task does not suspend); the first live task is cancelled and awaited *)
Fixpoint drain (lv : list task) (q : list task) : list task * option task :=
  match q with
  | [] => ([], None)
  | t :: r => if memN t lv then (r, Some t) else drain lv r
  end.
Definition reaper_ready (s : ustate) : bool :=
  match busy s with Some t => negb (memN t (live s)) | None => true end.
Definition do_reaper (s : ustate) : ustate :=
  let '(q, b) := drain (live s) (rq s) in set_reaper s q b.

(* run_coro's finally: release every name of the task, forget the task *)
Definition do_exit (s : ustate) (t : task) : ustate :=
  {| n2t := remove_keys (keys_of t (t2n s)) (n2t s); t2n := remove_task t (t2n s); ours := removeN t (ours s);
     rq := rq s; busy := busy s; live := removeN t (live s); started := started s;
     waiting := removeN t (waiting s); admitted := admitted s; claimed := claimed s |}.

Definition is_busy (s : ustate) (t : task) : bool :=
  match busy s with Some b => N.eqb b t | None => false end.
Definition used (cfg : deviations) (s : ustate) (ctx name : string) : bool :=
  match lookup (key_of cfg ctx name) (n2t s) with Some _ => true | None => false end.

(* ---------- labels = atomic steps ---------- *)
Inductive ulabel :=
  | UStart (t : task) (o : bool)                                  (* a run starts; o: started by pyscript (run_coro) *)
  | UUnique (t : task) (ctx name : string) (kill_me : bool)       (* task.unique(name, kill_me) up to its suspension *)
  | UReaper                                                       (* one atomic segment of the reaper task *)
  | UExit (t : task) (cancelled : bool)                           (* the task ends; run_coro's finally *)
  | UDispatch (t : task) (ctx name : string) (kill_me legacy : bool)   (* a trigger of a @task_unique function fires *)
  | UDecStart (t : task) (ctx name : string) (kill_me legacy : bool)   (* first atomic segment of that run *)
  | UNop (t : task).                                              (* any step of a running task that does not call task.unique *)

Definition precheck (cfg : deviations) (legacy : bool) : bool := d130_dispatch_precheck cfg && legacy.

Definition ustep (cfg : deviations) (s : ustate) (l : ulabel) : option ustate :=
  match l with
  | UStart t o =>
      if memN t (started s) || memN t (admitted s) then None else Some (start s t o)
  | UUnique t ctx name km =>
      if memN t (live s) && negb (memN t (waiting s)) then Some (do_unique cfg s t ctx name km) else None
  | UReaper => if reaper_ready s then Some (do_reaper s) else None
  | UExit t c =>
      if memN t (live s) && Bool.eqb c (is_busy s t) then Some (do_exit s t) else None
  | UDispatch t ctx name km legacy =>
      if memN t (started s) || memN t (admitted s) then None
      else if precheck cfg legacy && km && used cfg s ctx name
           then Some (set_started s (t :: started s))                      (* "prevented new action": no task *)
           else Some (set_admitted s (t :: admitted s))
  | UDecStart t ctx name km legacy =>
      if memN t (admitted s) && negb (memN t (started s)) then
        let s0 := set_admitted s (removeN t (admitted s)) in
        if negb (precheck cfg legacy) && km && used cfg s ctx name
        then Some (set_started s0 (t :: started s0))                       (* terminated before the body starts *)
        else Some (do_unique cfg (start s0 t true) t ctx name false)
      else None
  | UNop t => if memN t (live s) && negb (memN t (waiting s)) then Some s else None
  end.

Definition run (cfg : deviations) (ls : list ulabel) : option ustate := fold_left_opt (ustep cfg) ls init_state.
Definition run_from (cfg : deviations) (s : ustate) (ls : list ulabel) : option ustate := fold_left_opt (ustep cfg) ls s.

(* ---------- what task.name2id() reports in a global context ---------- *)
Fixpoint strip_prefix (p s : string) : option string :=
  match p with
  | EmptyString => Some s
  | String a p' =>
      match s with
      | String b s' => if Ascii.eqb a b then strip_prefix p' s' else None
      | EmptyString => None
      end
  end.

Definition view_entry (cfg : deviations) (ctx : string) (p : key * task) : option (string * task) :=
  let '((c, k), t) := p in
  if d17_concat_keys cfg then
    if String.eqb c EmptyString then
      match strip_prefix (cat ctx dot) k with Some nm => Some (nm, t) | None => None end
    else None
  else if String.eqb c ctx then Some (k, t) else None.

Fixpoint filter_opt {A B} (f : A -> option B) (l : list A) : list B :=
  match l with
  | [] => []
  | x :: r => match f x with Some y => y :: filter_opt f r | None => filter_opt f r end
  end.

Definition view (cfg : deviations) (ctx : string) (m : list (key * task)) : list (string * task) :=
  filter_opt (view_entry cfg ctx) m.

(* task.name2id(name) *)
Definition owner (cfg : deviations) (s : ustate) (ctx name : string) : option task :=
  lookup (key_of cfg ctx name) (n2t s).
