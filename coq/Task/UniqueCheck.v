(* Task/UniqueCheck.v — what the generated correspondence files evaluate for C13.

   A case is one scenario run on the real pyscript: the static task table plus the observed sequence of
   markers (each with a snapshot of the real unique_name2task / unique_task2name / our_tasks / done status and
   of what the real task.name2id() reports in every global context of the case).

   [ucase_model_ok cfg]: TRACE VALIDATION.  The observed atomic events, completed by the silent steps the
      observation cannot see (reaper segments, task ends, trigger dispatch), are replayed through [ustep]; every
      state change goes through [ustep] on an explicit label, so an accepted trace is a path of the LTS of
      Task/Unique.v, and at every marker the model state must equal the snapshot.
   [ucase_spec_ok]: the clauses of property C13 evaluated on the observation alone (no model).
   No proofs here. *)
From PV Require Import Common.Util Gen.UniqueConsts Task.Unique.
From Coq Require Import String Ascii.
Import List ListNotations.
Local Open Scope list_scope.

(* ---------- case format ---------- *)
(* ti_ctx: the global context the task's function was DEFINED in (for a trigger closure made by a factory: the factory's);
   ti_created: started by another task's task.create() (may never start when its creator ends first) *)
Record tinfo := { ti_ctx : nat; ti_ours : bool; ti_dec : option (string * bool); ti_created : bool }.

Record osnap := {
  o_n2t : list (key * task);
  o_t2n : list (task * key);
  o_ours : list task;
  o_done : list (task * bool);                   (* (task, cancelled) *)
  o_views : list (list (string * task))          (* task.name2id() per context of the case *)
}.

Inductive okind :=
  | KFire (t : task)                              (* the driver fires the trigger of task t / creates foreign task t *)
  | KBegin (t : task)                             (* first statement of the function body *)
  | KPre (t : task) (ci : nat) (name : string) (km : bool)
                                                  (* immediately before task.unique(name, kill_me=km), executed by a function
                                                     defined in context ci (= the context the code resolves at call time) *)
  | KPost (t : task) (who : option task)          (* immediately after it returned; who = task.name2id(name) evaluated there
                                                     (None = NameError) *)
  | KNop (t : task)                               (* woke from a sleep / about to finish or raise *)
  | KQuiet.                                       (* driver: nothing can run until time advances *)

(* e_own = (ci, what task.name2id() returned to the script code running in context ci at this marker) *)
Record oevent := { e_kind : okind; e_own : option (nat * list (string * task)); e_snap : osnap }.

Record ucase := {
  uc_legacy : bool;
  uc_ctxs : list string;
  uc_tasks : list tinfo;                          (* position = task id *)
  uc_horizon : N;                                 (* virtual seconds the scenario lasted *)
  uc_events : list oevent;
  uc_sane : bool                                  (* the driver reported no error *)
}.

(* ---------- helpers ---------- *)
Definition set_eqb {A} (eqb : A -> A -> bool) (a b : list A) : bool :=
  Nat.eqb (length a) (length b) && forallb (fun x => existsb (eqb x) b) a && forallb (fun y => existsb (eqb y) a) b.
Definition kt_eqb (a b : key * task) : bool := key_eqb (fst a) (fst b) && N.eqb (snd a) (snd b).
Definition tk_eqb (a b : task * key) : bool := N.eqb (fst a) (fst b) && key_eqb (snd a) (snd b).
Definition st_eqb (a b : string * task) : bool := String.eqb (fst a) (fst b) && N.eqb (snd a) (snd b).
Definition is_nil {A} (l : list A) : bool := match l with [] => true | _ => false end.

Definition tinfo_of (c : ucase) (t : task) : option tinfo := nth_error (uc_tasks c) (N.to_nat t).
Definition ctx_name (c : ucase) (i : nat) : string := nth i (uc_ctxs c) EmptyString.
Definition task_ctxi (c : ucase) (t : task) : nat := match tinfo_of c t with Some ti => ti_ctx ti | None => 0 end.
Definition task_ctx (c : ucase) (t : task) : string := ctx_name c (task_ctxi c t).
Definition task_ours (c : ucase) (t : task) : bool := match tinfo_of c t with Some ti => ti_ours ti | None => false end.
Definition task_dec (c : ucase) (t : task) : option (string * bool) :=
  match tinfo_of c t with Some ti => ti_dec ti | None => None end.
Definition begun (c : ucase) (t : task) : bool :=
  existsb (fun e => match e_kind e with KBegin t' => N.eqb t t' | _ => false end) (uc_events c).
Definition new_done (old cur : list (task * bool)) : list (task * bool) :=
  filter (fun p => negb (memN (fst p) (map fst old))) cur.
Definition oview (o : osnap) (i : nat) : list (string * task) := nth i (o_views o) [].
Fixpoint vlookup (nm : string) (v : list (string * task)) : option task :=
  match v with [] => None | (n, t) :: r => if String.eqb n nm then Some t else vlookup nm r end.
Fixpoint lookupD (t : task) (d : list (task * bool)) : option bool :=
  match d with [] => None | (t', b) :: r => if N.eqb t' t then Some b else lookupD t r end.
Fixpoint seqN (n : nat) (from : N) : list N :=
  match n with O => [] | S n' => from :: seqN n' (N.succ from) end.

(* ==================================================================================================== *)
(* trace validation                                                                                      *)
(* ==================================================================================================== *)
Record vstate := {
  v_s : ustate;
  v_ls : list ulabel;               (* the path so far, newest first *)
  v_done : list (task * bool);      (* done status at the previous marker *)
  v_post : option (task * string * string);   (* a task.unique(ctx, name) call that must return at the very next marker *)
  v_fired : list task               (* @task_unique tasks whose trigger has fired *)
}.
Definition v0 : vstate := {| v_s := init_state; v_ls := []; v_done := []; v_post := None; v_fired := [] |}.

Definition vdo (cfg : deviations) (v : vstate) (l : ulabel) : option vstate :=
  match ustep cfg (v_s v) l with
  | Some s' => Some {| v_s := s'; v_ls := l :: v_ls v; v_done := v_done v; v_post := v_post v; v_fired := v_fired v |}
  | None => None
  end.
Definition vtry (cfg : deviations) (v : vstate) (l : ulabel) : vstate :=
  match vdo cfg v l with Some v' => v' | None => v end.
Definition set_post (v : vstate) (p : option (task * string * string)) : vstate :=
  {| v_s := v_s v; v_ls := v_ls v; v_done := v_done v; v_post := p; v_fired := v_fired v |}.
Definition set_done (v : vstate) (d : list (task * bool)) : vstate :=
  {| v_s := v_s v; v_ls := v_ls v; v_done := d; v_post := v_post v; v_fired := v_fired v |}.
Definition add_fired (v : vstate) (t : task) : vstate :=
  {| v_s := v_s v; v_ls := v_ls v; v_done := v_done v; v_post := v_post v; v_fired := t :: v_fired v |}.

(* silent steps of a fired @task_unique function: the dispatch (and, when the run is refused before its body, the
   whole run) leaves no marker.  They change nothing but the admitted/started book-keeping, so they are taken at the
   first state at which their outcome agrees with what was observed (body began / never began). *)
Definition poll_one (cfg : deviations) (c : ucase) (v : vstate) (t : task) : vstate :=
  match task_dec c t with
  | Some (name, km) =>
      let s := v_s v in
      let ctx := task_ctx c t in
      let lg := uc_legacy c in
      let pc := precheck cfg lg in
      if memN t (admitted s) then
        if begun c t then v
        else if negb pc && km && used cfg s ctx name then vtry cfg v (UDecStart t ctx name km lg) else v
      else if memN t (started s) then v
      else
        let adm := negb (pc && km && used cfg s ctx name) in
        if negb pc || Bool.eqb adm (begun c t) then vtry cfg v (UDispatch t ctx name km lg) else v
  | None => v
  end.
Definition poll (cfg : deviations) (c : ucase) (v : vstate) : vstate :=
  let v1 := fold_left (poll_one cfg c) (v_fired v) v in
  fold_left (poll_one cfg c) (v_fired v1) v1.

(* the silent steps between two markers: tasks that ended (seen through their done status) and the reaper segments
   needed to cancel them; at a quiescent point the reaper must have finished all its work *)
Fixpoint gap_loop (cfg : deviations) (fuel : nat) (v : vstate) (pend : list task) (quiet : bool) : option vstate :=
  match fuel with
  | O => None
  | S f =>
    let s := v_s v in
    match busy s with
    | Some t =>
        if memN t (live s) then
          if memN t pend then
            match vdo cfg v (UExit t true) with
            | Some v' => gap_loop cfg f v' (removeN t pend) quiet
            | None => None
            end
          else if is_nil pend && negb quiet then Some v else None
        else if negb (is_nil pend) || quiet then
          match vdo cfg v UReaper with Some v' => gap_loop cfg f v' pend quiet | None => None end
        else Some v
    | None =>
        match rq s with
        | [] => if is_nil pend then Some v else None
        | _ => if negb (is_nil pend) || quiet then
                 match vdo cfg v UReaper with Some v' => gap_loop cfg f v' pend quiet | None => None end
               else Some v
        end
    end
  end.

Definition gap (cfg : deviations) (v : vstate) (exits : list (task * bool)) (quiet : bool) : option vstate :=
  let normals := map fst (filter (fun p => negb (snd p)) exits) in
  let cancels := map fst (filter (fun p => snd p) exits) in
  match fold_left_opt (fun v t => vdo cfg v (UExit t false)) normals v with
  | Some v1 => gap_loop cfg (2 * (length (rq (v_s v1)) + length cancels) + 4) v1 cancels quiet
  | None => None
  end.

Definition snap_ok (cfg : deviations) (c : ucase) (s : ustate) (e : oevent) : bool :=
  let o := e_snap e in
  set_eqb kt_eqb (n2t s) (o_n2t o)
  && set_eqb tk_eqb (t2n s) (o_t2n o)
  && set_eqb N.eqb (ours s) (o_ours o)
  && forallb (fun t => negb (memN t (map fst (o_done o)))) (live s)
  && forallb (fun p => negb (memN (fst p) (live s)) && memN (fst p) (started s)) (o_done o)
  && Nat.eqb (length (o_views o)) (length (uc_ctxs c))
  && forallb (fun i => set_eqb st_eqb (view cfg (ctx_name c i) (n2t s)) (oview o i)) (seq 0 (length (uc_ctxs c)))
  && match e_own e with
     | Some (ci, w) => Nat.ltb ci (length (uc_ctxs c)) && set_eqb st_eqb (view cfg (ctx_name c ci) (n2t s)) w
     | None => true
     end.

Definition subset_done (a b : list (task * bool)) : bool :=
  forallb (fun p => match lookupD (fst p) b with Some f => Bool.eqb f (snd p) | None => false end) a.

Definition vevent (cfg : deviations) (c : ucase) (v : vstate) (e : oevent) : option vstate :=
  let o := e_snap e in
  let exits := new_done (v_done v) (o_done o) in
  let quiet := match e_kind e with KQuiet => true | _ => false end in
  let post_ok :=
    match v_post v, e_kind e with
    | Some (t, ctx, name), KPost t' who =>                   (* a returning task.unique is atomic *)
        N.eqb t t' && is_nil exits && option_eqb N.eqb who (owner cfg (v_s v) ctx name)
    | Some _, _ => false
    | None, KPost _ _ => false
    | None, _ => true
    end in
  if negb (subset_done (v_done v) (o_done o) && post_ok) then None else
  match gap cfg v exits quiet with
  | None => None
  | Some v1 =>
    let v2 := poll cfg c v1 in
    let v3o :=
      match e_kind e with
      | KFire t => Some (poll cfg c (match task_dec c t with Some _ => add_fired v2 t | None => v2 end))
      | KBegin t =>
          match tinfo_of c t with
          | Some ti =>
              match ti_dec ti with
              | Some (name, km) =>
                  match vdo cfg v2 (UDecStart t (task_ctx c t) name km (uc_legacy c)) with
                  | Some v' => if memN t (live (v_s v')) then Some v' else None
                  | None => None
                  end
              | None => vdo cfg v2 (UStart t (ti_ours ti))
              end
          | None => None
          end
      | KPost t _ | KNop t => vdo cfg v2 (UNop t)
      | KPre _ _ _ _ | KQuiet => Some v2
      end in
    match v3o with
    | None => None
    | Some v3 =>
      if negb (snap_ok cfg c (v_s v3) e) then None else
      let v4o :=
        match e_kind e with
        | KPre t ci name km =>
            match vdo cfg v3 (UUnique t (ctx_name c ci) name km) with
            | Some v' => Some (set_post v' (if memN t (waiting (v_s v')) then None else Some (t, ctx_name c ci, name)))
            | None => None
            end
        | _ => Some (set_post v3 None)
        end in
      match v4o with
      | None => None
      | Some v4 => Some (poll cfg c (set_done v4 (o_done o)))
      end
    end
  end.

Definition last_is_quiet (evs : list oevent) : bool :=
  match rev evs with e :: _ => match e_kind e with KQuiet => true | _ => false end | [] => false end.

Definition vfinal (c : ucase) (v : vstate) : bool :=
  match v_post v with Some _ => false | None => true end
  && forallb (fun t => memN t (started (v_s v)) || match tinfo_of c t with Some ti => ti_created ti | None => false end)
             (seqN (length (uc_tasks c)) 0%N)
  && last_is_quiet (uc_events c).

Definition validate (cfg : deviations) (c : ucase) : option vstate :=
  fold_left_opt (vevent cfg c) (uc_events c) v0.

Definition ucase_model_ok (cfg : deviations) (c : ucase) : bool :=
  uc_sane c && (uc_horizon c <? kill_me_wait_s)%N && match validate cfg c with Some v => vfinal c v | None => false end.

(* the path of the LTS that the observation was matched with (oldest first) *)
Definition ucase_path (cfg : deviations) (c : ucase) : option (list ulabel) :=
  match validate cfg c with Some v => Some (rev (v_ls v)) | None => None end.

(* index of the first marker the model cannot follow (for the replay file) *)
Fixpoint first_bad (cfg : deviations) (c : ucase) (v : vstate) (i : nat) (evs : list oevent) : option nat :=
  match evs with
  | [] => None
  | e :: r => match vevent cfg c v e with Some v' => first_bad cfg c v' (S i) r | None => Some i end
  end.

(* ==================================================================================================== *)
(* the property's clauses on the observation alone                                                       *)
(* ==================================================================================================== *)
(* [r] names the deviations to be tolerated (attribution only); the Spec proper is [r = all_off]. *)
Definition same_name (r : deviations) (c1 n1 c2 n2 : string) : bool :=
  if d17_concat_keys r then String.eqb (cat c1 (cat dot n1)) (cat c2 (cat dot n2))
  else String.eqb c1 c2 && String.eqb n1 n2.

Definition maps_inverse_ok (o : osnap) : bool :=
  forallb (fun p => existsb (pair_is (snd p) (fst p)) (o_t2n o)) (o_n2t o)
  && forallb (fun p => match lookup (snd p) (o_n2t o) with Some t' => N.eqb t' (fst p) | None => false end) (o_t2n o).

Definition owners_live_ok (o : osnap) : bool :=
  let dn := map fst (o_done o) in
  forallb (fun p => negb (memN (snd p) dn)) (o_n2t o)
  && forallb (fun v => forallb (fun p => negb (memN (snd p) dn)) v) (o_views o).

Fixpoint next_quiet_done (evs : list oevent) : list (task * bool) :=
  match evs with
  | [] => []
  | e :: r => match e_kind e with KQuiet => o_done (e_snap e) | _ => next_quiet_done r end
  end.

(* a claim made earlier: (task, context name, name) *)
Definition pclaim := (task * string * string)%type.

Definition priors_done (r : deviations) (past : list pclaim) (t : task) (ctx name : string) (dn : list (task * bool)) : bool :=
  forallb (fun p => let '(t', c', n') := p in
                    if same_name r c' n' ctx name && negb (N.eqb t' t) then memN t' (map fst dn) else true) past.

(* views of the other contexts are untouched (under tolerated D17: except at the colliding key) *)
Definition other_views_ok (r : deviations) (c : ucase) (ci : nat) (ctx name : string)
           (before after : nat -> list (string * task)) : bool :=
  forallb (fun j =>
    if Nat.eqb j ci then true else
    let keep := fun p : string * task =>
      negb (d17_concat_keys r && String.eqb (cat (ctx_name c j) (cat dot (fst p))) (cat ctx (cat dot name))) in
    set_eqb st_eqb (filter keep (before j)) (filter keep (after j))) (seq 0 (length (uc_ctxs c))).

(* clause numbers:  1 maps inverse   2 owner is live (release on exit)   3 unique returns / blocks as kill_me demands
   4 blocked caller is cancelled   5 caller is owner per name2id   6 earlier claimants are ended by the next quiescent point
   7 other names of the caller kept   8 other contexts untouched   9 @task_unique(kill_me) body started although owned
   10 @task_unique function never ran without reason   11 task cancelled without reason
   12 task.name2id() called by code of context ci lists exactly the names owned in ci (as the tables say) *)
Fixpoint spec_events (r : deviations) (c : ucase) (prev : option osnap) (i : nat) (past : list pclaim)
         (evs : list oevent) : list (nat * nat) :=
  match evs with
  | [] => []
  | e :: rest =>
    let o := e_snap e in
    let f (n : nat) (b : bool) := if b then [] else [(i, n)] in
    let base := f 1 (maps_inverse_ok o) ++ f 2 (owners_live_ok o)
                ++ f 12 (match e_own e with Some (cj, w) => set_eqb st_eqb w (oview o cj) | None => true end) in
    match e_kind e with
    | KPre t ci name km =>
        let ctx := ctx_name c ci in
        let own := vlookup name (oview o ci) in
        let returned := match rest with e' :: _ => match e_kind e' with KPost t' _ => N.eqb t t' | _ => false end | [] => false end in
        let must_block := km && match own with Some o' => negb (N.eqb o' t) | None => false end in
        let dn := next_quiet_done rest in
        let here :=
          f 3 (Bool.eqb returned (negb must_block))
          ++ (if must_block then f 4 (match lookupD t dn with Some true => true | _ => false end) else [])
          ++ (if returned then
                match rest with
                | e' :: _ =>
                    let o' := e_snap e' in
                    (if task_ours c t then
                       f 5 (match vlookup name (oview o' ci) with Some t' => N.eqb t' t | None => false end
                            && match e_kind e' with KPost _ (Some t') => N.eqb t' t | _ => false end
                            && match e_own e' with
                               | Some (cj, w) => Nat.eqb cj ci && match vlookup name w with Some t' => N.eqb t' t | None => false end
                               | None => true
                               end)
                       ++ f 6 (priors_done r past t ctx name dn)
                     else [])
                    ++ f 7 (forallb (fun j => forallb (fun p => if N.eqb (snd p) t then existsb (st_eqb p) (oview o' j) else true) (oview o j))
                                    (seq 0 (length (uc_ctxs c))))
                    ++ f 8 (other_views_ok r c ci ctx name (oview o) (oview o'))
                | [] => []
                end
              else []) in
        let past' := if returned && task_ours c t then (t, ctx, name) :: past else past in
        base ++ here ++ spec_events r c (Some o) (S i) past' rest
    | KBegin t =>
        match task_dec c t with
        | Some (name, km) =>
            let ci := task_ctxi c t in
            let ctx := ctx_name c ci in
            let po := match prev with Some p => p | None => o end in
            let gone := map fst (new_done (o_done po) (o_done o)) in
            let alive := fun p : string * task => negb (memN (snd p) gone) in
            let before := fun j => filter alive (oview po j) in
            let dn := next_quiet_done rest in
            let owned := match vlookup name (before ci) with Some _ => true | None => false end in
            let here :=
              (if d130_dispatch_precheck r && uc_legacy c then [] else f 9 (negb (km && owned)))
              ++ f 5 (match vlookup name (oview o ci) with Some t' => N.eqb t' t | None => false end)
              ++ f 6 (priors_done r past t ctx name dn)
              ++ f 8 (other_views_ok r c ci ctx name before (oview o)) in
            base ++ here ++ spec_events r c (Some o) (S i) ((t, ctx, name) :: past) rest
        | None => base ++ spec_events r c (Some o) (S i) past rest
        end
    | _ => base ++ spec_events r c (Some o) (S i) past rest
    end
  end.

(* calls that may legitimately cancel an owner: (index, caller, ctx, name) *)
Fixpoint call_events (c : ucase) (i : nat) (evs : list oevent) : list (nat * task * string * string) :=
  match evs with
  | [] => []
  | e :: rest =>
    match e_kind e with
    | KPre t ci name _ =>
        let returned := match rest with e' :: _ => match e_kind e' with KPost t' _ => N.eqb t t' | _ => false end | [] => false end in
        (if returned then [(i, t, ctx_name c ci, name)] else []) ++ call_events c (S i) rest
    | KBegin t =>
        match task_dec c t with
        | Some (name, _) => (i, t, task_ctx c t, name) :: call_events c (S i) rest
        | None => call_events c (S i) rest
        end
    | _ => call_events c (S i) rest
    end
  end.

Definition self_kill (c : ucase) (t : task) : bool :=
  existsb (fun e => match e_kind e with
                    | KPre t' ci name true =>
                        N.eqb t t' && match vlookup name (oview (e_snap e) ci) with
                                      | Some o' => negb (N.eqb o' t) | None => false end
                    | _ => false
                    end) (uc_events c).

Definition cancel_justified (r : deviations) (c : ucase) (t : task) : bool :=
  self_kill c t
  || (task_ours c t &&
      let calls := call_events c 0 (uc_events c) in
      existsb (fun mine => let '(i, t1, c1, n1) := mine in
        N.eqb t1 t && existsb (fun other => let '(j, t2, c2, n2) := other in
                                 Nat.ltb i j && negb (N.eqb t2 t) && same_name r c1 n1 c2 n2) calls) calls).

Fixpoint fire_suffix (t : task) (evs : list oevent) : list oevent :=
  match evs with
  | [] => []
  | e :: rest => match e_kind e with KFire t' => if N.eqb t t' then evs else fire_suffix t rest | _ => fire_suffix t rest end
  end.

Definition spec_global (r : deviations) (c : ucase) : list (nat * nat) :=
  let final_done := match rev (uc_events c) with e :: _ => o_done (e_snap e) | [] => [] end in
  concat (map (fun t =>
      (match task_dec c t with
       | Some (name, km) =>
           if begun c t then []
           else if km && existsb (fun e => match vlookup name (oview (e_snap e) (task_ctxi c t)) with Some _ => true | None => false end)
                                 (fire_suffix t (uc_events c))
                then [] else [(N.to_nat t, 10)]
       | None => []
       end)
      ++ (match lookupD t final_done with
          | Some true => if cancel_justified r c t then [] else [(N.to_nat t, 11)]
          | _ => []
          end))
    (seqN (length (uc_tasks c)) 0%N)).

Definition spec_fails (r : deviations) (c : ucase) : list (nat * nat) :=
  spec_events r c None 0 [] (uc_events c) ++ spec_global r c.

Definition ucase_spec_ok (c : ucase) : bool := is_nil (spec_fails all_off c).

(* which open findings explain a Spec failure: the failure disappears when exactly that deviation is tolerated *)
Definition only17 : deviations := {| d17_concat_keys := true; d130_dispatch_precheck := false |}.
Definition only130 : deviations := {| d17_concat_keys := false; d130_dispatch_precheck := true |}.
Definition ucase_attrib (cfg : deviations) (c : ucase) : list nat :=
  if is_nil (spec_fails all_off c) then []
  else if d17_concat_keys cfg && is_nil (spec_fails only17 c) then [17]
  else if d130_dispatch_precheck cfg && is_nil (spec_fails only130 c) then [130]
  else if d17_concat_keys cfg && d130_dispatch_precheck cfg && is_nil (spec_fails as_is c) then [17; 130]
  else [].

Definition ucase_explain (cfg : deviations) (c : ucase) :=
  (first_bad cfg c v0 0 (uc_events c), firstn 6 (spec_fails all_off c)).
