(* Task/Lifecycle.v — executable model of the task life cycle of pyscript (C14):
   function.py  Function.run_coro (l.431-463), create_task, task_done_callback_ctx, task_add_done_callback,
                user_task_remove_done_callback, user_task_cancel, reaper_cancel + the task_reaper loop, task_unique;
   trigger.py   user_task_create, user_task_add_done_callback, call_action/do_func_call (store_hass_context);
   decorator.py dispatch/_call;  eval.py / decorators/service.py  service handler (create_task without ast_ctx).

   asyncio is cooperative, so the code between two suspensions is atomic.  The model is a labelled transition
   system whose labels are (pieces of) these atomic stretches; every theorem in Proofs/TaskLifecycle.v quantifies
   over ALL label sequences, i.e. over all interleavings of any number of tasks and all placements of cancellations
   and exceptions (LEnd t OCancel / LEnd t ORaise can be taken whenever the body is suspended; LCbEnd t CbCancelled /
   CbRaise at the suspension points inside run_coro's [finally]).

   The five registries are total functions from task ids / names.  No proofs in this file. *)
From PV Require Import Common.Util.

Definition tid := N.
Definition cbid := N.
Definition name := N.

(* ---------- deviation switches: on = what the code does today, all off = conformant ---------- *)
Record deviations := mkDev {
  d_cb_raise_breaks : bool;     (* D22: an exception in a done-callback [break]s the callback loop *)
  d_service_no_cbrec : bool;    (* D20: service tasks are created without ast_ctx: no task2cb record *)
  d_fin_cancel_escapes : bool;  (* D140: a cancellation that strikes while a done-callback is suspended leaves the
                                   [finally] at once: later callbacks and the whole registry cleanup are skipped *)
  d_live_iter : bool;           (* D141: the callback loop iterates the live dict: add/remove during a suspended
                                   callback raises RuntimeError out of run_coro (cleanup skipped) *)
  d_call_cancel_kills : bool;   (* D142: the @service handler awaits the service task unprotected: when the service run is
                                   cancelled, a run blocked in service.call(..., blocking=True) on it gets CancelledError too *)
  d_shutdown_no_cbrec : bool    (* D143: legacy @time_trigger("shutdown") runs are started by task_waiter without ast_ctx:
                                   no task2cb record (add_done_callback on such a run raises KeyError) *)
}.
Definition no_dev := mkDev false false false false false false.
Definition all_dev := mkDev true true true true true true.

(* started by a trigger / a service call / task.create / the legacy waiter task for a shutdown trigger *)
Inductive kind := KTrig | KSvc | KCreate | KShutL.
Inductive outcome := ORet (v : option N) | ORaise | OCancel | OEscape.
Inductive cbres := CbOk | CbRaise | CbCancelled.

(* [PFin cur n0 incb brk]: inside run_coro's finally; [cur] = dict-iterator position, [n0] = number of callbacks when
   the loop started (CPython's size check), [incb] = suspended inside a callback, [brk] = the loop was left by break *)
Inductive phase := PNone | PCreated | PBody | PFin (cur n0 : nat) (incb brk : bool) | PDone.

(* ---------- the per-task callback dict: insertion ordered, deleted entries leave holes (CPython) ---------- *)
Definition slot := option (cbid * N).
Definition table := list slot.

Fixpoint tbl_live (t : table) : list (cbid * N) :=
  match t with
  | [] => []
  | Some e :: r => e :: tbl_live r
  | None :: r => tbl_live r
  end.
Definition tbl_has (j : cbid) (t : table) : bool := existsb (fun e => N.eqb (fst e) j) (tbl_live t).
Fixpoint tbl_set (j : cbid) (a : N) (t : table) : table :=
  match t with
  | [] => []
  | Some (j', a') :: r => if N.eqb j' j then Some (j, a) :: r else Some (j', a') :: tbl_set j a r
  | None :: r => None :: tbl_set j a r
  end.
(* cb[callback] = [ctx, args, kwargs]: replaces the arguments in place, or appends *)
Definition tbl_add (j : cbid) (a : N) (t : table) : table :=
  if tbl_has j t then tbl_set j a t else t ++ [Some (j, a)].
(* cb.pop(callback, None) *)
Fixpoint tbl_rem (j : cbid) (t : table) : table :=
  match t with
  | [] => []
  | Some (j', a') :: r => if N.eqb j' j then None :: r else Some (j', a') :: tbl_rem j r
  | None :: r => None :: tbl_rem j r
  end.
Fixpoint tbl_lookup (j : cbid) (l : list (cbid * N)) : option N :=
  match l with
  | [] => None
  | (j', a) :: r => if N.eqb j' j then Some a else tbl_lookup j r
  end.
(* first live slot of [t]: (number of slots consumed including it, entry) *)
Fixpoint first_live (t : table) : option (nat * (cbid * N)) :=
  match t with
  | [] => None
  | Some e :: _ => Some (1%nat, e)
  | None :: r => match first_live r with Some (k, e) => Some (S k, e) | None => None end
  end.
Definition tbl_next (cur : nat) (t : table) : option (nat * (cbid * N)) :=
  match first_live (skipn cur t) with Some (k, e) => Some ((cur + k)%nat, e) | None => None end.

(* ---------- state ---------- *)
Record trec := mkT {
  tr_kind : kind;
  tr_phase : phase;
  tr_creq : bool;               (* task.cancel() was delivered by the reaper and not yet taken *)
  tr_ncancel : nat;             (* ghost: number of cancellations the reaper delivered to this task *)
  tr_out : option outcome;      (* how the body ended *)
  tr_final : option outcome;    (* what the asyncio task reports once done *)
  tr_snap : table               (* ghost: the callback table when the body ended *)
}.
Definition trec0 := mkT KCreate PNone false 0 None None [].

Record state := mkS {
  st_task : tid -> trec;
  st_ours : tid -> bool;                 (* Function.our_tasks *)
  st_cb : tid -> option table;           (* Function.task2cb[t]["cb"] *)
  st_ctx : tid -> bool;                  (* t in Function.task2context *)
  st_t2n : tid -> option (list name);    (* Function.unique_task2name *)
  st_n2t : name -> option tid;           (* Function.unique_name2task *)
  st_rq : list tid;                      (* reaper queue: pending ["cancel", task] commands *)
  st_rbusy : option tid;                 (* the reaper is inside [await cmd[1]] *)
  st_log : list (tid * cbid * N)         (* done-callback invocations, newest first *)
}.
Definition init_state : state :=
  mkS (fun _ => trec0) (fun _ => false) (fun _ => None) (fun _ => false) (fun _ => None) (fun _ => None) [] None [].

Definition upd {A} (f : N -> A) (k : N) (v : A) : N -> A := fun x => if N.eqb x k then v else f x.

Definition set_task (s : state) (t : tid) (r : trec) : state :=
  mkS (upd (st_task s) t r) (st_ours s) (st_cb s) (st_ctx s) (st_t2n s) (st_n2t s) (st_rq s) (st_rbusy s) (st_log s).
Definition set_ours (s : state) (t : tid) (b : bool) : state :=
  mkS (st_task s) (upd (st_ours s) t b) (st_cb s) (st_ctx s) (st_t2n s) (st_n2t s) (st_rq s) (st_rbusy s) (st_log s).
Definition set_cb (s : state) (t : tid) (v : option table) : state :=
  mkS (st_task s) (st_ours s) (upd (st_cb s) t v) (st_ctx s) (st_t2n s) (st_n2t s) (st_rq s) (st_rbusy s) (st_log s).
Definition set_ctx (s : state) (t : tid) (b : bool) : state :=
  mkS (st_task s) (st_ours s) (st_cb s) (upd (st_ctx s) t b) (st_t2n s) (st_n2t s) (st_rq s) (st_rbusy s) (st_log s).
Definition set_t2n (s : state) (t : tid) (v : option (list name)) : state :=
  mkS (st_task s) (st_ours s) (st_cb s) (st_ctx s) (upd (st_t2n s) t v) (st_n2t s) (st_rq s) (st_rbusy s) (st_log s).
Definition set_n2t (s : state) (n : name) (v : option tid) : state :=
  mkS (st_task s) (st_ours s) (st_cb s) (st_ctx s) (st_t2n s) (upd (st_n2t s) n v) (st_rq s) (st_rbusy s) (st_log s).
Definition set_rq (s : state) (q : list tid) : state :=
  mkS (st_task s) (st_ours s) (st_cb s) (st_ctx s) (st_t2n s) (st_n2t s) q (st_rbusy s) (st_log s).
Definition set_rbusy (s : state) (b : option tid) : state :=
  mkS (st_task s) (st_ours s) (st_cb s) (st_ctx s) (st_t2n s) (st_n2t s) (st_rq s) b (st_log s).
Definition add_log (s : state) (e : tid * cbid * N) : state :=
  mkS (st_task s) (st_ours s) (st_cb s) (st_ctx s) (st_t2n s) (st_n2t s) (st_rq s) (st_rbusy s) (e :: st_log s).

Definition set_phase (r : trec) (p : phase) : trec :=
  mkT (tr_kind r) p (tr_creq r) (tr_ncancel r) (tr_out r) (tr_final r) (tr_snap r).
Definition set_creq (r : trec) (b : bool) : trec :=
  mkT (tr_kind r) (tr_phase r) b (tr_ncancel r) (tr_out r) (tr_final r) (tr_snap r).

Definition phase_of (s : state) (t : tid) : phase := tr_phase (st_task s t).
Definition is_done (s : state) (t : tid) : bool := match phase_of s t with PDone => true | _ => false end.
(* the task is executing its body and no cancellation is pending: it can perform operations *)
Definition running (s : state) (t : tid) : bool :=
  match phase_of s t with PBody => negb (tr_creq (st_task s t)) | _ => false end.

Definition table_of (s : state) (t : tid) : table := match st_cb s t with Some tb => tb | None => [] end.
(* the table the callback loop of run_coro walks over *)
Definition iter_table (cfg : deviations) (s : state) (t : tid) : table :=
  if d_live_iter cfg then table_of s t else tr_snap (st_task s t).

(* CPython's dict iterator raises RuntimeError when the dict's size differs from the size at loop start ("changed size
   during iteration") and - only observable when the live dict is iterated - when it finds yet another entry after having
   yielded as many as the dict had at loop start ("keys changed during iteration": an entry was removed and another one
   added while a callback was suspended).  The number yielded so far is the number of logged calls of t. *)
Definition loop_fails (cfg : deviations) (s : state) (t : tid) (cur n0 : nat) : bool :=
  let tb := iter_table cfg s t in
  negb (Nat.eqb (length (tbl_live tb)) n0)
  || (d_live_iter cfg &&
      match tbl_next cur tb with
      | Some _ => Nat.leb n0 (length (filter (fun e => N.eqb (fst (fst e)) t) (st_log s)))
      | None => false
      end).

(* the body is over (return / exception / CancelledError): enter the [finally] *)
Definition end_body (s : state) (t : tid) (o : outcome) : state :=
  let r := st_task s t in
  let tb := table_of s t in
  set_task s t (mkT (tr_kind r) (PFin 0 (length (tbl_live tb)) false false) false (tr_ncancel r) (Some o) None tb).

(* an exception leaves run_coro from inside the finally: the task is done, nothing is cleaned up *)
Definition escape (s : state) (t : tid) (o : outcome) : state :=
  let r := st_task s t in
  set_task s t (mkT (tr_kind r) PDone false (tr_ncancel r) (tr_out r) (Some o) (tr_snap r)).

Fixpoint del_names (f : name -> option tid) (l : list name) : name -> option tid :=
  match l with
  | [] => f
  | n :: r => del_names (upd f n None) r
  end.
Definition remove_name (n : name) (l : list name) : list name := filter (fun x => negb (N.eqb x n)) l.

(* the tail of the finally: unique names, context, callback record, our_tasks (function.py l.457-463) *)
Definition cleanup (s : state) (t : tid) : state :=
  let s1 := match st_t2n s t with
            | Some l => mkS (st_task s) (st_ours s) (st_cb s) (st_ctx s) (upd (st_t2n s) t None) (del_names (st_n2t s) l)
                            (st_rq s) (st_rbusy s) (st_log s)
            | None => s
            end in
  let s2 := set_ours (set_cb (set_ctx s1 t false) t None) t false in
  let r := st_task s2 t in
  set_task s2 t (mkT (tr_kind r) PDone false (tr_ncancel r) (tr_out r) (tr_out r) (tr_snap r)).

Inductive label :=
  | LCreate (t : tid) (k : kind)            (* Function.create_task (+ task_done_callback_ctx for triggers / task.create) *)
  | LStart (t : tid)                        (* run_coro up to [await coro]; do_func_call/_call store the HA context *)
  | LAdd (t x : tid) (j : cbid) (a : N)     (* task t: task.add_done_callback(x, cb_j, a) *)
  | LRem (t x : tid) (j : cbid)             (* task t: task.remove_done_callback(x, cb_j) *)
  | LCancel (src : option tid) (x : tid)    (* task.cancel(x) called by task src (None: from outside any modelled task) *)
  | LClaim (t : tid) (n : name)             (* task t: task.unique(n) (kill_me=False) *)
  | LEnd (t : tid) (o : outcome)            (* the body of t returns / raises / receives CancelledError *)
  | LCbBegin (t : tid)                      (* the callback loop fetches the next callback and calls it *)
  | LCbEnd (t : tid) (r : cbres)            (* that callback returns / raises / is cancelled while suspended *)
  | LExit (t : tid)                         (* the loop is over: registry cleanup, the asyncio task is done *)
  | LReaper                                 (* task_reaper: cmd = await q.get(); cmd[1].cancel(); await cmd[1] ... *)
  | LReaperWake                             (* ... the awaited task is done *)
  | LPropCancel (t x : tid)                 (* asyncio: Task.cancel() of t, which awaits task x inside a blocking
                                               service.call, cancels x; t itself gets CancelledError once x is done *)
  | LCallKilled (t x : tid).                (* t was blocked in service.call on service run x; x ended cancelled *)

Definition step (cfg : deviations) (s : state) (l : label) : option state :=
  match l with
  | LCreate t k =>
      match phase_of s t with
      | PNone =>
          let s1 := set_task s t (mkT k PCreated false 0 None None []) in
          Some (match k with KSvc | KShutL => s1 | _ => set_cb s1 t (Some []) end)
      | _ => None
      end
  | LStart t =>
      let r := st_task s t in
      match tr_phase r with
      | PCreated =>
          let s1 := set_ours (set_task s t (set_phase r PBody)) t true in
          let s2 := match tr_kind r with
                    | KSvc => if d_service_no_cbrec cfg then s1
                              else match st_cb s1 t with None => set_cb s1 t (Some []) | Some _ => s1 end
                    | KShutL => if d_shutdown_no_cbrec cfg then s1
                                else match st_cb s1 t with None => set_cb s1 t (Some []) | Some _ => s1 end
                    | _ => match st_cb s1 t with None => set_cb s1 t (Some []) | Some _ => s1 end
                    end in
          Some (match tr_kind r with KTrig | KShutL => set_ctx s2 t true | _ => s2 end)
      | _ => None
      end
  | LAdd t x j a =>
      if running s t then
        match st_cb s x with
        | Some tb => Some (set_cb s x (Some (tbl_add j a tb)))
        | None => Some (end_body s t ORaise)                      (* KeyError *)
        end
      else None
  | LRem t x j =>
      if running s t then
        match st_cb s x with
        | Some tb => Some (set_cb s x (Some (tbl_rem j tb)))
        | None => Some (end_body s t ORaise)                      (* KeyError *)
        end
      else None
  | LCancel src x =>
      match src with
      | Some t =>
          if running s t then
            if st_ours s x then Some (set_rq s (st_rq s ++ [x]))
            else Some (end_body s t ORaise)                       (* TypeError: not a user-started task *)
          else None
      | None => Some (if st_ours s x then set_rq s (st_rq s ++ [x]) else s)
      end
  | LClaim t n =>
      if running s t then
        let owner := st_n2t s n in
        let s1 := match owner with
                  | Some o => if negb (N.eqb o t) && st_ours s o then set_rq s (st_rq s ++ [o]) else s
                  | None => s
                  end in
        if st_ours s1 t then
          let s2 := match owner with
                    | Some o => match st_t2n s1 o with
                                | Some l => set_t2n s1 o (Some (remove_name n l))
                                | None => s1
                                end
                    | None => s1
                    end in
          let s3 := set_n2t s2 n (Some t) in
          let l := match st_t2n s3 t with Some l => l | None => [] end in
          Some (set_t2n s3 t (Some (n :: remove_name n l)))
        else Some s1
      else None
  | LEnd t o =>
      let r := st_task s t in
      match tr_phase r with
      | PBody =>
          match o with
          | OCancel => if tr_creq r then Some (end_body s t OCancel) else None
          | OEscape => None
          | _ => if tr_creq r then None else Some (end_body s t o)
          end
      | _ => None
      end
  | LCbBegin t =>
      let r := st_task s t in
      match tr_phase r with
      | PFin cur n0 false false =>
          let tb := iter_table cfg s t in
          if loop_fails cfg s t cur n0 then Some (escape s t OEscape)   (* dict changed size / keys changed *)
          else match tbl_next cur tb with
               | Some (cur', (j, a)) => Some (add_log (set_task s t (set_phase r (PFin cur' n0 true false))) (t, j, a))
               | None => None
               end
      | _ => None
      end
  | LCbEnd t res =>
      let r := st_task s t in
      match tr_phase r with
      | PFin cur n0 true false =>
          match res with
          | CbOk => if tr_creq r then None else Some (set_task s t (set_phase r (PFin cur n0 false false)))
          | CbRaise => if tr_creq r then None
                       else Some (set_task s t (set_phase r (PFin cur n0 false (d_cb_raise_breaks cfg))))
          | CbCancelled =>
              if tr_creq r then
                if d_fin_cancel_escapes cfg then Some (escape s t OCancel)
                else Some (set_task s t (mkT (tr_kind r) (PFin cur n0 false false) false (tr_ncancel r) (Some OCancel)
                                             None (tr_snap r)))
              else None
          end
      | _ => None
      end
  | LExit t =>
      let r := st_task s t in
      match tr_phase r with
      | PFin cur n0 false brk =>
          let tb := iter_table cfg s t in
          if brk then Some (cleanup s t)
          else if negb (Nat.eqb (length (tbl_live tb)) n0) then Some (escape s t OEscape)
          else match tbl_next cur tb with
               | Some _ => None
               | None => Some (cleanup s t)
               end
      | _ => None
      end
  | LReaper =>
      match st_rbusy s, st_rq s with
      | None, x :: q =>
          let s1 := set_rq s q in
          let r := st_task s1 x in
          match tr_phase r with
          | PDone | PNone => Some s1                              (* cancel() of a finished task: nothing *)
          | PCreated =>                                           (* cancelled before its first step: run_coro never runs *)
              Some (set_task s1 x (mkT (tr_kind r) PDone false (S (tr_ncancel r)) None (Some OCancel) (tr_snap r)))
          | _ => Some (set_rbusy (set_task s1 x (mkT (tr_kind r) (tr_phase r) true (S (tr_ncancel r)) (tr_out r)
                                                     (tr_final r) (tr_snap r))) (Some x))
          end
      | _, _ => None
      end
  | LReaperWake =>
      match st_rbusy s with
      | Some x => if is_done s x then Some (set_rbusy s None) else None
      | None => None
      end
  | LPropCancel t x =>
      let rt := st_task s t in
      match tr_phase rt with
      | PBody =>
          if tr_creq rt && negb (N.eqb t x) then
            let r := st_task s x in
            match tr_phase r with
            | PDone | PNone => Some s
            | PCreated =>                                         (* cancelled before its first step: run_coro never runs *)
                match tr_kind r, st_cb s x with                     (* only a service run can be awaited this way *)
                | KSvc, None => Some (set_task s x (mkT KSvc PDone false (tr_ncancel r) None (Some OCancel) (tr_snap r)))
                | _, _ => Some s
                end
            | _ => Some (set_task s x (set_creq r true))
            end
          else None
      | _ => None
      end
  | LCallKilled t x =>
      if running s t && d_call_cancel_kills cfg then
        match phase_of s x, tr_final (st_task s x) with
        | PDone, Some OCancel => Some (end_body s t OCancel)
        | _, _ => None
        end
      else None
  end.

Definition run_from (cfg : deviations) (s : state) (ls : list label) : option state := fold_left_opt (step cfg) ls s.
Definition run (cfg : deviations) (ls : list label) : option state := run_from cfg init_state ls.

(* ---------- observations on states ---------- *)
(* the done-callback invocations of task t, oldest first *)
Definition calls (s : state) (t : tid) : list (cbid * N) :=
  map (fun e => (snd (fst e), snd e)) (filter (fun e => N.eqb (fst (fst e)) t) (rev (st_log s))).

Definition mentions_name (s : state) (t : tid) (names : list name) : bool :=
  existsb (fun n => match st_n2t s n with Some o => N.eqb o t | None => false end) names.

(* which task a label belongs to (None: the reaper / a caller outside the modelled tasks) *)
Definition owner (l : label) : option tid :=
  match l with
  | LCreate t _ | LStart t | LAdd t _ _ _ | LRem t _ _ | LClaim t _ | LEnd t _ | LCbBegin t | LCbEnd t _ | LExit t => Some t
  | LCancel src _ => src
  | LCallKilled t _ => Some t
  | LReaper | LReaperWake | LPropCancel _ _ => None
  end.
