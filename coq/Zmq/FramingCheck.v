(* Zmq/FramingCheck.v — what the generated correspondence files evaluate for C19 framing.
   [fcase_model_ok]: the Model reproduces what the real ZmqSocket did (tie T2).
   [fcase_spec_ok] : what the real code did satisfies the property (lossless round trip). *)
From PV Require Import Common.Util Gen.ZmqConsts Zmq.Framing.

Definition runs := list (N * N).

Inductive robs :=
  | ROk (parts : list runs) (rest : runs)
  | REof | RBadCmd | ROther.

Record fcase := {
  fc_single : bool;                 (* send/recv(multipart=False) instead of send_multipart/recv_multipart *)
  fc_parts : list runs;             (* frames handed to the sender *)
  fc_cuts : list N;                 (* fragmentation: sizes of the successive chunks *)
  fc_trail : runs;                  (* bytes following the message on the stream *)
  fc_sent : option runs;            (* observed: bytes written by the sender (None: sender raised) *)
  fc_recv : robs                    (* observed: what the receiver returned *)
}.

(* cut a byte string into chunks of the given sizes (zero sizes skipped), remainder last *)
Fixpoint cut_stream (cuts : list N) (data : bytes) : stream :=
  match data with
  | [] => []
  | _ =>
    match cuts with
    | [] => [data]
    | c :: r =>
        if N.eqb c 0 then cut_stream r data
        else firstn (N.to_nat c) data :: cut_stream r (skipn (N.to_nat c) data)
    end
  end.

Definition robs_of (single : bool) (r : recv_result) : option (list bytes * bytes) :=
  match r with
  | RecvOk parts rest => Some (if single then [concat parts] else parts, concat rest)
  | _ => None
  end.

Definition robs_matches (single : bool) (o : robs) (r : recv_result) : bool :=
  match o, r with
  | ROk ps rest, RecvOk _ _ =>
      match robs_of single r with
      | Some (ps', rest') => frames_eqb (map rle_expand ps) ps' && bytes_eqb (rle_expand rest) rest'
      | None => false
      end
  | REof, RecvEOF => true
  | RBadCmd, RecvBadCmd => true
  | _, _ => false
  end.

Definition model_sent (c : fcase) : bytes :=
  let parts := map rle_expand (fc_parts c) in
  if fc_single c then enc_single (hd [] parts) else enc_multipart parts.

Definition fcase_model_ok (c : fcase) : bool :=
  match fc_sent c with
  | None => false          (* the model's sender is total; a raising sender is a mismatch *)
  | Some sent =>
      bytes_eqb (model_sent c) (rle_expand sent) &&
      robs_matches (fc_single c) (fc_recv c)
        (recv_multipart (cut_stream (fc_cuts c) (rle_expand sent ++ rle_expand (fc_trail c))))
  end.

(* The property: what was sent is read back identically, and nothing after it is consumed. *)
Definition fcase_spec_ok (c : fcase) : bool :=
  match fc_parts c with
  | [] => true                                       (* nothing to send: no claim *)
  | _ =>
    match fc_recv c with
    | ROk ps rest =>
        let want := map rle_expand (fc_parts c) in
        frames_eqb (map rle_expand ps) (if fc_single c then [concat want] else want)
        && bytes_eqb (rle_expand rest) (rle_expand (fc_trail c))
    | _ => false
    end
  end.

Definition show_result (r : recv_result) : (N * list N * N) :=
  match r with
  | RecvOk ps rest => (0%N, map (fun p => N.of_nat (length p)) ps, N.of_nat (length (concat rest)))
  | RecvEOF => (1%N, [], 0%N) | RecvBadCmd => (2%N, [], 0%N) | RecvFuel => (3%N, [], 0%N)
  end.

Definition fcase_explain (c : fcase) :=
  (N.of_nat (length (model_sent c)),
   firstn 12 (model_sent c),
   show_result (recv_multipart (cut_stream (fc_cuts c) (model_sent c ++ rle_expand (fc_trail c))))).

Definition rcase : Type := (runs * list N * robs).
Definition rcase_model_ok (c : rcase) : bool :=
  let '(s, cuts, o) := c in robs_matches false o (recv_multipart (cut_stream cuts (rle_expand s))).
Definition rcase_explain (c : rcase) :=
  let '(s, cuts, o) := c in show_result (recv_multipart (cut_stream cuts (rle_expand s))).
