(* Zmq/ShellCheck.v — Spec of C19's authentication / reply-correlation clauses as a checker over observed
   message groups, and the functions the correspondence files evaluate. *)
From PV Require Import Common.Util Gen.ZmqConsts Zmq.Framing Zmq.Shell.

Definition out_eqb (a b : out) : bool :=
  chan_eqb (o_chan a) (o_chan b) && mtype_eqb (o_type a) (o_type b) && frames_eqb (o_ids a) (o_ids b)
  && Bool.eqb (o_sig_ok a) (o_sig_ok b) && Bool.eqb (o_parent_ok a) (o_parent_ok b)
  && option_eqb N.eqb (o_count a) (o_count b).

Definition is_stream (o : out) : bool := mtype_eqb (o_type o) MStream.
Definition is_shell (o : out) : bool := chan_eqb (o_chan o) ChShell.
Definition is_nil {A} (l : list A) : bool := match l with [] => true | _ => false end.

(* ------------------------------------------------------------------------------------------------
   Spec, written against the property text, independent of [handle]:
   - a request that is not authentic is never executed and never answered (and ends the connection);
   - every authentic request of a replying type gets exactly one shell reply: of the matching type, addressed to
     the requester's identities, correctly signed, with the request header as parent; all broadcasts are signed
     and carry the request header as parent; the first broadcast is status busy and the last is status idle;
   - execute replies carry the execution counter: 1 + number of earlier authentic execute requests that stored
     history; the executed cells are exactly the authentic execute requests that parse, in order.          *)
Definition expected_reply (r : request) : option mtype :=
  match r_type r with
  | RExecute => Some (match r_outcome r with ExError | ExSyntax => MExecuteReplyErr | _ => MExecuteReplyOk end)
  | t => reply_type t
  end.

Definition is_execute (r : request) : bool := match r_type r with RExecute => true | _ => false end.

(* broadcast types the property demands, in order (stdout stream messages aside) *)
Definition expected_iopub (r : request) : list mtype :=
  match r_type r with
  | RExecute =>
      match r_outcome r with
      | ExValue => [MStatusBusy; MExecuteInput; MExecuteResult; MStatusIdle]
      | ExNone => [MStatusBusy; MExecuteInput; MStatusIdle]
      | ExError | ExSyntax => [MStatusBusy; MExecuteInput; MError; MStatusIdle]
      end
  | _ => [MStatusBusy; MStatusIdle]
  end.

Definition ok_cell (r : request) : bool :=
  is_execute r && match r_outcome r with ExNone | ExValue => true | _ => false end.

Definition strip_stream (g : list out) : list out := filter (fun o => negb (is_stream o)) g.
Definition count_stream (g : list out) : nat := length (filter is_stream g).

Definition group_ok (ids : list bytes) (c : N) (r : request) (g : list out) : bool :=
  forallb (fun o => o_sig_ok o && o_parent_ok o) g &&
  (let sh := filter is_shell g in
   match expected_reply r with
   | Some m =>
       match sh with
       | [o] => frames_eqb (o_ids o) ids && mtype_eqb (o_type o) m &&
                (if is_execute r then option_eqb N.eqb (o_count o) (Some c) else true)
       | _ => false
       end
   | None => is_nil sh
   end) &&
  (let io := filter (fun o => negb (is_shell o)) g in
   (* results, errors and the busy/idle bracket, in order; stdout anywhere before the closing idle *)
   list_eqb mtype_eqb (map o_type (strip_stream io)) (expected_iopub r) &&
   match io with
   | first :: _ => mtype_eqb (o_type first) MStatusBusy && mtype_eqb (o_type (last io first)) MStatusIdle
   | [] => false
   end) &&
  (* every execution_count shown is the counter of this request *)
  (if is_execute r then forallb (fun o => match o_count o with None => true | Some k => N.eqb k c end) g else true) &&
  (* a cell that runs to completion shows exactly its stdout lines *)
  (if ok_cell r then Nat.eqb (count_stream g) (N.to_nat (r_stdout r)) else true).

Section Spec.
  Variable hmac : list bytes -> bytes.

  Fixpoint spec_groups (alive : bool) (count : N) (rs : list request) (gs : list (list out)) : bool :=
    match rs, gs with
    | [], [] => true
    | r :: rs', g :: gs' =>
        if alive then
          match authentic hmac r with
          | None => is_nil g && spec_groups false count rs' gs'
          | Some ids =>
              group_ok ids count r g &&
              spec_groups true (if is_execute r then bump r count else count) rs' gs'
          end
        else is_nil g && spec_groups false count rs' gs'
    | _, _ => false
    end.

  (* number of cells that must have been executed *)
  Fixpoint spec_executed (alive : bool) (rs : list request) : N :=
    match rs with
    | [] => 0%N
    | r :: rs' =>
        if alive then
          match authentic hmac r with
          | None => 0%N
          | Some _ => ((if is_execute r && runs_code (r_outcome r) then 1 else 0) + spec_executed true rs')%N
          end
        else 0%N
    end.
End Spec.

(* ------------------------------------------------------------------------------------------------
   correspondence case: a session = a list of requests and what the real kernel wrote, grouped per request,
   in global emission order over both channels; stdout stream messages may be emitted by the house-keeping
   task at any point before the closing idle, so Model and observation are compared modulo their position *)
Record scase := {
  sc_tbl : list (list bytes * bytes);       (* HMAC oracle: message frames -> hex digest, from the real hmac module *)
  sc_reqs : list request;
  sc_obs : list (list out);
  sc_executed : N                            (* observed: number of cells whose first statement ran *)
}.

Fixpoint tbl_lookup (t : list (list bytes * bytes)) (k : list bytes) : bytes :=
  match t with
  | [] => []
  | (k', v) :: r => if frames_eqb k k' then v else tbl_lookup r k
  end.

Definition group_matches (m o : list out) : bool :=
  list_eqb out_eqb (strip_stream m) (strip_stream o)
  && Nat.eqb (count_stream m) (count_stream o)
  && forallb (fun x => negb (is_stream x) || out_eqb x (mkOut ChIopub MStream [zmq_stdout_ident] true true None)) o
  && match o with [] => true | x :: _ => negb (is_stream (last o x)) end.

Definition scase_model_ok (c : scase) : bool :=
  let '(st, gs) := run (tbl_lookup (sc_tbl c)) k_init (sc_reqs c) in
  list_eqb group_matches gs (sc_obs c) && N.eqb (k_executed st) (sc_executed c).

Definition scase_spec_ok (c : scase) : bool :=
  spec_groups (tbl_lookup (sc_tbl c)) true 1%N (sc_reqs c) (sc_obs c)
  && N.eqb (spec_executed (tbl_lookup (sc_tbl c)) true (sc_reqs c)) (sc_executed c).

Definition show_out (o : out) := (o_chan o, o_type o, length (o_ids o), o_sig_ok o, o_parent_ok o, o_count o).
Definition scase_explain (c : scase) :=
  let '(st, gs) := run (tbl_lookup (sc_tbl c)) k_init (sc_reqs c) in
  (map (map show_out) gs, k_executed st, map (fun r => is_nil (match authentic (tbl_lookup (sc_tbl c)) r with Some _ => [1%N] | None => [] end)) (sc_reqs c)).
