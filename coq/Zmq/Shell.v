(* Zmq/Shell.v — executable model of jupyter_kernel.py Kernel.deserialize_wire_msg (l.261-286),
   Kernel.send (l.299-327), Kernel.shell_handler (l.329-595) and the shell_listen loop (l.641-660) at the
   level of *messages*: who is answered, on which channel, with which identities / parent / signature, in
   which order, and how the execution counter evolves.  Not modelled: JSON (the harness says whether the four
   message frames decode), the hash (a Section variable), the content of replies beyond type / status / count,
   the interpreter (the outcome of running a cell is an input of the request).   No proofs here. *)
From PV Require Import Common.Util Gen.ZmqConsts Zmq.Framing.

Inductive reqtype :=
  | RExecute | RKernelInfo | RComplete | RIsComplete | RCommInfo | RHistory
  | RComm            (* comm_open / comm_msg / comm_close: ignored, no reply *)
  | RUnknown.        (* logged, no reply *)

Inductive exec_outcome := ExNone | ExValue | ExError | ExSyntax.   (* ExSyntax: the cell does not parse, nothing runs *)
Definition runs_code (o : exec_outcome) : bool := match o with ExSyntax => false | _ => true end.

Inductive chan := ChShell | ChIopub.

Inductive mtype :=
  | MStatusBusy | MStatusIdle | MExecuteInput | MExecuteResult | MError | MStream
  | MExecuteReplyOk | MExecuteReplyErr | MKernelInfoReply | MCompleteReply | MIsCompleteReply
  | MCommInfoReply | MHistoryReply | MOther.

Definition mtype_eqb (a b : mtype) : bool :=
  match a, b with
  | MStatusBusy, MStatusBusy | MStatusIdle, MStatusIdle | MExecuteInput, MExecuteInput
  | MExecuteResult, MExecuteResult | MError, MError | MStream, MStream
  | MExecuteReplyOk, MExecuteReplyOk | MExecuteReplyErr, MExecuteReplyErr
  | MKernelInfoReply, MKernelInfoReply | MCompleteReply, MCompleteReply
  | MIsCompleteReply, MIsCompleteReply | MCommInfoReply, MCommInfoReply
  | MHistoryReply, MHistoryReply | MOther, MOther => true
  | _, _ => false
  end.

Definition chan_eqb (a b : chan) : bool :=
  match a, b with ChShell, ChShell | ChIopub, ChIopub => true | _, _ => false end.

(* one outgoing message as the client sees it after decoding *)
Record out := mkOut {
  o_chan : chan;
  o_type : mtype;
  o_ids : list bytes;        (* routing identities in front of the delimiter *)
  o_sig_ok : bool;           (* signature frame = HMAC(session key, the four message frames) *)
  o_parent_ok : bool;        (* parent_header frame = header of the request being answered *)
  o_count : option N         (* execution_count field where the message type has one *)
}.

Record request := {
  r_wire : list bytes;       (* the frames as received: identities ++ [DELIM; signature] ++ message frames *)
  r_json_ok : bool;          (* the first four message frames decode as UTF-8 JSON (oracle: Python's json) *)
  r_type : reqtype;          (* header.msg_type *)
  r_store : bool;            (* content.store_history (default True) *)
  r_outcome : exec_outcome;  (* what evaluating content.code does *)
  r_stdout : N               (* number of lines the cell prints *)
}.

Fixpoint find_delim (w : list bytes) (acc : list bytes) : option (list bytes * list bytes) :=
  match w with
  | [] => None                                                   (* wire_msg.index(DELIM) -> ValueError *)
  | f :: r => if bytes_eqb f zmq_delim then Some (rev acc, r) else find_delim r (f :: acc)
  end.

(* deserialize_wire_msg up to (but not including) the signature comparison *)
Definition split_wire (w : list bytes) : option (list bytes * bytes * list bytes) :=
  match find_delim w [] with
  | None => None
  | Some (ids, rest) =>
      match rest with
      | sig :: frames =>
          match nth_error frames 3 with
          | Some _ => Some (ids, sig, frames)
          | None => None                                         (* msg_frames[3] -> IndexError *)
          end
      | [] => None                                               (* wire_msg[delim_idx + 1] -> IndexError *)
      end
  end.

Definition reply_type (t : reqtype) : option mtype :=
  match t with
  | RKernelInfo => Some MKernelInfoReply
  | RComplete => Some MCompleteReply
  | RIsComplete => Some MIsCompleteReply
  | RCommInfo => Some MCommInfoReply
  | RHistory => Some MHistoryReply
  | RExecute | RComm | RUnknown => None
  end.

Section Shell.
  (* keyed MAC of the message frames under the session key (hashlib/hmac: trusted, not modelled) *)
  Variable hmac : list bytes -> bytes.

  Definition authentic (r : request) : option (list bytes) :=
    match split_wire (r_wire r) with
    | None => None
    | Some (ids, sig, frames) =>
        if negb (r_json_ok r) then None                          (* decode() raises before the check *)
        else if bytes_eqb sig (hmac frames) then Some ids else None
    end.

  Definition iopub (t : mtype) (c : option N) : out := mkOut ChIopub t [] true true c.
  Definition shell (ids : list bytes) (t : mtype) (c : option N) : out := mkOut ChShell t ids true true c.
  Definition stdout_msgs (n : N) : list out :=
    N.iter n (cons (mkOut ChIopub MStream [zmq_stdout_ident] true true None)) [].

  Record kstate := { k_alive : bool; k_count : N; k_executed : N }.
  Definition k_init : kstate := {| k_alive := true; k_count := 1; k_executed := 0 |}.

  Definition bump (r : request) (c : N) : N := if r_store r then (c + 1)%N else c.

  (* shell_handler for an authenticated request *)
  Definition handle_ok (st : kstate) (ids : list bytes) (r : request) : kstate * list out :=
    let c := k_count st in
    match r_type r with
    | RExecute =>
        let st' := {| k_alive := true; k_count := bump r c; k_executed := (k_executed st + (if runs_code (r_outcome r) then 1 else 0))%N |} in
        match r_outcome r with
        | ExError | ExSyntax =>
            (st', [iopub MStatusBusy None; iopub MExecuteInput (Some c);
                   shell ids MExecuteReplyErr (Some c); iopub MError None; iopub MStatusIdle None])
        | ExValue =>
            (st', [iopub MStatusBusy None; iopub MExecuteInput (Some c); iopub MExecuteResult (Some c);
                   shell ids MExecuteReplyOk (Some c)] ++ stdout_msgs (r_stdout r) ++ [iopub MStatusIdle None])
        | ExNone =>
            (st', [iopub MStatusBusy None; iopub MExecuteInput (Some c);
                   shell ids MExecuteReplyOk (Some c)] ++ stdout_msgs (r_stdout r) ++ [iopub MStatusIdle None])
        end
    | t =>
        match reply_type t with
        | Some m => (st, [iopub MStatusBusy None; shell ids m None; iopub MStatusIdle None])
        | None => (st, [iopub MStatusBusy None; iopub MStatusIdle None])
        end
    end.

  (* one iteration of shell_listen's loop.  A request that fails authentication raises inside the handler:
     nothing is sent, nothing is executed, and the listener ends (the session is shut down). *)
  Definition handle (st : kstate) (r : request) : kstate * list out :=
    if k_alive st then
      match authentic r with
      | Some ids => handle_ok st ids r
      | None => ({| k_alive := false; k_count := k_count st; k_executed := k_executed st |}, [])
      end
    else (st, []).

  Fixpoint run (st : kstate) (rs : list request) : kstate * list (list out) :=
    match rs with
    | [] => (st, [])
    | r :: rest =>
        let '(st1, o) := handle st r in
        let '(st2, os) := run st1 rest in
        (st2, o :: os)
    end.
End Shell.
