(* Zmq/Framing.v — executable model of jupyter_kernel.py ZmqSocket framing (l.79-182).
   Bytes are [N] (values < 256 on the wire); a TCP stream is a list of non-empty chunks, each chunk
   being what one [reader.read(n)] may return at most.  Constants come from Gen/ZmqConsts.v, which the
   translator regenerates from /repo on every run.  No proofs here (see Proofs/ZmqFraming.v). *)
From PV Require Import Common.Util Gen.ZmqConsts.

Definition bytes := list N.

(* ---------- big endian ---------- *)
Fixpoint be_enc (w : nat) (n : N) : bytes :=
  match w with
  | O => []
  | S w' => be_enc w' (n / 256)%N ++ [(n mod 256)%N]
  end.
Definition be_dec (l : bytes) : N := fold_left (fun a b => a * 256 + b)%N l 0%N.

(* ---------- comparison operator read from the source ---------- *)
Definition cmp_eval (c : cmpop) (a b : N) : bool :=
  match c with
  | CmpLe => (a <=? b)%N | CmpLt => (a <? b)%N | CmpGe => (b <=? a)%N | CmpGt => (b <? a)%N
  | CmpEq => (a =? b)%N | CmpNe => negb (a =? b)%N
  end.

(* ---------- send side ---------- *)
(* send_multipart, one part:  cmd = MORE if not last else 0;
   if len <= 255: [cmd, len] + part  else  [cmd + LONG] + pack(">Q", len) + part          *)
Definition enc_part (more : bool) (p : bytes) : bytes :=
  let n := N.of_nat (length p) in
  let cmd := if more then mp_flag_more else mp_flag_last in
  if cmp_eval mp_short_cmp n mp_short_max then [cmd; n] ++ p
  else [(cmd + mp_long_add)%N] ++ be_enc mp_long_width n ++ p.

Fixpoint enc_multipart (parts : list bytes) : bytes :=
  match parts with
  | [] => []
  | [p] => enc_part false p
  | p :: r => enc_part true p ++ enc_multipart r
  end.

(* send (REP envelope): [1,0, 0,len] + msg   or   [1,0, 2] + pack(">Q") + msg *)
Definition enc_single (msg : bytes) : bytes :=
  let n := N.of_nat (length msg) in
  if cmp_eval sd_short_cmp n sd_short_max then sd_prefix ++ [sd_short_flag; n] ++ msg
  else sd_prefix ++ [sd_long_flag] ++ be_enc sd_long_width n ++ msg.

(* ---------- receive side ---------- *)
Definition stream := list bytes.     (* pending chunks; invariant: no empty chunk *)

(* one reader.read(k): at most k bytes of the first pending chunk; None = EOF *)
Definition read_some (k : nat) (s : stream) : option (bytes * stream) :=
  match s with
  | [] => None
  | c :: r =>
      let got := firstn k c in
      let left := skipn k c in
      Some (got, match left with [] => r | _ => left :: r end)
  end.

(* read_bytes(n): loop until n bytes were accumulated; fuel = n is always enough because every
   read returns at least one byte *)
Fixpoint read_bytes_fuel (fuel : nat) (n : nat) (acc : bytes) (s : stream) : option (bytes * stream) :=
  match n with
  | O => Some (acc, s)
  | _ =>
    match fuel with
    | O => None
    | S fuel' =>
      match read_some n s with
      | None => None
      | Some (got, s') =>
          match got with
          | [] => None                         (* len(new_data)==0 -> EOFError *)
          | _ => read_bytes_fuel fuel' (n - length got) (acc ++ got) s'
          end
      end
    end
  end.
Definition read_bytes (n : nat) (s : stream) : option (bytes * stream) := read_bytes_fuel n n [] s.

Definition stream_len (s : stream) : nat := length (concat s).
(* a length taken from the wire is never converted to [nat] unless that many bytes are pending
   (otherwise the implementation reads everything and raises EOFError) *)
Definition read_bytesN (n : N) (s : stream) : option (bytes * stream) :=
  if (N.of_nat (stream_len s) <? n)%N then None else read_bytes (N.to_nat n) s.
Definition skipnN (n : N) (l : bytes) : bytes := skipn (N.to_nat (N.min n (N.of_nat (length l)))) l.

(* command frames: recv parses and discards them; a malformed command body raises in the
   implementation (IndexError / struct.error), modelled as failure *)
Fixpoint cmd_params_ok (fuel : nat) (b : bytes) : bool :=
  match fuel with
  | O => false
  | S fuel' =>
    match b with
    | [] => true
    | plen :: r =>
        let r1 := skipnN plen r in
        let lenb := firstn 4 r1 in
        if Nat.eqb (length lenb) 4 then
          let vlen := be_dec lenb in
          cmd_params_ok fuel' (skipnN vlen (skipn 4 r1))
        else false
    end
  end.
Definition cmd_ok (body : bytes) : bool :=
  match body with
  | [] => false                                  (* msg_body[0] -> IndexError *)
  | clen :: r => cmd_params_ok (S (length r)) (skipnN clen r)
  end.

Inductive recv_result :=
  | RecvOk (parts : list bytes) (rest : stream)
  | RecvEOF                                       (* EOFError *)
  | RecvBadCmd                                    (* exception while parsing a command frame *)
  | RecvFuel.                                     (* model ran out of fuel; excluded by theorems *)

Fixpoint recv_loop (fuel : nat) (s : stream) (parts : list bytes) : recv_result :=
  match fuel with
  | O => RecvFuel
  | S fuel' =>
    match read_bytes 1 s with
    | Some ([cmd], s1) =>
      let lenr :=
        if N.eqb (N.land cmd rv_long_mask) 0
        then match read_bytes 1 s1 with Some ([l], s2) => Some (l, s2) | _ => None end
        else match read_bytes rv_long_width s1 with Some (lb, s2) => Some (be_dec lb, s2) | None => None end in
      match lenr with
      | None => RecvEOF
      | Some (len, s2) =>
        match read_bytesN len s2 with
        | None => RecvEOF
        | Some (body, s3) =>
          if N.eqb (N.land cmd rv_cmd_mask) 0 then
            let parts' := parts ++ [body] in
            if existsb (N.eqb cmd) rv_final_cmds then RecvOk parts' s3
            else recv_loop fuel' s3 parts'
          else
            if cmd_ok body then recv_loop fuel' s3 parts else RecvBadCmd
        end
      end
    | _ => RecvEOF
    end
  end.

Definition recv_multipart (s : stream) : recv_result := recv_loop (S (stream_len s)) s [].
(* recv(multipart=False) joins the parts *)
Definition recv_single (s : stream) : option (bytes * stream) :=
  match recv_multipart s with RecvOk parts r => Some (concat parts, r) | _ => None end.

(* ---------- what the correspondence files evaluate ---------- *)
Definition recv_result_eqb (a b : recv_result) : bool :=
  match a, b with
  | RecvOk p r, RecvOk p' r' => frames_eqb p p' && bytes_eqb (concat r) (concat r')
  | RecvEOF, RecvEOF | RecvBadCmd, RecvBadCmd | RecvFuel, RecvFuel => true
  | _, _ => false
  end.
